(* Proofs/WrkFacts.v — invariants and lemmas about Model/Wrk.v (C07, worker part of C06). *)
From AN Require Import Model.Wrk.
Import ListNotations.

Ltac inv H := inversion H; subst; clear H.
Ltac bm :=
  match goal with
  | H : context [match ?x with _ => _ end] |- _ => destruct x eqn:?
  | |- context [match ?x with _ => _ end] => destruct x eqn:?
  end.

(* ======================================================================================== *)
(* lists, upd                                                                                *)
(* ======================================================================================== *)

Lemma upd_length : forall A (f : A -> A) l k, length (upd k f l) = length l.
Proof. induction l; destruct k; cbn; auto. Qed.

Lemma upd_upd : forall A (f g : A -> A) l k, upd k f (upd k g l) = upd k (fun x => f (g x)) l.
Proof. induction l; destruct k; cbn; auto. intros. now rewrite IHl. Qed.

Lemma Forall_upd : forall A (P : A -> Prop) (f g : A -> A) l k,
  Forall P (upd k f l) ->
  (forall x, nth_error l k = Some x -> P (g x)) ->
  Forall P (upd k g l).
Proof.
  induction l; destruct k; cbn; intros H Hx; auto.
  - inv H. constructor; auto.
  - inv H. constructor; eauto.
Qed.

Lemma Forall_upd_id : forall A (P : A -> Prop) (f : A -> A) l k,
  Forall P l -> (forall x, P x -> P (f x)) -> Forall P (upd k f l).
Proof.
  induction l; destruct k; cbn; intros H Hx; auto; inv H; constructor; auto.
Qed.

Lemma upd_ext : forall A (f g : A -> A) l k,
  (forall x, nth_error l k = Some x -> f x = g x) -> upd k f l = upd k g l.
Proof.
  induction l; destruct k; cbn; intros; auto; try (rewrite H by reflexivity; reflexivity);
    try (f_equal; auto).
Qed.

Lemma nth_error_upd_same : forall A (f : A -> A) l k x,
  nth_error l k = Some x -> nth_error (upd k f l) k = Some (f x).
Proof. induction l; destruct k; cbn; intros; try discriminate; auto. now inv H. Qed.

Lemma ready_left_upd : forall f l k,
  (forall v, length (s_ready (f v)) = length (s_ready v)) ->
  ready_left (upd k f l) = ready_left l.
Proof.
  induction l; destruct k; cbn; intros; auto; try (now rewrite H); try (now rewrite IHl).
Qed.

(* ======================================================================================== *)
(* check_readiness                                                                           *)
(* ======================================================================================== *)

Definition polledP (v : svc) : Prop := polled (s_status v) = true.

Definition all_ok_round (k m : nat) : list obs := map (fun j => PollReady j ROk) (seq k m).

Definition is_pollready (e : obs) : Prop := match e with PollReady _ _ => True | _ => False end.
Definition not_err (e : obs) : Prop := match e with PollReady _ RErr => False | _ => True end.

Lemma next_ready_status : forall v a v', next_ready v = (a, v') -> s_status v' = s_status v /\ s_create v' = s_create v.
Proof. unfold next_ready. intros. destruct (s_ready v); inv H; auto. Qed.

Lemma next_ready_len : forall v a v', next_ready v = (a, v') ->
  length (s_ready v') <= length (s_ready v) /\ (a <> ROk -> length (s_ready v') < length (s_ready v)).
Proof.
  unfold next_ready. intros v a v' H. destruct (s_ready v) eqn:E; inv H; cbn.
  - rewrite E. cbn. split; auto. intro X. exfalso. now apply X.
  - split; auto.
Qed.

Lemma check_ready_length : forall l k sv r o, check_ready k l = (sv, r, o) -> length sv = length l.
Proof.
  induction l; cbn; intros.
  - now inv H.
  - repeat bm; inv H; cbn; f_equal; eauto.
Qed.

Lemma ready_left_cons : forall v l, ready_left (v :: l) = length (s_ready v) + ready_left l.
Proof. reflexivity. Qed.

Lemma check_ready_left : forall l k sv r o, check_ready k l = (sv, r, o) ->
  ready_left sv <= ready_left l /\ (r <> CROk true -> ready_left sv < ready_left l).
Proof.
  induction l as [|v t IH]; intros k sv r o H.
  - inv H. split; auto. congruence.
  - cbn [check_ready] in H. rewrite ready_left_cons. destruct (polled (s_status v)).
    + destruct (next_ready v) as [a v'] eqn:En. apply next_ready_len in En. destruct En as [L1 L2].
      destruct a.
      * destruct (check_ready (S k) t) as [[t' r'] o'] eqn:Ec. inv H. apply IH in Ec.
        destruct Ec as [M1 M2]. rewrite ready_left_cons. cbn [s_ready with_status].
        assert (Hn : RPend <> ROk) by congruence. specialize (L2 Hn). split; [lia|intros _; lia].
      * destruct (check_ready (S k) t) as [[t' r'] o'] eqn:Ec. inv H. apply IH in Ec.
        destruct Ec as [M1 M2]. rewrite ready_left_cons. cbn [s_ready with_status].
        split; [lia|]. intro Hr. specialize (M2 Hr). lia.
      * inv H. rewrite ready_left_cons. cbn [s_ready with_status].
        assert (Hn : RErr <> ROk) by congruence. specialize (L2 Hn).
        split; [lia|intros _; lia].
    + destruct (check_ready (S k) t) as [[t' r'] o'] eqn:Ec. inv H. apply IH in Ec.
      destruct Ec as [M1 M2]. rewrite ready_left_cons. split; [lia|]. intro Hr. specialize (M2 Hr). lia.
Qed.

Lemma check_ready_status : forall l k sv r o,
  Forall polledP l -> check_ready k l = (sv, r, o) ->
  match r with
  | CROk _ => Forall polledP sv
  | CRErr j => k <= j < k + length l
               /\ Forall polledP (upd (j - k) (fun v => with_status v SUnavailable) sv)
  end.
Proof.
  induction l as [|v t IH]; intros k sv r o HP H.
  - inv H. constructor.
  - inv HP. cbn [check_ready] in H. unfold polledP in H2 at 1. rewrite H2 in H.
    destruct (next_ready v) as [a v'] eqn:En. destruct a.
    + destruct (check_ready (S k) t) as [[t' r'] o'] eqn:Ec. inv H.
      apply IH in Ec; auto. destruct r'; cbn [cr_false].
      * constructor; auto. reflexivity.
      * destruct Ec as [L F]. split; [cbn [length]; lia|].
        replace (k0 - k) with (S (k0 - S k)) by lia. cbn [upd]. constructor; auto. reflexivity.
    + destruct (check_ready (S k) t) as [[t' r'] o'] eqn:Ec. inv H.
      apply IH in Ec; auto. destruct r.
      * constructor; auto. reflexivity.
      * destruct Ec as [L F]. split; [cbn [length]; lia|].
        replace (k0 - k) with (S (k0 - S k)) by lia. cbn [upd]. constructor; auto. reflexivity.
    + inv H. split; [cbn [length]; lia|]. rewrite Nat.sub_diag. cbn [upd].
      constructor; auto. reflexivity.
Qed.

Lemma check_ready_pollready : forall l k sv r o,
  check_ready k l = (sv, r, o) -> Forall is_pollready o.
Proof.
  induction l as [|v t IH]; intros k sv r o H.
  - inv H. constructor.
  - cbn [check_ready] in H. destruct (polled (s_status v)).
    + destruct (next_ready v) as [a v'] eqn:En. destruct a.
      * destruct (check_ready (S k) t) as [[t' r'] o'] eqn:Ec. inv H. constructor; [exact I|eauto].
      * destruct (check_ready (S k) t) as [[t' r'] o'] eqn:Ec. inv H. constructor; [exact I|eauto].
      * inv H. constructor; [exact I|constructor].
    + destruct (check_ready (S k) t) as [[t' r'] o'] eqn:Ec. inv H. eauto.
Qed.

Lemma check_ready_round : forall l k sv o,
  Forall polledP l -> check_ready k l = (sv, CROk true, o) -> o = all_ok_round k (length l).
Proof.
  induction l as [|v t IH]; intros k sv o HP H.
  - inv H. reflexivity.
  - inv HP. cbn [check_ready] in H. unfold polledP in H2 at 1. rewrite H2 in H.
    destruct (next_ready v) as [a v'] eqn:En. destruct a.
    + destruct (check_ready (S k) t) as [[t' r'] o'] eqn:Ec. inv H. destruct r'; discriminate.
    + destruct (check_ready (S k) t) as [[t' r'] o'] eqn:Ec. inv H.
      unfold all_ok_round. cbn [length seq map]. f_equal. eapply IH; eauto.
    + inv H.
Qed.

(* a round that did not fail contains no Err answer; a failed one ends with it *)
Lemma check_ready_noerr : forall l k sv b o,
  check_ready k l = (sv, CROk b, o) -> Forall not_err o.
Proof.
  induction l as [|v t IH]; intros k sv b o H.
  - inv H. constructor.
  - cbn [check_ready] in H. destruct (polled (s_status v)).
    + destruct (next_ready v) as [a v'] eqn:En. destruct a.
      * destruct (check_ready (S k) t) as [[t' r'] o'] eqn:Ec. inv H.
        destruct r'; try discriminate. constructor; [exact I|eauto].
      * destruct (check_ready (S k) t) as [[t' r'] o'] eqn:Ec. inv H. constructor; [exact I|eauto].
      * inv H.
    + destruct (check_ready (S k) t) as [[t' r'] o'] eqn:Ec. inv H. eauto.
Qed.

Lemma check_ready_err : forall l k sv j o,
  check_ready k l = (sv, CRErr j, o) ->
  exists o', o = o' ++ [PollReady j RErr] /\ Forall not_err o' /\ Forall is_pollready o'.
Proof.
  induction l as [|v t IH]; intros k sv j o H.
  - inv H.
  - cbn [check_ready] in H. destruct (polled (s_status v)).
    + destruct (next_ready v) as [a v'] eqn:En. destruct a.
      * destruct (check_ready (S k) t) as [[t' r'] o'] eqn:Ec. inv H.
        destruct r'; try discriminate. cbn in H2. inv H2.
        apply IH in Ec. destruct Ec as (o2 & -> & F1 & F2).
        exists (PollReady k RPend :: o2). repeat split; auto; constructor; auto; exact I.
      * destruct (check_ready (S k) t) as [[t' r'] o'] eqn:Ec. inv H.
        apply IH in Ec. destruct Ec as (o2 & -> & F1 & F2).
        exists (PollReady k ROk :: o2). repeat split; auto; constructor; auto; exact I.
      * inv H. exists []. repeat split; constructor.
    + destruct (check_ready (S k) t) as [[t' r'] o'] eqn:Ec. inv H. eauto.
Qed.

Lemma check_ready_pend : forall l k sv o,
  check_ready k l = (sv, CROk false, o) -> exists j, In (PollReady j RPend) o.
Proof.
  induction l as [|v t IH]; intros k sv o H.
  - inv H.
  - cbn [check_ready] in H. destruct (polled (s_status v)).
    + destruct (next_ready v) as [a v'] eqn:En. destruct a.
      * destruct (check_ready (S k) t) as [[t' r'] o'] eqn:Ec. inv H. exists k. now left.
      * destruct (check_ready (S k) t) as [[t' r'] o'] eqn:Ec. inv H.
        apply IH in Ec. destruct Ec as [j Hj]. exists j. now right.
      * inv H.
    + destruct (check_ready (S k) t) as [[t' r'] o'] eqn:Ec. inv H. eauto.
Qed.

(* ======================================================================================== *)
(* relational reading of one pass through poll                                               *)
(* ======================================================================================== *)

Ltac sel := cbn [ws svcs cq cq_open sq sq_open next_sid counter gap inprog now
                 set_ws set_svcs set_cq set_open set_sq set_sqopen set_nsid set_counter set_gap set_inprog set_now
                 restart finish panicked fst snd] in *.

Inductive StopH (c : cfg) (s : st) : st -> list obs -> bool -> Prop :=
| SH_none : sq s = [] -> StopH c s s [] false
| SH_idle g sid rest :
    sq s = (g, sid) :: rest -> inprog s = [] ->
    StopH c s (set_ws (set_sq s rest) WDone)
          (StopAck sid true :: Done :: drop_obs (set_sq s rest)) true
| SH_graceful sid rest :
    sq s = (true, sid) :: rest -> inprog s <> [] ->
    StopH c s (set_ws (set_svcs (set_sq s rest) (shutdown_svcs false (svcs s)))
                      (WShutdown (now s + 1000) (now s) sid))
          (match ws s with WShutdown _ _ sid0 => [StopLost sid0] | _ => [] end) false
| SH_forced sid rest :
    sq s = (false, sid) :: rest -> inprog s <> [] ->
    StopH c s (set_ws (set_svcs (set_sq s rest) (shutdown_svcs true (svcs s))) WDone)
          (StopAck sid false :: Done
           :: drop_obs (set_svcs (set_sq s rest) (shutdown_svcs true (svcs s)))) true.

Lemma total_zero : forall s, (total s =? 0)%Z = true <-> inprog s = [].
Proof.
  intros s. unfold total. split; intros H.
  - apply Z.eqb_eq in H. destruct (inprog s); auto. cbn [length] in H. lia.
  - rewrite H. reflexivity.
Qed.

Lemma total_nonzero : forall s, (total s =? 0)%Z = false <-> inprog s <> [].
Proof.
  intros s. split; intros H.
  - intros E. apply total_zero in E. congruence.
  - destruct (total s =? 0)%Z eqn:E; auto. apply total_zero in E. contradiction.
Qed.

Lemma stop_handler_spec : forall c s s' o b, stop_handler c s = (s', o, b) -> StopH c s s' o b.
Proof.
  unfold stop_handler. intros c s s' o b H.
  destruct (sq s) as [|[g sid] rest] eqn:Esq.
  - inv H. now constructor.
  - destruct (total (set_sq s rest) =? 0)%Z eqn:En.
    + apply total_zero in En. sel. inv H. eapply SH_idle; eauto.
    + apply total_nonzero in En. sel. destruct g; inv H.
      * eapply SH_graceful; eauto.
      * eapply SH_forced; eauto.
Qed.

Inductive SStep (c : cfg) (s : st) : st -> list obs -> next -> Prop :=
| SS_U_ready sv o :
    ws s = WUnavailable -> check_ready 0 (svcs s) = (sv, CROk true, o) ->
    SStep c s (set_ws (set_svcs s sv) WAvailable) o NTop
| SS_U_pend sv o :
    ws s = WUnavailable -> check_ready 0 (svcs s) = (sv, CROk false, o) ->
    SStep c s (set_svcs s sv) o NRet
| SS_U_err sv o k :
    ws s = WUnavailable -> check_ready 0 (svcs s) = (sv, CRErr k, o) ->
    SStep c s (restart (set_svcs s sv) k) (o ++ [Create k]) NTop
| SS_R_idx k :
    ws s = WRestarting k -> nth_error (svcs s) k = None ->
    SStep c s (set_ws s WPanicked) [Panic PIndex] NRet
| SS_R_pend k v v' :
    ws s = WRestarting k -> nth_error (svcs s) k = Some v -> next_create v = (CPend, v') ->
    SStep c s (set_svcs s (upd k (fun _ => v') (svcs s))) [PollCreate k CPend] NRet
| SS_R_err k v v' :
    ws s = WRestarting k -> nth_error (svcs s) k = Some v -> next_create v = (CErr, v') ->
    SStep c s (set_ws (set_svcs s (upd k (fun _ => v') (svcs s))) WPanicked)
          [PollCreate k CErr; Panic PRestart] NRet
| SS_R_ok k v v' :
    ws s = WRestarting k -> nth_error (svcs s) k = Some v -> next_create v = (COk, v') ->
    SStep c s (set_ws (set_svcs s (upd k (fun _ => with_status v' SUnavailable) (svcs s))) WUnavailable)
          [PollCreate k COk] NTop
| SS_S dl start sid s1 o :
    ws s = WShutdown dl start sid -> shutdown_step c s dl start sid = (s1, o) ->
    SStep c s s1 o NRet
| SS_A_idle sv o :
    ws s = WAvailable -> check_ready 0 (svcs s) = (sv, CROk true, o) -> cq s = [] -> cq_open s = true ->
    SStep c s (set_svcs s sv) o NRet
| SS_A_closed sv o :
    ws s = WAvailable -> check_ready 0 (svcs s) = (sv, CROk true, o) -> cq s = [] -> cq_open s = false ->
    stop_closed s = true ->
    SStep c s (set_ws (set_svcs s sv) WDone) (o ++ Done :: drop_obs (set_svcs s sv)) NRet
| SS_A_orphan sv o :
    ws s = WAvailable -> check_ready 0 (svcs s) = (sv, CROk true, o) -> cq s = [] -> cq_open s = false ->
    stop_closed s = false ->
    SStep c s (set_svcs s sv) o NRet
| SS_A_idx sv o tok cid rest :
    ws s = WAvailable -> check_ready 0 (svcs s) = (sv, CROk true, o) -> cq s = (tok, cid) :: rest ->
    nth_error sv tok = None ->
    SStep c s (set_ws (set_cq (set_svcs s sv) rest) WPanicked) (o ++ [Panic PIndex]) NRet
| SS_A_call sv o tok cid rest v :
    ws s = WAvailable -> check_ready 0 (svcs s) = (sv, CROk true, o) -> cq s = (tok, cid) :: rest ->
    nth_error sv tok = Some v ->
    SStep c s (set_inprog (set_cq (set_svcs s sv) rest) (inprog s ++ [cid])) (o ++ [Call tok cid]) NLoop
| SS_A_pend sv o :
    ws s = WAvailable -> check_ready 0 (svcs s) = (sv, CROk false, o) ->
    SStep c s (set_ws (set_svcs s sv) WUnavailable) o NTop
| SS_A_err sv o k :
    ws s = WAvailable -> check_ready 0 (svcs s) = (sv, CRErr k, o) ->
    SStep c s (restart (set_svcs s sv) k) (o ++ [Create k]) NTop
| SS_fin : finished s = true -> SStep c s s [] NRet.

Lemma state_step_spec : forall c s s' o nx, state_step c s = (s', o, nx) -> SStep c s s' o nx.
Proof.
  unfold state_step. intros c s s' o nx H.
  destruct (ws s) eqn:Ew.
  - (* Available *)
    destruct (check_ready 0 (svcs s)) as [[sv r] o1] eqn:Ec. destruct r as [[|]|k].
    + cbn [cq set_svcs] in H. destruct (cq s) as [|[tok cid] rest] eqn:Eq.
      * cbn [cq_open set_svcs] in H. destruct (cq_open s) eqn:Eo; [inv H; eapply SS_A_idle; eauto|].
        change (stop_closed (set_svcs s sv)) with (stop_closed s) in H.
        destruct (stop_closed s) eqn:Esc; inv H.
        -- eapply SS_A_closed; eauto.
        -- eapply SS_A_orphan; eauto.
      * cbn [svcs set_svcs] in H. destruct (nth_error sv tok) eqn:En; inv H.
        -- eapply SS_A_call; eauto.
        -- eapply SS_A_idx; eauto.
    + inv H. eapply SS_A_pend; eauto.
    + inv H. eapply SS_A_err; eauto.
  - (* Unavailable *)
    destruct (check_ready 0 (svcs s)) as [[sv r] o1] eqn:Ec. destruct r as [[|]|k]; inv H.
    + eapply SS_U_ready; eauto.
    + eapply SS_U_pend; eauto.
    + eapply SS_U_err; eauto.
  - (* Restarting *)
    destruct (nth_error (svcs s) tok) as [v|] eqn:En.
    + destruct (next_create v) as [a v'] eqn:Ea. destruct a; inv H.
      * eapply SS_R_pend; eauto.
      * eapply SS_R_ok; eauto.
      * eapply SS_R_err; eauto.
    + inv H. eapply SS_R_idx; eauto.
  - (* Shutdown *)
    destruct (shutdown_step c s deadline start sid) as [s1 o1] eqn:Es. inv H.
    eapply SS_S; eauto.
  - inv H. apply SS_fin. unfold finished. now rewrite Ew.
  - inv H. apply SS_fin. unfold finished. now rewrite Ew.
Qed.

Lemma pstep_cases : forall c top s s' o nx, pstep c top s = (s', o, nx) ->
  (top = false /\ SStep c s s' o nx) \/
  (top = true /\ exists s0 o0 b, StopH c s s0 o0 b /\
     ((b = true /\ s' = s0 /\ o = o0 /\ nx = NRet) \/
      (b = false /\ exists o1, SStep c s0 s' o1 nx /\ o = o0 ++ o1))).
Proof.
  unfold pstep. intros c top s s' o nx H. destruct top.
  - right. split; auto. destruct (stop_handler c s) as [[s0 o0] b] eqn:Eh.
    apply stop_handler_spec in Eh. exists s0, o0, b. split; auto. destruct b.
    + inv H. left. auto.
    + destruct (state_step c s0) as [[s1 o1] nx1] eqn:Es. inv H.
      apply state_step_spec in Es. right. split; auto. exists o1. auto.
  - left. split; auto. now apply state_step_spec.
Qed.

(* ======================================================================================== *)
(* the state invariant                                                                       *)
(* ======================================================================================== *)

Definition stat_ok (w : wstate) (l : list svc) : Prop :=
  match w with
  | WAvailable | WUnavailable => Forall polledP l
  | WRestarting k => k < length l /\ Forall polledP (upd k (fun v => with_status v SUnavailable) l)
  | _ => True
  end.

Definition conserve (s : st) : Prop :=
  finished s = false ->
  counter s = (1 + Z.of_nat (length (cq s)) + Z.of_nat (length (inprog s)) - (if gap s then 1 else 0))%Z.

Record Inv (c : cfg) (s : st) : Prop := mkInv {
  inv_len : length (svcs s) = length (c_svcs c);
  inv_stat : stat_ok (ws s) (svcs s);
  inv_cons : conserve s }.

Lemma shutdown_svcs_length : forall b l, length (shutdown_svcs b l) = length l.
Proof. intros. unfold shutdown_svcs. now rewrite map_length. Qed.

Lemma drain_counter : forall c q cnt cnt' o, drain c q cnt = (cnt', o) ->
  cnt' = (cnt - Z.of_nat (length q))%Z.
Proof.
  induction q as [|[tok cid] t IH]; intros cnt cnt' o H; cbn [drain] in H.
  - inv H. cbn. lia.
  - destruct (drain c t (cnt - 1)%Z) as [c2 o2] eqn:Ed. inv H. apply IH in Ed. subst.
    cbn [length]. lia.
Qed.

Lemma init_inv : forall c, Inv c (init c).
Proof.
  intros c. constructor.
  - cbn. now rewrite map_length.
  - cbn. apply Forall_forall. intros v Hv. apply in_map_iff in Hv. destruct Hv as (p & <- & _).
    reflexivity.
  - intros _. cbn. reflexivity.
Qed.

Lemma stoph_inv : forall c s s0 o0 b,
  Inv c s -> finished s = false -> StopH c s s0 o0 b -> Inv c s0.
Proof.
  intros c s s0 o0 b [L S C] F H. inv H.
  - constructor; auto.
  - constructor; sel; auto. exact I. intros X; discriminate X.
  - constructor; sel.
    + now rewrite shutdown_svcs_length.
    + exact I.
    + intros _. unfold conserve in C. sel. apply C. exact F.
  - constructor; sel; auto.
    + now rewrite shutdown_svcs_length.
    + exact I.
    + intros X; discriminate X.
Qed.

Lemma shutdown_step_inv : forall c s dl start sid s1 o,
  Inv c s -> ws s = WShutdown dl start sid -> shutdown_step c s dl start sid = (s1, o) -> Inv c s1.
Proof.
  intros c s dl start sid s1 o [L S C] Ew H. unfold shutdown_step in H.
  destruct (drain c (cq s) (counter s)) as [cnt o1] eqn:Ed. apply drain_counter in Ed.
  assert (F : finished s = false) by (unfold finished; now rewrite Ew).
  specialize (C F).
  assert (K : forall w, (match w with WShutdown _ _ _ | WDone | WPanicked => True | _ => False end) ->
              Inv c (set_ws (set_counter (set_cq s []) cnt) w)).
  { intros w Hw. constructor; sel; auto.
    - destruct w; try contradiction; exact I.
    - intros _. sel. cbn [length]. lia. }
  sel. destruct (now s <? dl)%Z.
  - inv H. constructor; sel; auto. intros _. sel. cbn [length]. lia.
  - destruct (total (set_counter (set_cq s []) cnt) =? 0)%Z.
    + inv H. apply (K WDone). exact I.
    + destruct (c_timeout c <=? now s - start)%Z; inv H.
      * apply (K WDone). exact I.
      * apply K. exact I.
Qed.

Lemma sstep_inv : forall c s s1 o nx,
  Inv c s -> finished s = false -> SStep c s s1 o nx -> Inv c s1.
Proof.
  intros c s s1 o nx I0 F H. pose proof I0 as [L S C]. specialize (C F).
  assert (CR : forall sv r o1, check_ready 0 (svcs s) = (sv, r, o1) -> length sv = length (c_svcs c)).
  { intros sv r o1 Hc. apply check_ready_length in Hc. congruence. }
  assert (RS : forall sv k o1, Forall polledP (svcs s) -> check_ready 0 (svcs s) = (sv, CRErr k, o1) ->
            Inv c (restart (set_svcs s sv) k)).
  { intros sv k o1 HP Hc. pose proof (check_ready_length _ _ _ _ _ Hc) as Hl.
    apply check_ready_status in Hc; auto. destruct Hc as [Hk HF]. rewrite Nat.sub_0_r in HF.
    constructor; sel.
    - rewrite upd_length. congruence.
    - split. { rewrite upd_length. lia. }
      rewrite upd_upd. eapply Forall_upd; [exact HF|]. intros; reflexivity.
    - intros _. sel. exact C. }
  inv H; try rewrite H0 in S; cbn [stat_ok] in S.
  - (* U ready *) constructor; sel; eauto.
    + eapply check_ready_status in H1; eauto.
    + intros _; exact C.
  - (* U pend *) constructor; sel; eauto.
    + rewrite H0. eapply check_ready_status in H1; eauto.
    + intros _; exact C.
  - (* U err *) eauto.
  - (* R idx *) constructor; sel; auto. exact I. intros X; discriminate X.
  - (* R pend *) destruct S as [Sk SF]. constructor; sel.
    + now rewrite upd_length.
    + rewrite H0. split. { now rewrite upd_length. }
      rewrite upd_upd. eapply Forall_upd; [exact SF|]. intros x Hx. rewrite H1 in Hx. inv Hx.
      unfold polledP. reflexivity.
    + intros _; exact C.
  - (* R err *) constructor; sel.
    + now rewrite upd_length.
    + exact I.
    + intros X; discriminate X.
  - (* R ok *) destruct S as [Sk SF]. constructor; sel.
    + now rewrite upd_length.
    + eapply Forall_upd; [exact SF|]. intros; reflexivity.
    + intros _; exact C.
  - (* Shutdown *) eapply shutdown_step_inv; eauto.
  - (* A idle *) constructor; sel; eauto.
    + rewrite H0. eapply check_ready_status in H1; eauto.
    + intros _; exact C.
  - (* A closed *) constructor; sel; eauto. exact I. intros X; discriminate X.
  - (* A orphan *) constructor; sel; eauto.
    + rewrite H0. eapply check_ready_status in H1; eauto.
    + intros _; exact C.
  - (* A idx *) constructor; sel; eauto. exact I. intros X; discriminate X.
  - (* A call *) constructor; sel; eauto.
    + rewrite H0. eapply check_ready_status in H1; eauto.
    + intros _. sel. rewrite H2 in C. rewrite app_length. cbn [length] in *. lia.
  - (* A pend *) constructor; sel; eauto.
    + eapply check_ready_status in H1; eauto.
    + intros _; exact C.
  - (* A err *) eauto.
  - (* finished *) congruence.
Qed.

(* ======================================================================================== *)
(* a continuing pass: no stop was handled, the measure decreases                             *)
(* ======================================================================================== *)

Lemma shutdown_step_sq : forall c s dl start sid s1 o,
  shutdown_step c s dl start sid = (s1, o) -> sq s1 = sq s /\ finished s1 = true \/ sq s1 = sq s.
Proof.
  intros c s dl start sid s1 o H. right. unfold shutdown_step in H.
  destruct (drain c (cq s) (counter s)) as [cnt o1]. sel.
  destruct (now s <? dl)%Z; [inv H; reflexivity|].
  destruct (total _ =? 0)%Z; [inv H; reflexivity|].
  destruct (c_timeout c <=? now s - start)%Z; inv H; reflexivity.
Qed.

Lemma sstep_sq : forall c s s1 o nx, SStep c s s1 o nx -> sq s1 = sq s.
Proof.
  intros c s s1 o nx H. inv H; sel; auto.
  apply shutdown_step_sq in H1. destruct H1 as [[? _]|?]; auto.
Qed.

Definition live (s : st) : Prop :=
  match ws s with WAvailable | WUnavailable | WRestarting _ => True | _ => False end.

Lemma live_unfinished : forall s, live s -> finished s = false.
Proof. unfold live, finished. intros s. destruct (ws s); tauto. Qed.

Lemma next_create_ready : forall v a v', next_create v = (a, v') ->
  s_ready v' = s_ready v /\ s_status v' = s_status v.
Proof. unfold next_create. intros v a v' H. destruct (s_create v); inv H; auto. Qed.

Lemma ready_left_upd_nth : forall f l k v,
  nth_error l k = Some v -> length (s_ready (f v)) = length (s_ready v) ->
  ready_left (upd k f l) = ready_left l.
Proof.
  induction l as [|x t IH]; destruct k; cbn [nth_error upd]; intros v Hn Hl; try discriminate.
  - inv Hn. rewrite !ready_left_cons. now rewrite Hl.
  - rewrite !ready_left_cons. erewrite IH; eauto.
Qed.

Lemma sstep_cont : forall c s s1 o nx,
  SStep c s s1 o nx -> nx <> NRet -> mu s1 < mu s /\ live s /\ live s1.
Proof.
  intros c s s1 o nx H Hn. unfold mu, live.
  inv H; try congruence; sel;
    try (match goal with H : check_ready _ _ = _ |- _ =>
           pose proof (check_ready_left _ _ _ _ _ H) as [M1 M2] end).
  - rewrite H0. cbn [ws_off]. repeat split; auto. lia.
  - rewrite H0. cbn [ws_off]. repeat split; auto.
    rewrite ready_left_upd by reflexivity. specialize (M2 ltac:(congruence)). lia.
  - rewrite H0. cbn [ws_off]. repeat split; auto.
    apply next_create_ready in H2. destruct H2 as [R1 R2].
    rewrite (ready_left_upd_nth _ _ _ v H1) by (cbn [s_ready with_status]; now rewrite R1). lia.
  - rewrite H0, H2. cbn [ws_off length]. repeat split; auto. lia.
  - rewrite H0. cbn [ws_off]. repeat split; auto. specialize (M2 ltac:(congruence)). lia.
  - rewrite H0. cbn [ws_off]. repeat split; auto.
    rewrite ready_left_upd by reflexivity. specialize (M2 ltac:(congruence)). lia.
Qed.

(* a pass that continues did not handle a stop: it is exactly a state step *)
Lemma pstep_cont : forall c top s s1 o nx,
  pstep c top s = (s1, o, nx) -> nx <> NRet ->
  (top = true -> sq s = []) /\ SStep c s s1 o nx.
Proof.
  intros c top s s1 o nx H Hn. apply pstep_cases in H.
  destruct H as [[-> H]|[-> (s0 & o0 & b & HS & H)]].
  - split; auto. discriminate.
  - destruct H as [(_ & _ & _ & ->)|(-> & o1 & H1 & ->)]; [congruence|].
    inv HS.
    + split; auto.
    + (* graceful: the Shutdown state returns *)
      inv H1; sel; try discriminate; try congruence.
Qed.

Lemma pstep_inv : forall c top s s1 o nx,
  Inv c s -> finished s = false -> pstep c top s = (s1, o, nx) -> Inv c s1.
Proof.
  intros c top s s1 o nx I0 F H. apply pstep_cases in H.
  destruct H as [[-> H]|[-> (s0 & o0 & b & HS & H)]].
  - eapply sstep_inv; eauto.
  - pose proof (stoph_inv _ _ _ _ _ I0 F HS) as I1.
    destruct H as [(_ & -> & _ & _)|(-> & o1 & H1 & ->)]; auto.
    eapply sstep_inv; eauto. inv HS; auto.
Qed.

(* ======================================================================================== *)
(* induction principle for one whole poll                                                    *)
(* ======================================================================================== *)

Definition top_of (nx : next) : bool := match nx with NLoop => false | _ => true end.

Section PiterInd.
  Variable c : cfg.
  Variable P : bool -> st -> st -> list obs -> Prop.
  Hypothesis Hbase : forall top s s1 o,
    Inv c s -> finished s = false -> pstep c top s = (s1, o, NRet) -> P top s s1 o.
  Hypothesis Hstep : forall top s s1 o1 nx s2 o2,
    Inv c s -> live s -> (top = true -> sq s = []) -> SStep c s s1 o1 nx -> nx <> NRet ->
    Inv c s1 -> live s1 -> sq s1 = sq s ->
    P (top_of nx) s1 s2 o2 -> P top s s2 (o1 ++ o2).

  Lemma piter_ind_gen : forall fuel top s,
    Inv c s -> finished s = false -> mu s < fuel ->
    P top s (fst (piter fuel c top s)) (snd (piter fuel c top s)).
  Proof.
    induction fuel as [|f IH]; intros top s I0 F Hm; [lia|].
    cbn [piter]. destruct (pstep c top s) as [[s1 o1] nx] eqn:Ep.
    assert (K : nx <> NRet ->
                P top s (fst (piter f c (top_of nx) s1)) (o1 ++ snd (piter f c (top_of nx) s1))).
    { intros Hn. pose proof (pstep_cont _ _ _ _ _ _ Ep Hn) as [Hsq HS].
      pose proof (sstep_cont _ _ _ _ _ HS Hn) as (Hmu & L0 & L1).
      pose proof (sstep_inv _ _ _ _ _ I0 F HS) as I1.
      eapply Hstep; eauto.
      - eapply sstep_sq; eauto.
      - apply IH; [assumption | now apply live_unfinished | lia]. }
    destruct nx.
    - cbn [fst snd]. eapply Hbase; eauto.
    - specialize (K ltac:(discriminate)). cbn [top_of] in K.
      destruct (piter f c true s1) as [s2 o2]. exact K.
    - specialize (K ltac:(discriminate)). cbn [top_of] in K.
      destruct (piter f c false s1) as [s2 o2]. exact K.
  Qed.
End PiterInd.

Lemma poll_ind : forall c (P : bool -> st -> st -> list obs -> Prop),
  (forall top s s1 o, Inv c s -> finished s = false -> pstep c top s = (s1, o, NRet) -> P top s s1 o) ->
  (forall top s s1 o1 nx s2 o2,
     Inv c s -> live s -> (top = true -> sq s = []) -> SStep c s s1 o1 nx -> nx <> NRet ->
     Inv c s1 -> live s1 -> sq s1 = sq s ->
     P (top_of nx) s1 s2 o2 -> P top s s2 (o1 ++ o2)) ->
  forall s, Inv c s -> finished s = false -> P true s (fst (poll c s)) (snd (poll c s)).
Proof.
  intros c P Hb Hs s I0 F. unfold poll. apply piter_ind_gen; auto; unfold fuel_of; lia.
Qed.

Lemma poll_inv : forall c s, Inv c s -> finished s = false -> Inv c (fst (poll c s)).
Proof.
  intros c s I0 F.
  apply (poll_ind c (fun _ _ s2 _ => Inv c s2)); auto.
  intros. eapply pstep_inv; eauto.
Qed.

(* ======================================================================================== *)
(* shapes of the observation lists                                                           *)
(* ======================================================================================== *)

Definition basic (e : obs) : Prop :=
  match e with Call _ _ => False | Panic PFuel => False | _ => True end.

Lemma Forall_app2 : forall A (P : A -> Prop) l1 l2, Forall P l1 -> Forall P l2 -> Forall P (l1 ++ l2).
Proof. intros. apply Forall_app. auto. Qed.

Lemma pollready_basic : forall o, Forall is_pollready o -> Forall basic o.
Proof. intros o H. eapply Forall_impl; [|exact H]. intros [] X; try contradiction; exact I. Qed.

Lemma drop_obs_basic : forall s, Forall basic (drop_obs s).
Proof.
  intros s. unfold drop_obs. repeat apply Forall_app2.
  - apply Forall_forall. intros e He. apply in_map_iff in He. destruct He as (x & <- & _). exact I.
  - apply Forall_forall. intros e He. apply in_map_iff in He. destruct He as (x & <- & _). exact I.
  - destruct (ws s); repeat constructor.
Qed.

Lemma wake_obs_basic : forall c n, Forall basic (wake_obs c n).
Proof. intros. unfold wake_obs. destruct (dec_wakes c n); repeat constructor. Qed.

Lemma drain_basic : forall c q cnt cnt' o, drain c q cnt = (cnt', o) -> Forall basic o.
Proof.
  induction q as [|[tok cid] t IH]; intros cnt cnt' o H; cbn [drain] in H.
  - inv H. constructor.
  - destruct (drain c t (cnt - 1)%Z) as [c2 o2] eqn:Ed. inv H. constructor; [exact I|].
    apply Forall_app2; [apply wake_obs_basic|eauto].
Qed.

Lemma shutdown_step_basic : forall c s dl start sid s1 o,
  shutdown_step c s dl start sid = (s1, o) -> Forall basic o.
Proof.
  intros c s dl start sid s1 o H. unfold shutdown_step in H.
  destruct (drain c (cq s) (counter s)) as [cnt o1] eqn:Ed. apply drain_basic in Ed. sel.
  destruct (now s <? dl)%Z; [inv H; auto|].
  destruct (total _ =? 0)%Z.
  { inv H. rewrite <- app_assoc. apply Forall_app2; auto. cbn [app].
    constructor; [exact I|]. constructor; [exact I|]. apply drop_obs_basic. }
  destruct (c_timeout c <=? now s - start)%Z; inv H; auto.
  rewrite <- app_assoc. apply Forall_app2; auto. cbn [app].
  constructor; [exact I|]. constructor; [exact I|]. apply drop_obs_basic.
Qed.

Lemma stoph_basic : forall c s s0 o0 b, StopH c s s0 o0 b -> Forall basic o0.
Proof.
  intros c s s0 o0 b H. inv H.
  - constructor.
  - constructor; [exact I|]. constructor; [exact I|]. apply drop_obs_basic.
  - destruct (ws s); repeat constructor.
  - constructor; [exact I|]. constructor; [exact I|]. apply drop_obs_basic.
Qed.

Lemma sstep_basic : forall c s s1 o nx, SStep c s s1 o nx -> nx <> NLoop -> Forall basic o.
Proof.
  intros c s s1 o nx H Hn.
  inv H; try congruence;
    try (match goal with H : check_ready _ _ = _ |- _ =>
           pose proof (pollready_basic _ (check_ready_pollready _ _ _ _ _ H)) as B end);
    auto; try (apply Forall_app2; auto); repeat constructor.
  - eapply shutdown_step_basic; eauto.
  - apply drop_obs_basic.
Qed.

Lemma pstep_ret_basic : forall c top s s1 o, pstep c top s = (s1, o, NRet) -> Forall basic o.
Proof.
  intros c top s s1 o H. apply pstep_cases in H.
  destruct H as [[-> H]|[-> (s0 & o0 & b & HS & H)]].
  - eapply sstep_basic; eauto. discriminate.
  - pose proof (stoph_basic _ _ _ _ _ HS) as B.
    destruct H as [(_ & _ & -> & _)|(-> & o1 & H1 & ->)]; auto.
    apply Forall_app2; auto. eapply sstep_basic; eauto. discriminate.
Qed.

(* ======================================================================================== *)
(* the fuel of `poll` is sufficient                                                          *)
(* ======================================================================================== *)

Definition nofuel (e : obs) : Prop := e <> Panic PFuel.

Lemma basic_nofuel : forall o, Forall basic o -> Forall nofuel o.
Proof.
  intros o H. eapply Forall_impl; [|exact H]. intros e B E. subst e. exact B.
Qed.

Lemma sstep_nofuel : forall c s s1 o nx, SStep c s s1 o nx -> Forall nofuel o.
Proof.
  intros c s s1 o nx H. destruct nx; try (apply basic_nofuel; eapply sstep_basic; eauto; discriminate).
  inv H. apply Forall_app2.
  - apply basic_nofuel, pollready_basic. eapply check_ready_pollready; eauto.
  - constructor; [discriminate|constructor].
Qed.

Lemma poll_nofuel : forall c s, Inv c s -> finished s = false -> Forall nofuel (snd (poll c s)).
Proof.
  intros c s I0 F.
  apply (poll_ind c (fun _ _ _ o => Forall nofuel o)); auto.
  - intros. apply basic_nofuel. eapply pstep_ret_basic; eauto.
  - intros. apply Forall_app2; auto. eapply sstep_nofuel; eauto.
Qed.

Theorem poll_fuel_sufficient : forall c s,
  Inv c s -> finished s = false -> ~ In (Panic PFuel) (snd (poll c s)).
Proof.
  intros c s I0 F Hin. pose proof (poll_nofuel c s I0 F) as H.
  rewrite Forall_forall in H. apply (H _ Hin). reflexivity.
Qed.

(* ======================================================================================== *)
(* C07_call_after_ready                                                                      *)
(* ======================================================================================== *)

Definition nocall (e : obs) : Prop := match e with Call _ _ => False | _ => True end.

Lemma basic_nocall : forall o, Forall basic o -> Forall nocall o.
Proof. intros o H. eapply Forall_impl; [|exact H]. intros []; cbn; auto. Qed.

Lemma filter_nocall : forall f o, Forall nocall o -> Forall nocall (filter f o).
Proof.
  intros f o H. apply Forall_forall. intros e He. apply filter_In in He.
  rewrite Forall_forall in H. apply H. tauto.
Qed.

(* a list without Call never fails the scan, and whatever follows is scanned from some state *)
Lemma car_nocall_app : forall n l1 l2,
  Forall nocall l1 -> (forall r, car n r l2 = true) -> forall r, car n r (l1 ++ l2) = true.
Proof.
  induction l1 as [|e t IH]; intros l2 H1 H2 r; cbn [app]; auto.
  inv H1. destruct e; try contradiction; cbn [car]; auto.
  destruct r0; auto.
Qed.

Lemma car_nocall : forall n l r, Forall nocall l -> car n r l = true.
Proof.
  intros n l r H. rewrite <- (app_nil_r l). apply car_nocall_app; auto.
Qed.

Lemma car_round_gen : forall n l2 m i,
  1 <= i -> car n (Some (i + m)) l2 = true ->
  car n (Some i) (all_ok_round i m ++ l2) = true.
Proof.
  induction m as [|m IH]; intros i Hi H.
  - cbn. now rewrite Nat.add_0_r in H.
  - unfold all_ok_round. cbn [seq map app car].
    destruct (Nat.eqb i 0) eqn:E0. { apply Nat.eqb_eq in E0. lia. }
    rewrite Nat.eqb_refl. apply IH; [lia|]. replace (S i + m) with (i + S m) by lia. exact H.
Qed.

Lemma car_round : forall n l2 r,
  1 <= n -> car n (Some n) l2 = true -> car n r (all_ok_round 0 n ++ l2) = true.
Proof.
  intros n l2 r Hn H. destruct n as [|m]; [lia|].
  unfold all_ok_round. cbn [seq map app car Nat.eqb].
  apply (car_round_gen (S m) l2 m 1); auto.
Qed.

Lemma main_pollready : forall o, Forall is_pollready o -> filter is_main o = o.
Proof.
  induction o as [|e t IH]; intros H; auto. inv H. destruct e; try contradiction.
  cbn. f_equal. auto.
Qed.

Lemma all_ok_round_pollready : forall k m, Forall is_pollready (all_ok_round k m).
Proof.
  intros. unfold all_ok_round. apply Forall_forall. intros e He. apply in_map_iff in He.
  destruct He as (j & <- & _). exact I.
Qed.

Lemma sstep_loop_inv : forall c s s1 o, SStep c s s1 o NLoop ->
  exists sv o0 tok cid rest v,
    ws s = WAvailable /\ check_ready 0 (svcs s) = (sv, CROk true, o0) /\
    cq s = (tok, cid) :: rest /\ nth_error sv tok = Some v /\
    s1 = set_inprog (set_cq (set_svcs s sv) rest) (inprog s ++ [cid]) /\
    o = o0 ++ [Call tok cid].
Proof. intros c s s1 o H. inv H. eauto 15. Qed.

Lemma poll_car : forall c s, Inv c s -> finished s = false ->
  forall r, car (length (c_svcs c)) r (filter is_main (snd (poll c s))) = true.
Proof.
  intros c s I0 F.
  apply (poll_ind c (fun _ _ _ o => forall r, car (length (c_svcs c)) r (filter is_main o) = true)); auto.
  - intros top s0 s1 o I1 F1 Hp r. apply car_nocall. apply filter_nocall.
    apply basic_nocall. eapply pstep_ret_basic; eauto.
  - intros top s0 s1 o1 nx s2 o2 I1 L1 Hsq HS Hn I2 L2 Hsq2 IH r.
    rewrite filter_app. destruct nx; [congruence| |].
    + apply car_nocall_app; auto. apply filter_nocall, basic_nocall.
      eapply sstep_basic; eauto. discriminate.
    + (* the Available loop took a connection: a full all-Ok round, then the call *)
      apply sstep_loop_inv in HS.
      destruct HS as (sv & o0 & tok & cid & rest & v & Ew & Ec & Eq & En & -> & ->).
      destruct I1 as [Len St _]. rewrite Ew in St. cbn [stat_ok] in St.
      pose proof (check_ready_round _ _ _ _ St Ec) as Hr. subst o0.
      rewrite filter_app. rewrite main_pollready by apply all_ok_round_pollready.
      cbn [filter is_main]. rewrite <- app_assoc. cbn [app].
      rewrite Len. apply car_round.
      * apply check_ready_length in Ec. destruct sv; [destruct tok; discriminate|].
        cbn [length] in Ec. lia.
      * cbn [car]. rewrite Nat.eqb_refl. cbn [andb]. apply IH.
Qed.

(* ======================================================================================== *)
(* runs                                                                                      *)
(* ======================================================================================== *)

Lemma remove_nat_length : forall x l, mem_nat x l = true -> S (length (remove_nat x l)) = length l.
Proof.
  induction l as [|y t IH]; cbn [mem_nat remove_nat]; intros H; [discriminate|].
  destruct (Nat.eqb x y); cbn [length orb] in *; auto.
Qed.

Lemma step_nonpoll_ws : forall c s o, o <> PollW -> ws (fst (step c s o)) = ws s.
Proof.
  intros c s o Hn. destruct o; try congruence; cbn [step].
  - destruct (cq_open s); [destruct (gap s)|]; reflexivity.
  - destruct (gap s); reflexivity.
  - destruct (sq_open s); reflexivity.
  - destruct (mem_nat cid (inprog s)); reflexivity.
  - reflexivity.
  - destruct (gap s); reflexivity.
  - reflexivity.
Qed.

Lemma step_inv : forall c s o, Inv c s -> finished s = false -> Inv c (fst (step c s o)).
Proof.
  intros c s o I0 F. destruct o; try (cbn [step]; now apply poll_inv).
  all: pose proof I0 as [L S C]; specialize (C F); cbn [step].
  - destruct (cq_open s); [|exact I0].
    destruct (gap s) eqn:G; constructor; sel; auto; intros _; sel;
      rewrite app_length; cbn [length]; lia.
  - destruct (gap s) eqn:G; [|exact I0]. constructor; sel; auto. intros _; sel. lia.
  - destruct (sq_open s); [|exact I0]. constructor; sel; auto. intros _; sel. exact C.
  - destruct (mem_nat cid (inprog s)) eqn:M; [|exact I0]. constructor; sel; auto.
    intros _; sel. apply remove_nat_length in M. lia.
  - constructor; sel; auto. intros _; sel. exact C.
  - destruct (gap s) eqn:G; constructor; sel; auto; intros _; sel; try rewrite G; lia.
  - constructor; sel; auto. intros _; sel. exact C.
Qed.

Lemma run_Forall : forall c (Q : list obs -> Prop),
  (forall s o, Inv c s -> finished s = false -> Q (snd (step c s o))) ->
  forall ops s, Inv c s -> Forall Q (run c s ops).
Proof.
  intros c Q HQ. induction ops as [|o t IH]; intros s I0; cbn [run]; [constructor|].
  destruct (finished s) eqn:F; [constructor|].
  destruct (step c s o) as [s' l] eqn:Es. constructor.
  - specialize (HQ s o I0 F). now rewrite Es in HQ.
  - apply IH. pose proof (step_inv c s o I0 F) as I1. now rewrite Es in I1.
Qed.

Lemma step_nonpoll_basic : forall c s o, o <> PollW -> Forall basic (snd (step c s o)).
Proof.
  intros c s o Hn. destruct o; try congruence; cbn [step].
  - destruct (cq_open s); [destruct (gap s)|]; constructor.
  - destruct (gap s); constructor.
  - destruct (sq_open s); constructor.
  - destruct (mem_nat cid (inprog s)); cbn [snd]; [|constructor].
    constructor; [exact I|apply wake_obs_basic].
  - constructor.
  - destruct (gap s); constructor.
  - constructor.
Qed.

Lemma op_eq_poll_dec : forall o, {o = PollW} + {o <> PollW}.
Proof. destruct o; (left; reflexivity) || (right; discriminate). Qed.

Theorem car_holds : forall c ops, C07_car_ok (length (c_svcs c)) (trace c ops) = true.
Proof.
  intros c ops. unfold C07_car_ok, trace. apply forallb_forall.
  apply Forall_forall. apply run_Forall; [|apply init_inv].
  intros s o I0 F. destruct (op_eq_poll_dec o) as [->|Hn].
  - cbn [step]. now apply poll_car.
  - apply car_nocall, filter_nocall, basic_nocall. now apply step_nonpoll_basic.
Qed.

(* what the scan means: every Call is directly preceded by PollReady 0 Ok ... PollReady (n-1) Ok *)
Definition rinv (r : option nat) (done : list obs) : Prop :=
  match r with Some i => exists d, done = d ++ all_ok_round 0 i | None => True end.

Lemma all_ok_round_S : forall i, all_ok_round 0 (S i) = all_ok_round 0 i ++ [PollReady i ROk].
Proof. intros. unfold all_ok_round. rewrite seq_S, map_app. reflexivity. Qed.

Lemma car_sound_gen : forall n l r done,
  rinv r done -> car n r l = true ->
  forall pre k cid post, l = pre ++ Call k cid :: post ->
  exists pre', done ++ pre = pre' ++ all_ok_round 0 n.
Proof.
  induction l as [|e t IH]; intros r done Hr Hc pre k cid post El.
  - destruct pre; discriminate.
  - destruct pre as [|e' pre].
    + (* this event is the call *)
      cbn [app] in El. inv El. cbn [car] in Hc. destruct r as [i|]; [|discriminate].
      apply andb_prop in Hc. destruct Hc as [Hi _]. apply Nat.eqb_eq in Hi. subst i.
      rewrite app_nil_r. exact Hr.
    + cbn [app] in El. inv El.
      assert (K : forall r', rinv r' (done ++ [e']) -> car n r' (pre ++ Call k cid :: post) = true ->
                  exists pre', done ++ e' :: pre = pre' ++ all_ok_round 0 n).
      { intros r' Hr' Hc'. destruct (IH r' (done ++ [e']) Hr' Hc' pre k cid post eq_refl) as [p Hp].
        exists p. rewrite <- Hp. rewrite <- app_assoc. reflexivity. }
      destruct e'; cbn [car] in Hc; try (apply (K None); [exact I|exact Hc]).
      * destruct r0; try (apply (K None); [exact I|exact Hc]).
        eapply K; [|exact Hc].
        destruct (Nat.eqb k0 0) eqn:E0.
        -- apply Nat.eqb_eq in E0. subst k0. exists done. reflexivity.
        -- destruct r as [i|]; [|exact I]. destruct (Nat.eqb i k0) eqn:Ei; [|exact I].
           apply Nat.eqb_eq in Ei. subst k0. destruct Hr as [d Hd]. subst done.
           exists d. rewrite all_ok_round_S. now rewrite app_assoc.
      * destruct r as [i|]; [|discriminate]. apply andb_prop in Hc. destruct Hc as [_ Hc].
        eapply K; [|exact Hc]. exists (done ++ [Call k0 cid0]). cbn. now rewrite app_nil_r.
Qed.

Theorem car_sound : forall n l, car n None l = true ->
  forall pre k cid post, l = pre ++ Call k cid :: post ->
  exists pre', pre = pre' ++ all_ok_round 0 n.
Proof.
  intros n l H pre k cid post El.
  destruct (car_sound_gen n l None [] I H pre k cid post El) as [p Hp]. exists p. exact Hp.
Qed.

(* ======================================================================================== *)
(* C07_fifo: conservation of the connection queue                                            *)
(* ======================================================================================== *)

Lemma calls_of_app : forall a b, calls_of (a ++ b) = calls_of a ++ calls_of b.
Proof. intros. unfold calls_of. apply flat_map_app. Qed.

Lemma calls_of_nocall : forall o, Forall nocall o -> calls_of o = [].
Proof.
  induction o as [|e t IH]; intros H; auto. inv H. destruct e; try contradiction; cbn; auto.
Qed.

Lemma shutdown_step_notlive : forall c s dl start sid s1 o,
  shutdown_step c s dl start sid = (s1, o) -> ws s = WShutdown dl start sid -> ~ live s1.
Proof.
  intros c s dl start sid s1 o H Ew. unfold shutdown_step in H. unfold live.
  destruct (drain c (cq s) (counter s)) as [cnt o1]. sel.
  destruct (now s <? dl)%Z. { inv H. sel. rewrite Ew. tauto. }
  destruct (total _ =? 0)%Z. { inv H. sel. tauto. }
  destruct (c_timeout c <=? now s - start)%Z; inv H; sel; tauto.
Qed.

Lemma sstep_ret_cq : forall c s s1 o, SStep c s s1 o NRet -> live s1 -> cq s1 = cq s.
Proof.
  intros c s s1 o H L. inv H; sel; auto; unfold live in L; sel; try contradiction.
  exfalso. eapply shutdown_step_notlive; eauto.
Qed.

Lemma pstep_ret_cq : forall c top s s1 o, pstep c top s = (s1, o, NRet) -> live s1 -> cq s1 = cq s.
Proof.
  intros c top s s1 o H L. apply pstep_cases in H.
  destruct H as [[-> H]|[-> (s0 & o0 & b & HS & H)]].
  - eapply sstep_ret_cq; eauto.
  - destruct H as [(-> & -> & _ & _)|(-> & o1 & H1 & ->)].
    + inv HS; unfold live in L; sel; contradiction.
    + inv HS.
      * eapply sstep_ret_cq; eauto.
      * apply sstep_ret_cq in H1; auto.
Qed.

Lemma sstep_top_cq : forall c s s1 o, SStep c s s1 o NTop -> cq s1 = cq s /\ cq_open s1 = cq_open s.
Proof. intros c s s1 o H. inv H; sel; auto. Qed.

Lemma poll_cq : forall c s, Inv c s -> finished s = false ->
  exists rest, cq s = calls_of (snd (poll c s)) ++ rest /\ (live (fst (poll c s)) -> cq (fst (poll c s)) = rest).
Proof.
  intros c s I0 F.
  apply (poll_ind c (fun _ s s2 o => exists rest, cq s = calls_of o ++ rest /\ (live s2 -> cq s2 = rest))); auto.
  - intros top s0 s1 o I1 F1 Hp. exists (cq s0).
    rewrite calls_of_nocall by (apply basic_nocall; eapply pstep_ret_basic; eauto).
    split; auto. intros L. eapply pstep_ret_cq; eauto.
  - intros top s0 s1 o1 nx s2 o2 I1 L1 Hsq HS Hn I2 L2 Hsq2 (rest & E & HL).
    exists rest. split; auto. rewrite calls_of_app. destruct nx; [congruence| |].
    + rewrite calls_of_nocall by (apply basic_nocall; eapply sstep_basic; eauto; discriminate).
      apply sstep_top_cq in HS. destruct HS as [<- _]. exact E.
    + apply sstep_loop_inv in HS.
      destruct HS as (sv & o0 & tok & cid & rest0 & v & Ew & Ec & Eq & En & -> & ->).
      sel. rewrite calls_of_app.
      rewrite calls_of_nocall by (apply basic_nocall, pollready_basic; eapply check_ready_pollready; eauto).
      cbn. rewrite Eq, E. reflexivity.
Qed.

Lemma live_dec : forall s, {live s} + {~ live s}.
Proof. intros s. unfold live. destruct (ws s); auto. Qed.

Lemma sstep_notlive : forall c s s1 o nx, SStep c s s1 o nx -> ~ live s -> ~ live s1 /\ nx = NRet.
Proof.
  intros c s s1 o nx H NL. unfold live in NL.
  inv H; try (rewrite H0 in NL; exfalso; apply NL; exact I).
  - split; auto. eapply shutdown_step_notlive; eauto.
  - split; auto.
Qed.

Lemma poll_notlive : forall c s, Inv c s -> finished s = false -> ~ live s ->
  ~ live (fst (poll c s)) /\ Forall nocall (snd (poll c s)).
Proof.
  intros c s I0 F NL.
  apply (poll_ind c (fun _ s s2 o => ~ live s -> ~ live s2 /\ Forall nocall o)); auto.
  - intros top s0 s1 o I1 F1 Hp NL0. split.
    + apply pstep_cases in Hp. destruct Hp as [[-> H]|[-> (sa & oa & b & HS & H)]].
      * eapply sstep_notlive; eauto.
      * destruct H as [(-> & -> & _ & _)|(-> & o1 & H1 & ->)].
        -- inv HS; unfold live; sel; tauto.
        -- inv HS; eapply sstep_notlive; eauto.
    + apply basic_nocall. eapply pstep_ret_basic; eauto.
  - intros top s0 s1 o1 nx s2 o2 I1 L1 _ _ _ _ _ _ _ NL0. contradiction.
Qed.

Lemma shutdown_step_open : forall c s dl start sid s1 o,
  shutdown_step c s dl start sid = (s1, o) -> cq_open s1 = cq_open s.
Proof.
  intros c s dl start sid s1 o H. unfold shutdown_step in H.
  destruct (drain c (cq s) (counter s)) as [cnt o1]. sel.
  destruct (now s <? dl)%Z; [inv H; reflexivity|].
  destruct (total _ =? 0)%Z; [inv H; reflexivity|].
  destruct (c_timeout c <=? now s - start)%Z; inv H; reflexivity.
Qed.

Lemma sstep_open : forall c s s1 o nx, SStep c s s1 o nx -> cq_open s1 = cq_open s.
Proof.
  intros c s s1 o nx H. inv H; sel; auto. eapply shutdown_step_open; eauto.
Qed.

Lemma stoph_open : forall c s s0 o0 b, StopH c s s0 o0 b -> cq_open s0 = cq_open s.
Proof. intros c s s0 o0 b H. inv H; reflexivity. Qed.

Lemma pstep_open : forall c top s s1 o nx, pstep c top s = (s1, o, nx) -> cq_open s1 = cq_open s.
Proof.
  intros c top s s1 o nx H. apply pstep_cases in H.
  destruct H as [[-> H]|[-> (s0 & o0 & b & HS & H)]].
  - eapply sstep_open; eauto.
  - apply stoph_open in HS. destruct H as [(_ & -> & _ & _)|(_ & o1 & H1 & _)]; auto.
    apply sstep_open in H1. congruence.
Qed.

Lemma poll_open : forall c s, Inv c s -> finished s = false -> cq_open (fst (poll c s)) = cq_open s.
Proof.
  intros c s I0 F.
  apply (poll_ind c (fun _ s s2 _ => cq_open s2 = cq_open s)); auto.
  - intros. eapply pstep_open; eauto.
  - intros top s0 s1 o1 nx s2 o2 _ _ _ HS _ _ _ _ E2. rewrite E2. eapply sstep_open; eauto.
Qed.

Definition pushes_from (open : bool) (ops : list op) : list (nat * nat) :=
  if open then pushes_of ops else [].

Lemma live_ws : forall s s', ws s' = ws s -> (live s' <-> live s).
Proof. intros s s' E. unfold live. rewrite E. tauto. Qed.

Lemma run_fifo : forall c ops s, Inv c s ->
  (live s -> exists rest,
      cq s ++ pushes_from (cq_open s) ops = calls_of (concat (run c s ops)) ++ rest)
  /\ (~ live s -> calls_of (concat (run c s ops)) = []).
Proof.
  intros c. induction ops as [|o t IH]; intros s I0.
  { cbn. split; eauto. }
  cbn [run]. destruct (finished s) eqn:F.
  { cbn. split; eauto. }
  destruct (step c s o) as [s' l] eqn:Es.
  pose proof (step_inv c s o I0 F) as I1. rewrite Es in I1. cbn [fst] in I1.
  destruct (IH s' I1) as [IHl IHn]. cbn [concat]. rewrite calls_of_app.
  destruct (op_eq_poll_dec o) as [->|Hn].
  - (* PollW *)
    cbn [step] in Es. pose proof (poll_cq c s I0 F) as (rest0 & E0 & EL).
    rewrite Es in E0, EL. cbn [fst snd] in E0, EL.
    assert (Eo : cq_open s' = cq_open s /\ pushes_from (cq_open s) (PollW :: t) = pushes_from (cq_open s) t).
    { split; [|reflexivity]. pose proof (poll_open c s I0 F) as K. now rewrite Es in K. }
    destruct Eo as [Eo1 Eo2].
    split.
    + intros L. destruct (live_dec s') as [L'|NL'].
      * destruct (IHl L') as [rest Er]. exists rest.
        rewrite Eo2, E0, <- app_assoc. rewrite <- (EL L'), <- Eo1, Er. now rewrite app_assoc.
      * rewrite (IHn NL'), app_nil_r. exists (rest0 ++ pushes_from (cq_open s) (PollW :: t)).
        rewrite E0. now rewrite app_assoc.
    + intros NL. pose proof (poll_notlive c s I0 F NL) as [NL' NC]. rewrite Es in NL', NC.
      cbn [fst snd] in *. rewrite (IHn NL'), (calls_of_nocall _ NC). reflexivity.
  - (* the other ops emit no call and do not touch the state of the future *)
    pose proof (step_nonpoll_basic c s o Hn) as B. rewrite Es in B. cbn [snd] in B.
    rewrite (calls_of_nocall _ (basic_nocall _ B)). cbn [app].
    pose proof (step_nonpoll_ws c s o Hn) as Ew. rewrite Es in Ew. cbn [fst] in Ew.
    pose proof (live_ws s s' Ew) as LW.
    split; [|intros NL; apply IHn; tauto].
    intros L. destruct (IHl (proj2 LW L)) as [rest Er]. exists rest. rewrite <- Er.
    clear - Es Hn. destruct o; try congruence; cbn [step] in Es.
    + destruct (cq_open s) eqn:Eo.
      * destruct (gap s); injection Es as <- <-; sel; rewrite Eo; cbn [pushes_from pushes_of];
          rewrite <- app_assoc; reflexivity.
      * injection Es as <- <-. rewrite Eo. reflexivity.
    + destruct (gap s); injection Es as <- <-; sel; destruct (cq_open s); reflexivity.
    + destruct (sq_open s); injection Es as <- <-; sel; destruct (cq_open s); reflexivity.
    + destruct (mem_nat cid (inprog s)); injection Es as <- <-; sel; destruct (cq_open s); reflexivity.
    + injection Es as <- <-. sel. destruct (cq_open s); reflexivity.
    + destruct (gap s); injection Es as <- <-; sel; destruct (cq_open s); cbn [pushes_from pushes_of];
        rewrite ?app_nil_r; reflexivity.
    + injection Es as <- <-. sel. destruct (cq_open s); reflexivity.
Qed.

Lemma is_prefix_app : forall a r, is_prefix a (a ++ r) = true.
Proof.
  induction a as [|x t IH]; intros r; cbn [is_prefix app]; auto.
  rewrite IH. unfold pair_eqb. now rewrite !Nat.eqb_refl.
Qed.

Theorem fifo_holds : forall c ops, C07_fifo_ok ops (trace c ops) = true.
Proof.
  intros c ops. unfold C07_fifo_ok, trace.
  destruct (run_fifo c ops (init c) (init_inv c)) as [H _].
  destruct (H I) as [rest E]. cbn in E. rewrite E. apply is_prefix_app.
Qed.

(* ======================================================================================== *)
(* C07_restart / C07_restart_fail: adjacency discipline                                       *)
(* ======================================================================================== *)

Fixpoint adj_from (p : option obs) (l : list obs) : bool :=
  match l with
  | [] => match p with None => true | Some a => may_end a end
  | b :: t => (match p with None => may_start b | Some a => adj_pair a b end) && adj_from (Some b) t
  end.

Lemma adj_ok_from : forall t a, adj_ok (a :: t) = adj_from (Some a) t.
Proof.
  induction t as [|b t IH]; intros a; [reflexivity|].
  cbn [adj_from]. rewrite <- IH. reflexivity.
Qed.

Lemma seg_adj_from : forall l, seg_adj_ok l = adj_from None l.
Proof. destruct l as [|a t]; [reflexivity|]. cbn [seg_adj_ok adj_from]. now rewrite adj_ok_from. Qed.

Definition okprev (p : option obs) : Prop :=
  match p with None => True | Some a => may_end a = true end.

Definition calm (e : obs) : Prop := may_start e = true /\ may_end e = true.

Lemma adj_pair_ok : forall a b, may_end a = true -> may_start b = true -> adj_pair a b = true.
Proof.
  intros a b Ha Hb. unfold adj_pair.
  destruct a as [k r|k cid|f|f r|sid bb|sid| |cid| |pk]; try destruct r; try discriminate;
    destruct b as [k' r'|k' cid'|f'|f' r'|sid' bb'|sid'| |cid'| |pk']; try destruct pk'; try discriminate; reflexivity.
Qed.

Lemma adj_calm : forall p e l, okprev p -> calm e -> adj_from p (e :: l) = adj_from (Some e) l.
Proof.
  intros p e l Hp [Hs He]. cbn [adj_from]. destruct p as [a|].
  - rewrite adj_pair_ok; auto.
  - now rewrite Hs.
Qed.

Lemma adj_R : forall R l p,
  Forall is_pollready R -> Forall not_err R -> okprev p ->
  exists p', okprev p' /\ adj_from p (R ++ l) = adj_from p' l.
Proof.
  induction R as [|e t IH]; intros l p H1 H2 Hp.
  - exists p. auto.
  - inv H1. inv H2. destruct e as [k r| | | | | | | | | ]; try contradiction.
    assert (C : calm (PollReady k r)). { destruct r; try contradiction; split; reflexivity. }
    cbn [app]. rewrite adj_calm by auto.
    apply IH; auto. apply C.
Qed.

Definition compat (p : option obs) (s : st) : Prop :=
  match p with
  | None => True
  | Some (Create k) => ws s = WRestarting k /\ sq s = []
  | Some a => may_end a = true
  end.

Lemma okprev_compat : forall p s, okprev p -> compat p s.
Proof. intros [a|] s H; [|exact I]. destruct a; try exact H. discriminate H. Qed.

Lemma compat_cases : forall p s, compat p s ->
  okprev p \/ exists k, p = Some (Create k) /\ ws s = WRestarting k /\ sq s = [].
Proof.
  intros [a|] s H; [|left; exact I]. destruct a; try (left; exact H). right. eauto.
Qed.

(* observations the harness can only collect after the op *)
Lemma drop_obs_main : forall s, filter is_main (drop_obs s) = [].
Proof.
  intros s. unfold drop_obs. rewrite !filter_app.
  assert (A : forall (l : list (nat * nat)), filter is_main (map (fun x => Released (snd x)) l) = []).
  { induction l; cbn; auto. }
  assert (B : forall (l : list (bool * nat)), filter is_main (map (fun x => StopLost (snd x)) l) = []).
  { induction l; cbn; auto. }
  rewrite A, B. destruct (ws s); reflexivity.
Qed.

Lemma wake_obs_main : forall c n, filter is_main (wake_obs c n) = [].
Proof. intros. unfold wake_obs. destruct (dec_wakes c n); reflexivity. Qed.

Lemma drain_main : forall c q cnt cnt' o, drain c q cnt = (cnt', o) -> filter is_main o = [].
Proof.
  induction q as [|[tok cid] t IH]; intros cnt cnt' o H; cbn [drain] in H.
  - inv H. reflexivity.
  - destruct (drain c t (cnt - 1)%Z) as [c2 o2] eqn:Ed. inv H. cbn [filter is_main].
    rewrite filter_app, wake_obs_main. eauto.
Qed.

Lemma shutdown_step_main : forall c s dl start sid s1 o,
  shutdown_step c s dl start sid = (s1, o) ->
  filter is_main o = [] \/ filter is_main o = [Done].
Proof.
  intros c s dl start sid s1 o H. unfold shutdown_step in H.
  destruct (drain c (cq s) (counter s)) as [cnt o1] eqn:Ed. apply drain_main in Ed. sel.
  destruct (now s <? dl)%Z; [inv H; auto|].
  destruct (total _ =? 0)%Z.
  { inv H. rewrite !filter_app, Ed. cbn [filter is_main app]. rewrite drop_obs_main. auto. }
  destruct (c_timeout c <=? now s - start)%Z; inv H; auto.
  rewrite !filter_app, Ed. cbn [filter is_main app]. rewrite drop_obs_main. auto.
Qed.

Lemma stoph_main : forall c s s0 o0 b, StopH c s s0 o0 b ->
  (b = false /\ filter is_main o0 = []) \/ (b = true /\ filter is_main o0 = [Done]).
Proof.
  intros c s s0 o0 b H. inv H.
  - left. auto.
  - right. split; auto. cbn [filter is_main]. now rewrite drop_obs_main.
  - left. split; auto. destruct (ws s); reflexivity.
  - right. split; auto. cbn [filter is_main]. now rewrite drop_obs_main.
Qed.

Lemma adj_single : forall p e, okprev p -> calm e -> adj_from p [e] = true.
Proof. intros p e Hp C. rewrite adj_calm; auto. cbn. apply C. Qed.

Lemma adj_nil : forall p, okprev p -> adj_from p [] = true.
Proof. intros [a|] H; auto. Qed.

Lemma calm_done : calm Done. Proof. split; reflexivity. Qed.
Lemma calm_idx : calm (Panic PIndex). Proof. split; reflexivity. Qed.
Lemma calm_call : forall k cid, calm (Call k cid). Proof. split; reflexivity. Qed.

(* a returning state step, seen from a calm predecessor *)
Lemma sstep_ret_adj : forall c s s1 o p,
  Inv c s -> SStep c s s1 o NRet -> okprev p -> adj_from p (filter is_main o) = true.
Proof.
  intros c s s1 o p I0 H Hp.
  inv H;
    try (match goal with H : check_ready _ _ = (_, CROk _, _) |- _ =>
           pose proof (check_ready_pollready _ _ _ _ _ H) as PR;
           pose proof (check_ready_noerr _ _ _ _ _ H) as NE end).
  - (* U pend *) rewrite main_pollready by auto. rewrite <- (app_nil_r o).
    destruct (adj_R o [] p PR NE Hp) as (p' & Hp' & ->). now apply adj_nil.
  - (* R idx *) apply adj_single; auto. apply calm_idx.
  - (* R pend *) apply adj_single; auto. split; reflexivity.
  - (* R err *) cbn [filter is_main adj_from]. destruct p as [a|].
    + rewrite adj_pair_ok; auto.
    + reflexivity.
  - (* Shutdown *) apply shutdown_step_main in H1. destruct H1 as [->| ->].
    + now apply adj_nil.
    + apply adj_single; auto. apply calm_done.
  - (* A idle *) rewrite main_pollready by auto. rewrite <- (app_nil_r o).
    destruct (adj_R o [] p PR NE Hp) as (p' & Hp' & ->). now apply adj_nil.
  - (* A closed *) rewrite filter_app, main_pollready by auto. cbn [filter is_main].
    rewrite drop_obs_main.
    destruct (adj_R o0 [Done] p PR NE Hp) as (p' & Hp' & ->). apply adj_single; auto. apply calm_done.
  - (* A orphan *) rewrite main_pollready by auto. rewrite <- (app_nil_r o).
    destruct (adj_R o [] p PR NE Hp) as (p' & Hp' & ->). now apply adj_nil.
  - (* A idx *) rewrite filter_app, main_pollready by auto. cbn [filter is_main].
    destruct (adj_R o0 [Panic PIndex] p PR NE Hp) as (p' & Hp' & ->). apply adj_single; auto. apply calm_idx.
  - (* finished *) now apply adj_nil.
Qed.

Lemma adj_create_pollcreate : forall k a, adj_pair (Create k) (PollCreate k a) = true.
Proof. intros. unfold adj_pair. rewrite Nat.eqb_refl. reflexivity. Qed.

Lemma adj_err_create : forall k, adj_pair (PollReady k RErr) (Create k) = true.
Proof. intros. unfold adj_pair. rewrite Nat.eqb_refl. reflexivity. Qed.

(* what a state step does right after `restart_service` *)
Lemma sstep_from_restarting : forall c s s1 o nx k,
  Inv c s -> ws s = WRestarting k -> SStep c s s1 o nx ->
  (nx = NRet /\ adj_from (Some (Create k)) (filter is_main o) = true)
  \/ (nx = NTop /\ o = [PollCreate k COk]).
Proof.
  intros c s s1 o nx k [L S C] Ew H. rewrite Ew in S. cbn [stat_ok] in S. destruct S as [Sk _].
  inv H; try congruence;
    try (match goal with X : ws s = WRestarting _ |- _ => rewrite Ew in X; inv X end).
  - exfalso. match goal with X : nth_error _ _ = None |- _ => apply nth_error_None in X end. lia.
  - left. split; auto. cbn [filter is_main adj_from]. now rewrite adj_create_pollcreate.
  - left. split; auto. cbn [filter is_main adj_from]. now rewrite adj_create_pollcreate.
  - right. auto.
  - match goal with X : finished _ = true |- _ => unfold finished in X; rewrite Ew in X; discriminate X end.
Qed.

Lemma check_prev_ok : forall p b, okprev p -> may_start b = true ->
  (match p with None => may_start b | Some a => adj_pair a b end) = true.
Proof. intros [a|] b Hp Hb; auto. now apply adj_pair_ok. Qed.

Lemma poll_adj : forall c s, Inv c s -> finished s = false ->
  forall p, compat p s -> adj_from p (filter is_main (snd (poll c s))) = true.
Proof.
  intros c s I0 F.
  assert (K : (true = false -> sq s = []) ->
              forall p, compat p s -> adj_from p (filter is_main (snd (poll c s))) = true).
  2:{ apply K. discriminate. }
  apply (poll_ind c (fun top s _ o => (top = false -> sq s = []) ->
           forall p, compat p s -> adj_from p (filter is_main o) = true)); auto.
  - (* a returning pass *)
    intros top s0 s1 o I1 F1 Hp Hsq p Cp. apply pstep_cases in Hp.
    destruct (compat_cases _ _ Cp) as [Op|(k & -> & Ew & Esq)].
    + destruct Hp as [[-> H]|[-> (sa & oa & b & HS & H)]].
      * eapply sstep_ret_adj; eauto.
      * pose proof (stoph_inv _ _ _ _ _ I1 F1 HS) as Ia.
        destruct (stoph_main _ _ _ _ _ HS) as [[-> Em]|[-> Em]].
        -- destruct H as [(X & _)|(_ & o1 & H1 & ->)]; [discriminate|].
           rewrite filter_app, Em. cbn [app]. eapply sstep_ret_adj; eauto.
        -- destruct H as [(_ & _ & -> & _)|(X & _)]; [|discriminate].
           rewrite Em. apply adj_single; auto using calm_done.
    + assert (HS : SStep c s0 s1 o NRet).
      { destruct Hp as [[-> H]|[-> (sa & oa & b & HS & H)]]; auto.
        inv HS; try congruence.
        destruct H as [(X & _)|(_ & o1 & H1 & ->)]; [discriminate|]. exact H1. }
      destruct (sstep_from_restarting _ _ _ _ _ _ I1 Ew HS) as [[_ A]|[X _]]; [exact A|discriminate].
  - (* a continuing pass *)
    intros top s0 s1 o1 nx s2 o2 I1 L1 Hsq1 HS Hn I2 L2 Hsq2 IH Hsq p Cp.
    assert (Esq : sq s0 = []). { destruct top; auto. }
    assert (Esq1 : sq s1 = []) by congruence.
    specialize (IH (fun _ => Esq1)).
    rewrite filter_app.
    destruct (compat_cases _ _ Cp) as [Op|(k & -> & Ew & _)].
    + inv HS; try congruence;
        try (match goal with H : check_ready _ _ = (_, CROk _, _) |- _ =>
               pose proof (check_ready_pollready _ _ _ _ _ H) as PR;
               pose proof (check_ready_noerr _ _ _ _ _ H) as NE end);
        try (match goal with H : check_ready _ _ = (_, CRErr _, _) |- _ =>
               destruct (check_ready_err _ _ _ _ _ H) as (o' & -> & NE & PR) end).
      * (* U ready *) rewrite main_pollready by auto.
        destruct (adj_R o1 (filter is_main o2) p PR NE Op) as (p' & Hp' & ->).
        apply IH. now apply okprev_compat.
      * (* U err *) rewrite <- app_assoc, filter_app, main_pollready by auto.
        cbn [app filter is_main]. rewrite <- app_assoc. cbn [app].
        destruct (adj_R o' (PollReady k RErr :: Create k :: filter is_main o2) p PR NE Op) as (p' & Hp' & ->).
        cbn [adj_from]. rewrite check_prev_ok, adj_err_create by auto. cbn [andb].
        apply IH. cbn [compat]. sel. auto.
      * (* R ok *) cbn [filter is_main app]. rewrite adj_calm; auto; [|split; reflexivity].
        apply IH. reflexivity.
      * (* A call *) rewrite filter_app, main_pollready by auto. cbn [filter is_main].
        rewrite <- app_assoc. cbn [app].
        destruct (adj_R o (Call tok cid :: filter is_main o2) p PR NE Op) as (p' & Hp' & ->).
        rewrite adj_calm; auto using calm_call. apply IH. reflexivity.
      * (* A pend *) rewrite main_pollready by auto.
        destruct (adj_R o1 (filter is_main o2) p PR NE Op) as (p' & Hp' & ->).
        apply IH. now apply okprev_compat.
      * (* A err *) rewrite <- app_assoc, filter_app, main_pollready by auto.
        cbn [app filter is_main]. rewrite <- app_assoc. cbn [app].
        destruct (adj_R o' (PollReady k RErr :: Create k :: filter is_main o2) p PR NE Op) as (p' & Hp' & ->).
        cbn [adj_from]. rewrite check_prev_ok, adj_err_create by auto. cbn [andb].
        apply IH. cbn [compat]. sel. auto.
    + destruct (sstep_from_restarting _ _ _ _ _ _ I1 Ew HS) as [[X _]|[_ ->]]; [congruence|].
      cbn [filter is_main app adj_from]. rewrite adj_create_pollcreate. cbn [andb].
      apply IH. reflexivity.
Qed.

Theorem restart_holds : forall c ops, C07_restart_ok (trace c ops) = true.
Proof.
  intros c ops. unfold C07_restart_ok, trace. apply forallb_forall.
  apply Forall_forall. apply run_Forall; [|apply init_inv].
  intros s o I0 F. rewrite seg_adj_from. destruct (op_eq_poll_dec o) as [->|Hn].
  - cbn [step]. apply poll_adj; auto. exact I.
  - (* other ops emit no main event at all *)
    assert (E : filter is_main (snd (step c s o)) = []).
    { destruct o; try congruence; cbn [step].
      - destruct (cq_open s); [destruct (gap s)|]; reflexivity.
      - destruct (gap s); reflexivity.
      - destruct (sq_open s); reflexivity.
      - destruct (mem_nat cid (inprog s)); cbn [snd filter is_main]; auto. apply wake_obs_main.
      - reflexivity.
      - destruct (gap s); reflexivity.
      - reflexivity. }
    rewrite E. reflexivity.
Qed.

(* what the adjacency predicate means *)
Lemma adj_from_pair : forall pre p a b post,
  adj_from p (pre ++ a :: b :: post) = true -> adj_pair a b = true.
Proof.
  induction pre as [|e t IH]; intros p a b post H; cbn [app adj_from] in H.
  - apply andb_prop in H. destruct H as [_ H]. apply andb_prop in H. tauto.
  - apply andb_prop in H. destruct H as [_ H]. eauto.
Qed.

Lemma adj_from_last : forall pre p a, adj_from p (pre ++ [a]) = true -> may_end a = true.
Proof.
  induction pre as [|e t IH]; intros p a H; cbn [app adj_from] in H.
  - apply andb_prop in H. tauto.
  - apply andb_prop in H. destruct H as [_ H]. eauto.
Qed.

Theorem adj_sound_err : forall l, seg_adj_ok l = true ->
  forall pre k post, l = pre ++ PollReady k RErr :: post -> exists post', post = Create k :: post'.
Proof.
  intros l H pre k post ->. rewrite seg_adj_from in H. destruct post as [|b post'].
  - apply adj_from_last in H. discriminate.
  - apply adj_from_pair in H. unfold adj_pair in H. apply andb_prop in H. destruct H as [H _].
    destruct b; try discriminate. apply Nat.eqb_eq in H. subst. eauto.
Qed.

Theorem adj_sound_create : forall l, seg_adj_ok l = true ->
  forall pre k post, l = pre ++ Create k :: post ->
  (exists pre', pre = pre' ++ [PollReady k RErr]) /\ (exists a post', post = PollCreate k a :: post').
Proof.
  intros l H pre k post ->. rewrite seg_adj_from in H. split.
  - destruct (rev pre) as [|a rp] eqn:Er.
    + apply (f_equal (@rev obs)) in Er. rewrite rev_involutive in Er. cbn in Er. subst pre.
      cbn in H. discriminate.
    + apply (f_equal (@rev obs)) in Er. rewrite rev_involutive in Er. cbn in Er. subst pre.
      rewrite <- app_assoc in H. cbn [app] in H. apply adj_from_pair in H.
      unfold adj_pair in H. apply andb_prop in H. destruct H as [_ H].
      destruct a as [f r| | | | | | | | | ]; try discriminate. destruct r; try discriminate.
      apply Nat.eqb_eq in H. subst. eauto.
  - destruct post as [|b post'].
    + apply adj_from_last in H. discriminate.
    + apply adj_from_pair in H. unfold adj_pair in H. apply andb_prop in H. destruct H as [H _].
      destruct b; try discriminate. apply Nat.eqb_eq in H. subst. eauto.
Qed.

Theorem adj_sound_fail : forall l, seg_adj_ok l = true ->
  forall pre k post, l = pre ++ PollCreate k CErr :: post -> exists post', post = Panic PRestart :: post'.
Proof.
  intros l H pre k post ->. rewrite seg_adj_from in H. destruct post as [|b post'].
  - apply adj_from_last in H. discriminate.
  - apply adj_from_pair in H. unfold adj_pair in H. apply andb_prop in H. destruct H as [H _].
    destruct b; try discriminate. destruct p; try discriminate. eauto.
Qed.

Theorem adj_sound_panic : forall l, seg_adj_ok l = true ->
  forall pre post, l = pre ++ Panic PRestart :: post -> exists pre' k, pre = pre' ++ [PollCreate k CErr].
Proof.
  intros l H pre post ->. rewrite seg_adj_from in H.
  destruct (rev pre) as [|a rp] eqn:Er.
  - apply (f_equal (@rev obs)) in Er. rewrite rev_involutive in Er. cbn in Er. subst pre.
    cbn in H. discriminate.
  - apply (f_equal (@rev obs)) in Er. rewrite rev_involutive in Er. cbn in Er. subst pre.
    rewrite <- app_assoc in H. cbn [app] in H. apply adj_from_pair in H.
    unfold adj_pair in H. apply andb_prop in H. destruct H as [_ H].
    destruct a as [f r| | |f r| | | | | | ]; try discriminate. destruct r; try discriminate. eauto.
Qed.

(* ======================================================================================== *)
(* C07: what one poll achieves (queued connections are served once readiness returns)        *)
(* ======================================================================================== *)

Definition tokens_ok (c : cfg) (s : st) : Prop :=
  Forall (fun x => fst x < length (c_svcs c)) (cq s).

Definition poll_outcome (s2 : st) (o : list obs) : Prop :=
  (ws s2 = WAvailable /\ cq s2 = [])
  \/ (ws s2 = WUnavailable /\ exists k, In (PollReady k RPend) o)
  \/ (exists k, ws s2 = WRestarting k /\ In (PollCreate k CPend) o)
  \/ (ws s2 = WPanicked /\ In (Panic PRestart) o /\ exists k, In (PollCreate k CErr) o).

Lemma poll_outcome_app : forall s2 o1 o2, poll_outcome s2 o2 -> poll_outcome s2 (o1 ++ o2).
Proof.
  intros s2 o1 o2 [H|[[H [k Hk]]|[[k [H Hk]]|[H [Hp [k Hk]]]]]]; unfold poll_outcome.
  - auto.
  - right; left. split; auto. exists k. apply in_or_app. auto.
  - right; right; left. exists k. split; auto. apply in_or_app. auto.
  - right; right; right. split; auto. split; [apply in_or_app; auto|].
    exists k. apply in_or_app. auto.
Qed.

Lemma poll_classify : forall c s, Inv c s -> live s ->
  sq s = [] -> cq_open s = true -> tokens_ok c s ->
  poll_outcome (fst (poll c s)) (snd (poll c s)).
Proof.
  intros c s I0 L0.
  apply (poll_ind c (fun _ s s2 o => live s -> sq s = [] -> cq_open s = true -> tokens_ok c s ->
                                     poll_outcome s2 o)); auto using live_unfinished.
  - intros top s0 s1 o I1 F1 Hp L1 Esq Eo Tk.
    assert (HS : SStep c s0 s1 o NRet).
    { apply pstep_cases in Hp. destruct Hp as [[-> H]|[-> (sa & oa & b & HS & H)]]; auto.
      inv HS; try congruence.
      destruct H as [(X & _)|(_ & o1 & H1 & ->)]; [discriminate|]. exact H1. }
    pose proof I1 as [Len St _]. unfold live in L1. unfold poll_outcome.
    inv HS; sel;
      try (match goal with X : ws s0 = _ |- _ => rewrite X in L1, St; cbn [stat_ok] in St end);
      try contradiction.
    + (* U pend *) right; left. split; auto. eapply check_ready_pend; eauto.
    + (* R idx *) exfalso. destruct St as [Sk _].
      match goal with X : nth_error _ _ = None |- _ => apply nth_error_None in X end. lia.
    + (* R pend *) right; right; left. exists k. split; auto. now left.
    + (* R err *) right; right; right. split; auto. split; [right; now left|]. exists k. now left.
    + (* A idle *) left. split; auto.
    + (* A closed *) congruence.
    + (* A orphan *) congruence.
    + (* A idx *) exfalso. unfold tokens_ok in Tk.
      match goal with X : cq s0 = _ |- _ => rewrite X in Tk end. inv Tk. cbn [fst] in *.
      match goal with X : check_ready _ _ = _ |- _ => apply check_ready_length in X end.
      match goal with X : nth_error _ _ = None |- _ => apply nth_error_None in X end. lia.
    + (* finished *) congruence.
  - intros top s0 s1 o1 nx s2 o2 I1 L1 Hsq1 HS Hn I2 L2 Hsq2 IH _ Esq Eo Tk.
    apply poll_outcome_app. apply IH; auto.
    + congruence.
    + erewrite sstep_open; eauto.
    + unfold tokens_ok in *. destruct nx; [congruence| |].
      * apply sstep_top_cq in HS. destruct HS as [-> _]. exact Tk.
      * apply sstep_loop_inv in HS.
        destruct HS as (sv & o0 & tok & cid & rest0 & v & _ & _ & Eq & _ & -> & _). sel.
        rewrite Eq in Tk. now inv Tk.
Qed.

(* the same, with the fate of every queued connection: called in order, or still queued *)
Theorem poll_serves : forall c s, Inv c s -> live s ->
  sq s = [] -> cq_open s = true -> tokens_ok c s ->
  let s2 := fst (poll c s) in let o := snd (poll c s) in
  poll_outcome s2 o /\ (live s2 -> cq s = calls_of o ++ cq s2)
  /\ (ws s2 = WAvailable -> calls_of o = cq s).
Proof.
  intros c s I0 L0 Esq Eo Tk s2 o.
  pose proof (poll_classify c s I0 L0 Esq Eo Tk) as PO.
  destruct (poll_cq c s I0 (live_unfinished s L0)) as (rest & E & HL).
  fold s2 in PO, HL. fold o in PO, E.
  assert (LQ : live s2 -> cq s = calls_of o ++ cq s2). { intros L2. now rewrite (HL L2). }
  split; auto. split; auto.
  intros Ew. assert (L2 : live s2). { unfold live. now rewrite Ew. }
  destruct PO as [[_ Eq]|[[X _]|[[k [X _]]|[X _]]]]; try congruence.
  rewrite (LQ L2), Eq. now rewrite app_nil_r.
Qed.

(* scripts that only answer Ok: no Pending / Err answer can appear *)
Definition benign (l : list svc) : Prop :=
  Forall (fun v => Forall (fun a => a = ROk) (s_ready v) /\ Forall (fun a => a = COk) (s_create v)) l.

Definition good_ev (e : obs) : Prop :=
  match e with
  | PollReady _ r => r = ROk
  | PollCreate _ r => r = COk
  | _ => True
  end.

Lemma check_ready_benign : forall l k sv r o,
  benign l -> check_ready k l = (sv, r, o) -> benign sv /\ Forall good_ev o.
Proof.
  induction l as [|v t IH]; intros k sv r o B H.
  - inv H. split; constructor.
  - inversion B as [|? ? HB1 HB2]; subst. cbn [check_ready] in H. destruct (polled (s_status v)).
    + destruct (next_ready v) as [a v'] eqn:En.
      assert (A : a = ROk /\ Forall (fun a => a = ROk) (s_ready v') /\ s_create v' = s_create v).
      { unfold next_ready in En. destruct HB1 as [R _]. destruct (s_ready v) eqn:Er.
        - inv En. rewrite Er. auto.
        - inv En. inv R. cbn. auto. }
      destruct A as (-> & A1 & A2).
      destruct (check_ready (S k) t) as [[t' r'] o'] eqn:Ec. inv H.
      apply IH in Ec; auto. destruct Ec as [B' G]. split.
      * constructor; auto. cbn [s_ready s_create with_status]. rewrite A2. tauto.
      * constructor; auto. reflexivity.
    + destruct (check_ready (S k) t) as [[t' r'] o'] eqn:Ec. inv H.
      apply IH in Ec; auto. destruct Ec as [B' G]. split; auto. constructor; auto.
Qed.

Lemma next_create_benign : forall v a v',
  Forall (fun a => a = COk) (s_create v) -> next_create v = (a, v') ->
  a = COk /\ Forall (fun a => a = COk) (s_create v') /\ s_ready v' = s_ready v.
Proof.
  unfold next_create. intros v a v' B H. destruct (s_create v) eqn:Ec.
  - inv H. rewrite Ec. auto.
  - inv H. inv B. cbn. auto.
Qed.

Lemma benign_nth : forall l k v, benign l -> nth_error l k = Some v ->
  Forall (fun a => a = ROk) (s_ready v) /\ Forall (fun a => a = COk) (s_create v).
Proof.
  intros l k v B H. apply nth_error_In in H. unfold benign in B. rewrite Forall_forall in B. auto.
Qed.

Lemma drop_obs_good : forall s, Forall good_ev (drop_obs s).
Proof.
  intros s. unfold drop_obs. repeat apply Forall_app2.
  - apply Forall_forall. intros e He. apply in_map_iff in He. destruct He as (x & <- & _). exact I.
  - apply Forall_forall. intros e He. apply in_map_iff in He. destruct He as (x & <- & _). exact I.
  - destruct (ws s); repeat constructor.
Qed.

Lemma benign_upd_const : forall l k w,
  benign l ->
  Forall (fun a => a = ROk) (s_ready w) /\ Forall (fun a => a = COk) (s_create w) ->
  benign (upd k (fun _ => w) l).
Proof.
  unfold benign. induction l as [|x t IH]; destruct k; cbn [upd]; intros w B Hw; auto.
  - inv B. constructor; auto.
  - inv B. constructor; auto.
Qed.

Lemma sstep_benign : forall c s s1 o nx,
  SStep c s s1 o nx -> live s -> benign (svcs s) -> Forall good_ev o /\ benign (svcs s1).
Proof.
  intros c s s1 o nx H L B. unfold live in L.
  inv H; sel;
    try (match goal with X : check_ready _ _ = _ |- _ =>
           destruct (check_ready_benign _ _ _ _ _ B X) as [B' G] end);
    try (match goal with X : nth_error _ _ = Some _, Y : next_create _ = _ |- _ =>
           destruct (benign_nth _ _ _ B X) as [BR BC];
           destruct (next_create_benign _ _ _ BC Y) as (Ea & BC' & ER) end);
    try discriminate.
  - auto.
  - auto.
  - split; [apply Forall_app2; auto; repeat constructor|].
    apply Forall_upd_id; auto.
  - split; auto. repeat constructor.
  - split; [repeat constructor|]. apply benign_upd_const; auto.
    cbn [s_ready s_create with_status]. rewrite ER. auto.
  - match goal with X : ws s = WShutdown _ _ _ |- _ => rewrite X in L end. contradiction.
  - auto.
  - split; auto. apply Forall_app2; auto. constructor; [exact I|apply drop_obs_good].
  - auto.
  - split; auto. apply Forall_app2; auto. repeat constructor.
  - split; auto. apply Forall_app2; auto. repeat constructor.
  - auto.
  - split; [apply Forall_app2; auto; repeat constructor|].
    apply Forall_upd_id; auto.
  - split; auto.
Qed.

Lemma poll_benign : forall c s, Inv c s -> live s -> sq s = [] -> benign (svcs s) ->
  Forall good_ev (snd (poll c s)).
Proof.
  intros c s I0 L0.
  apply (poll_ind c (fun _ s _ o => live s -> sq s = [] -> benign (svcs s) -> Forall good_ev o));
    auto using live_unfinished.
  - intros top s0 s1 o I1 F1 Hp L1 Esq B.
    assert (HS : SStep c s0 s1 o NRet).
    { apply pstep_cases in Hp. destruct Hp as [[-> H]|[-> (sa & oa & b & HS & H)]]; auto.
      inv HS; try congruence.
      destruct H as [(X & _)|(_ & o1 & H1 & ->)]; [discriminate|]. exact H1. }
    eapply sstep_benign; eauto.
  - intros top s0 s1 o1 nx s2 o2 I1 L1 Hsq1 HS Hn I2 L2 Hsq2 IH _ Esq B.
    destruct (sstep_benign _ _ _ _ _ HS L1 B) as [G1 B1].
    apply Forall_app2; auto. apply IH; auto. congruence.
Qed.

(* C07_served: with every service ready from now on, one poll calls every queued connection,
   in order, and leaves the worker Available with an empty queue *)
Theorem poll_serves_all : forall c s, Inv c s -> live s ->
  sq s = [] -> cq_open s = true -> tokens_ok c s -> benign (svcs s) ->
  ws (fst (poll c s)) = WAvailable /\ cq (fst (poll c s)) = []
  /\ calls_of (snd (poll c s)) = cq s.
Proof.
  intros c s I0 L0 Esq Eo Tk B.
  destruct (poll_serves c s I0 L0 Esq Eo Tk) as (PO & _ & HA).
  pose proof (poll_benign c s I0 L0 Esq B) as G. rewrite Forall_forall in G.
  destruct PO as [[Ew Eq]|[[_ [k Hk]]|[[k [_ Hk]]|[_ [_ [k Hk]]]]]].
  - auto.
  - apply G in Hk. discriminate Hk.
  - apply G in Hk. discriminate Hk.
  - apply G in Hk. discriminate Hk.
Qed.

(* ======================================================================================== *)
(* reachable states                                                                          *)
(* ======================================================================================== *)

Lemma exec_inv : forall c ops s, Inv c s -> Inv c (exec c s ops).
Proof.
  intros c. induction ops as [|o t IH]; intros s I0; cbn [exec]; auto.
  destruct (finished s) eqn:F; auto. apply IH. now apply step_inv.
Qed.

Theorem reachable_inv : forall c ops, Inv c (exec c (init c) ops).
Proof. intros. apply exec_inv, init_inv. Qed.

Theorem trace_nofuel : forall c ops, Forall (fun seg => ~ In (Panic PFuel) seg) (trace c ops).
Proof.
  intros c ops. unfold trace. apply run_Forall; [|apply init_inv].
  intros s o I0 F. destruct (op_eq_poll_dec o) as [->|Hn].
  - cbn [step]. now apply poll_fuel_sufficient.
  - intros Hin. pose proof (step_nonpoll_basic c s o Hn) as B. rewrite Forall_forall in B.
    apply B in Hin. exact Hin.
Qed.

(* none lost: while the worker is serving, every connection pushed so far has been called, in
   order, or is still queued, in order *)
Lemma exec_conservation : forall c ops s, Inv c s -> live (exec c s ops) ->
  cq s ++ pushes_from (cq_open s) ops = calls_of (concat (run c s ops)) ++ cq (exec c s ops).
Proof.
  intros c. induction ops as [|o t IH]; intros s I0 LE.
  { cbn. destruct (cq_open s); cbn; now rewrite app_nil_r. }
  cbn [run exec] in *. destruct (finished s) eqn:F.
  { apply live_unfinished in LE. congruence. }
  destruct (step c s o) as [s' l] eqn:Es. cbn [fst] in *.
  pose proof (step_inv c s o I0 F) as I1. rewrite Es in I1. cbn [fst] in I1.
  specialize (IH s' I1 LE). cbn [concat]. rewrite calls_of_app, <- app_assoc, <- IH.
  assert (L' : live s').
  { destruct (live_dec s') as [L'|NL']; auto. exfalso.
    clear - NL' LE I1. revert s' NL' LE I1. induction t as [|o2 t2 IH2]; intros s' NL' LE I1; cbn [exec] in LE.
    - contradiction.
    - destruct (finished s') eqn:F'; [contradiction|].
      apply (IH2 (fst (step c s' o2))); auto; [|now apply step_inv].
      destruct (op_eq_poll_dec o2) as [->|Hn].
      + cbn [step]. now apply poll_notlive.
      + intros X. apply NL'. eapply live_ws; [|exact X]. symmetry. now apply step_nonpoll_ws. }
  destruct (op_eq_poll_dec o) as [->|Hn].
  - cbn [step] in Es. pose proof (poll_cq c s I0 F) as (rest0 & E0 & EL).
    pose proof (poll_open c s I0 F) as EO.
    rewrite Es in E0, EL, EO. cbn [fst snd] in *. rewrite (EL L'), EO.
    rewrite E0, <- app_assoc. reflexivity.
  - pose proof (step_nonpoll_basic c s o Hn) as B. rewrite Es in B. cbn [snd] in B.
    rewrite (calls_of_nocall _ (basic_nocall _ B)). cbn [app].
    clear - Es Hn. destruct o; try congruence; cbn [step] in Es.
    + destruct (cq_open s) eqn:Eo.
      * destruct (gap s); injection Es as <- <-; sel; rewrite Eo; cbn [pushes_from pushes_of];
          rewrite <- app_assoc; reflexivity.
      * injection Es as <- <-. rewrite Eo. reflexivity.
    + destruct (gap s); injection Es as <- <-; sel; destruct (cq_open s); reflexivity.
    + destruct (sq_open s); injection Es as <- <-; sel; destruct (cq_open s); reflexivity.
    + destruct (mem_nat cid (inprog s)); injection Es as <- <-; sel; destruct (cq_open s); reflexivity.
    + injection Es as <- <-. sel. destruct (cq_open s); reflexivity.
    + destruct (gap s); injection Es as <- <-; sel; destruct (cq_open s); cbn [pushes_from pushes_of];
        rewrite ?app_nil_r; reflexivity.
    + injection Es as <- <-. sel. destruct (cq_open s); reflexivity.
Qed.

Theorem none_lost : forall c ops, live (exec c (init c) ops) ->
  pushes_of ops = calls_of (concat (trace c ops)) ++ cq (exec c (init c) ops).
Proof.
  intros c ops L. pose proof (exec_conservation c ops (init c) (init_inv c) L) as H.
  cbn in H. exact H.
Qed.

(* check_readiness never skips a service: whenever it runs (state Available / Unavailable),
   every service has status Available or Unavailable *)
Theorem all_services_checked : forall c ops,
  let s := exec c (init c) ops in
  match ws s with
  | WAvailable | WUnavailable => Forall (fun v => polled (s_status v) = true) (svcs s)
  | _ => True
  end.
Proof.
  intros c ops s. pose proof (reachable_inv c ops) as [_ S _]. fold s in S.
  destruct (ws s); auto.
Qed.

(* ======================================================================================== *)
(* C06 (worker level): stop handling                                                         *)
(* ======================================================================================== *)

Lemma poll_ret : forall c s s1 o, pstep c true s = (s1, o, NRet) -> poll c s = (s1, o).
Proof. intros c s s1 o H. unfold poll, fuel_of. cbn [piter]. now rewrite H. Qed.

(* `total()` is exactly the number of connections in progress, whatever the accept side's
   send/inc gap is doing *)
Theorem total_exact : forall s, total s = Z.of_nat (length (inprog s)).
Proof. reflexivity. Qed.

(* the value a guard drop sees is >= 1: `fetch_sub(1) - 1` cannot underflow *)
Theorem finish_pre_positive : forall c s cid, Inv c s -> finished s = false ->
  mem_nat cid (inprog s) = true -> (1 <= counter s)%Z.
Proof.
  intros c s cid [_ _ C] F M. specialize (C F). apply remove_nat_length in M.
  destruct (gap s); lia.
Qed.

(* --- forced / idle: the very next poll acknowledges and resolves, nothing is awaited ------ *)
Theorem stop_forced : forall c s sid rest,
  sq s = (false, sid) :: rest -> inprog s <> [] ->
  poll c s = (set_ws (set_svcs (set_sq s rest) (shutdown_svcs true (svcs s))) WDone,
              StopAck sid false :: Done
              :: drop_obs (set_svcs (set_sq s rest) (shutdown_svcs true (svcs s)))).
Proof.
  intros c s sid rest Esq Hn. apply poll_ret. unfold pstep, stop_handler. rewrite Esq.
  change (total (set_sq s rest)) with (total s). apply total_nonzero in Hn. rewrite Hn. reflexivity.
Qed.

Theorem stop_idle : forall c s g sid rest,
  sq s = (g, sid) :: rest -> inprog s = [] ->
  poll c s = (set_ws (set_sq s rest) WDone, StopAck sid true :: Done :: drop_obs (set_sq s rest)).
Proof.
  intros c s g sid rest Esq Hi. apply poll_ret. unfold pstep, stop_handler. rewrite Esq.
  change (total (set_sq s rest)) with (total s). apply total_zero in Hi. rewrite Hi. reflexivity.
Qed.

(* what is dropped with the worker future: every queued connection is released (never called),
   every other pending stop loses its ack sender (its receiver resolves) *)
Lemma drop_obs_spec : forall s,
  (forall x, In x (cq s) -> In (Released (snd x)) (drop_obs s))
  /\ (forall x, In x (sq s) -> In (StopLost (snd x)) (drop_obs s))
  /\ (forall dl st sid, ws s = WShutdown dl st sid -> In (StopLost sid) (drop_obs s)).
Proof.
  intros s. unfold drop_obs. repeat split.
  - intros x Hx. apply in_or_app. left. apply in_map_iff. eauto.
  - intros x Hx. apply in_or_app. right. apply in_or_app. left. apply in_map_iff. eauto.
  - intros dl st sid E. apply in_or_app. right. apply in_or_app. right. rewrite E. now left.
Qed.

(* --- graceful ----------------------------------------------------------------------------- *)
Lemma drain_released : forall c q cnt cnt' o, drain c q cnt = (cnt', o) ->
  forall x, In x q -> In (Released (snd x)) o.
Proof.
  induction q as [|[tok cid] t IH]; intros cnt cnt' o H x Hx; [contradiction|].
  cbn [drain] in H. destruct (drain c t (cnt - 1)%Z) as [c2 o2] eqn:Ed. inv H.
  destruct Hx as [<-|Hx]; [now left|]. right. apply in_or_app. right. eauto.
Qed.

Definition no_ack_done (o : list obs) : Prop :=
  Forall (fun e => match e with StopAck _ _ | Done | Call _ _ | Panic _ => False | _ => True end) o.

Lemma drain_quiet : forall c q cnt cnt' o, drain c q cnt = (cnt', o) -> no_ack_done o.
Proof.
  unfold no_ack_done. induction q as [|[tok cid] t IH]; intros cnt cnt' o H; cbn [drain] in H.
  - inv H. constructor.
  - destruct (drain c t (cnt - 1)%Z) as [c2 o2] eqn:Ed. inv H. constructor; [exact I|].
    apply Forall_app2; eauto. unfold wake_obs. destruct (dec_wakes c cnt); repeat constructor.
Qed.

(* entering Shutdown: with connections in progress a graceful stop is NOT acknowledged by this
   poll; the 1 s timer starts now, start_from = now, the queue is drained (released, never called) *)
Theorem stop_graceful_enter : forall c s sid rest,
  sq s = (true, sid) :: rest -> inprog s <> [] ->
  exists o cnt,
    drain c (cq s) (counter s) = (cnt, o) /\
    poll c s = (set_counter (set_cq (set_ws (set_svcs (set_sq s rest) (shutdown_svcs false (svcs s)))
                                            (WShutdown (now s + 1000) (now s) sid)) []) cnt,
                (match ws s with WShutdown _ _ sid0 => [StopLost sid0] | _ => [] end) ++ o)
    /\ no_ack_done o /\ (forall x, In x (cq s) -> In (Released (snd x)) o).
Proof.
  intros c s sid rest Esq Hn.
  destruct (drain c (cq s) (counter s)) as [cnt o] eqn:Ed. exists o, cnt. split; auto.
  split; [|split; [eapply drain_quiet; eauto|eapply drain_released; eauto]].
  apply poll_ret. unfold pstep, stop_handler. rewrite Esq.
  change (total (set_sq s rest)) with (total s). apply total_nonzero in Hn. rewrite Hn.
  unfold state_step. sel. unfold shutdown_step. sel. rewrite Ed. sel.
  destruct (now s <? now s + 1000)%Z eqn:En; [|apply Z.ltb_ge in En; lia].
  reflexivity.
Qed.

(* in Shutdown with no new stop: a poll IS the shutdown step *)
Lemma poll_shutdown : forall c s dl start sid,
  ws s = WShutdown dl start sid -> sq s = [] ->
  poll c s = shutdown_step c s dl start sid.
Proof.
  intros c s dl start sid Ew Esq.
  destruct (shutdown_step c s dl start sid) as [s1 o] eqn:Es. apply poll_ret.
  unfold pstep, stop_handler. rewrite Esq. unfold state_step. rewrite Ew, Es. reflexivity.
Qed.

(* before the tick: nothing is acknowledged, the queue is drained *)
Theorem shutdown_before_tick : forall c s dl start sid,
  ws s = WShutdown dl start sid -> sq s = [] -> (now s < dl)%Z ->
  exists o cnt, drain c (cq s) (counter s) = (cnt, o) /\
    poll c s = (set_counter (set_cq s []) cnt, o) /\ no_ack_done o
    /\ (forall x, In x (cq s) -> In (Released (snd x)) o).
Proof.
  intros c s dl start sid Ew Esq Hn. rewrite (poll_shutdown c s dl start sid Ew Esq).
  unfold shutdown_step. destruct (drain c (cq s) (counter s)) as [cnt o] eqn:Ed. sel.
  apply Z.ltb_lt in Hn. rewrite Hn. exists o, cnt. repeat split; auto.
  - eapply drain_quiet; eauto.
  - eapply drain_released; eauto.
Qed.

(* at or after the tick:
   nothing in progress                                 -> ack true, Done
   in progress and now - start >= shutdown_timeout     -> ack false, Done
   in progress and now - start <  shutdown_timeout     -> no ack, timer re-armed for now + 1 s *)
Theorem shutdown_tick_idle : forall c s dl start sid,
  ws s = WShutdown dl start sid -> sq s = [] -> (dl <= now s)%Z -> inprog s = [] ->
  exists o, In (StopAck sid true) o /\ In Done o /\ calls_of o = []
    /\ (forall x, In x (cq s) -> In (Released (snd x)) o)
    /\ ws (fst (poll c s)) = WDone /\ snd (poll c s) = o.
Proof.
  intros c s dl start sid Ew Esq Hn Hc. rewrite (poll_shutdown c s dl start sid Ew Esq).
  unfold shutdown_step. destruct (drain c (cq s) (counter s)) as [cnt o] eqn:Ed. sel.
  pose proof (drain_released _ _ _ _ _ Ed) as Er. pose proof (drain_basic _ _ _ _ _ Ed) as Eb.
  apply Z.ltb_ge in Hn. rewrite Hn.
  change (total (set_counter (set_cq s []) cnt)) with (total s). apply total_zero in Hc. rewrite Hc.
  eexists. cbn [finish fst snd]. repeat split; try reflexivity.
  - apply in_or_app. left. apply in_or_app. right. now left.
  - apply in_or_app. right. now left.
  - apply calls_of_nocall. apply Forall_app2; [apply Forall_app2|].
    + now apply basic_nocall.
    + repeat constructor.
    + constructor; [exact I|]. apply basic_nocall, drop_obs_basic.
  - intros x Hx. apply in_or_app. left. apply in_or_app. left. auto.
Qed.

Theorem shutdown_tick_timeout : forall c s dl start sid,
  ws s = WShutdown dl start sid -> sq s = [] -> (dl <= now s)%Z ->
  inprog s <> [] -> (c_timeout c <= now s - start)%Z ->
  exists o, In (StopAck sid false) o /\ In Done o /\ calls_of o = []
    /\ (forall x, In x (cq s) -> In (Released (snd x)) o)
    /\ ws (fst (poll c s)) = WDone /\ snd (poll c s) = o.
Proof.
  intros c s dl start sid Ew Esq Hn Hc Ht. rewrite (poll_shutdown c s dl start sid Ew Esq).
  unfold shutdown_step. destruct (drain c (cq s) (counter s)) as [cnt o] eqn:Ed. sel.
  pose proof (drain_released _ _ _ _ _ Ed) as Er. pose proof (drain_basic _ _ _ _ _ Ed) as Eb.
  apply Z.ltb_ge in Hn. rewrite Hn.
  change (total (set_counter (set_cq s []) cnt)) with (total s). apply total_nonzero in Hc. rewrite Hc.
  apply Z.leb_le in Ht. rewrite Ht.
  eexists. cbn [finish fst snd]. repeat split; try reflexivity.
  - apply in_or_app. left. apply in_or_app. right. now left.
  - apply in_or_app. right. now left.
  - apply calls_of_nocall. apply Forall_app2; [apply Forall_app2|].
    + now apply basic_nocall.
    + repeat constructor.
    + constructor; [exact I|]. apply basic_nocall, drop_obs_basic.
  - intros x Hx. apply in_or_app. left. apply in_or_app. left. auto.
Qed.

Theorem shutdown_tick_wait : forall c s dl start sid,
  ws s = WShutdown dl start sid -> sq s = [] -> (dl <= now s)%Z ->
  inprog s <> [] -> (now s - start < c_timeout c)%Z ->
  exists o cnt, drain c (cq s) (counter s) = (cnt, o) /\
    poll c s = (set_ws (set_counter (set_cq s []) cnt) (WShutdown (now s + 1000) start sid), o)
    /\ no_ack_done o /\ (forall x, In x (cq s) -> In (Released (snd x)) o).
Proof.
  intros c s dl start sid Ew Esq Hn Hc Ht. rewrite (poll_shutdown c s dl start sid Ew Esq).
  unfold shutdown_step. destruct (drain c (cq s) (counter s)) as [cnt o] eqn:Ed. sel.
  apply Z.ltb_ge in Hn. rewrite Hn.
  change (total (set_counter (set_cq s []) cnt)) with (total s). apply total_nonzero in Hc. rewrite Hc.
  replace (c_timeout c <=? now s - start)%Z with false by (symmetry; apply Z.leb_gt; lia).
  exists o, cnt. repeat split; auto.
  - eapply drain_quiet; eauto.
  - eapply drain_released; eauto.
Qed.

(* --- every acknowledgement, in every poll, has one of the lawful causes -------------------- *)
Definition ack_cond (c : cfg) (s : st) (sid : nat) (b : bool) : Prop :=
  (exists g rest, sq s = (g, sid) :: rest /\
     ((b = true /\ inprog s = []) \/ (b = false /\ g = false /\ inprog s <> [])))
  \/ (sq s = [] /\ exists dl start, ws s = WShutdown dl start sid /\ (dl <= now s)%Z /\
      ((b = true /\ inprog s = []) \/
       (b = false /\ inprog s <> [] /\ (c_timeout c <= now s - start)%Z))).

Definition passive (e : obs) : Prop :=
  match e with StopAck _ _ | Done => False | _ => True end.

Lemma passive_noack : forall o, Forall passive o -> forall sid b, ~ In (StopAck sid b) o.
Proof. intros o H sid b Hin. rewrite Forall_forall in H. apply (H _ Hin). Qed.

Lemma passive_nodone : forall o, Forall passive o -> ~ In Done o.
Proof. intros o H Hin. rewrite Forall_forall in H. apply (H _ Hin). Qed.

Lemma pollready_passive : forall o, Forall is_pollready o -> Forall passive o.
Proof. intros o H. eapply Forall_impl; [|exact H]. intros [] X; try contradiction; exact I. Qed.

Lemma drop_obs_passive : forall s, Forall passive (drop_obs s).
Proof.
  intros s. unfold drop_obs. repeat apply Forall_app2.
  - apply Forall_forall. intros e He. apply in_map_iff in He. destruct He as (x & <- & _). exact I.
  - apply Forall_forall. intros e He. apply in_map_iff in He. destruct He as (x & <- & _). exact I.
  - destruct (ws s); repeat constructor.
Qed.

Lemma drain_passive : forall c q cnt cnt' o, drain c q cnt = (cnt', o) -> Forall passive o.
Proof.
  intros. eapply Forall_impl; [|eapply drain_quiet; eauto]. intros []; cbn; tauto.
Qed.

(* a live state's step acknowledges nothing; it resolves only when the accept side AND the stop
   side are gone *)
Lemma sstep_live_quiet : forall c s s1 o nx, SStep c s s1 o nx -> live s ->
  (forall sid b, ~ In (StopAck sid b) o)
  /\ (In Done o -> cq_open s = false /\ stop_closed s = true /\ nx = NRet).
Proof.
  intros c s s1 o nx H L. unfold live in L.
  inv H;
    try (match goal with X : check_ready _ _ = _ |- _ =>
           pose proof (pollready_passive _ (check_ready_pollready _ _ _ _ _ X)) as PP end);
    try (match goal with X : ws s = WShutdown _ _ _ |- _ => rewrite X in L; contradiction end).
  all: try (split; [apply passive_noack|intros D; exfalso; revert D; apply passive_nodone]; auto;
            try (apply Forall_app2; auto); repeat constructor; fail).
  - (* A closed *) split.
    + intros sid b Hin. apply in_app_or in Hin. destruct Hin as [Hin|[Hin|Hin]]; try discriminate.
      * revert Hin. now apply passive_noack.
      * revert Hin. apply passive_noack, drop_obs_passive.
    + auto.
Qed.

Lemma shutdown_step_acks : forall c s dl start sid s1 o,
  shutdown_step c s dl start sid = (s1, o) ->
  (forall sid' b, In (StopAck sid' b) o ->
     sid' = sid /\ (dl <= now s)%Z /\
     ((b = true /\ inprog s = []) \/
      (b = false /\ inprog s <> [] /\ (c_timeout c <= now s - start)%Z)))
  /\ (In Done o -> exists b, In (StopAck sid b) o).
Proof.
  intros c s dl start sid s1 o H. unfold shutdown_step in H.
  destruct (drain c (cq s) (counter s)) as [cnt o1] eqn:Ed.
  pose proof (drain_passive _ _ _ _ _ Ed) as Pp.
  sel. destruct (now s <? dl)%Z eqn:En.
  { inv H. split; [intros ? ? X; exfalso; revert X; now apply passive_noack|].
    intros X; exfalso; revert X; now apply passive_nodone. }
  apply Z.ltb_ge in En.
  change (total (set_counter (set_cq s []) cnt)) with (total s) in H.
  assert (K : forall b, (b = true /\ inprog s = []) \/ (b = false /\ inprog s <> [] /\ (c_timeout c <= now s - start)%Z) ->
     (forall sid' b', In (StopAck sid' b') ((o1 ++ [StopAck sid b]) ++ Done :: drop_obs (set_ws (set_counter (set_cq s []) cnt) WUnavailable)) ->
        sid' = sid /\ (dl <= now s)%Z /\
        ((b' = true /\ inprog s = []) \/ (b' = false /\ inprog s <> [] /\ (c_timeout c <= now s - start)%Z)))
     /\ (In Done ((o1 ++ [StopAck sid b]) ++ Done :: drop_obs (set_ws (set_counter (set_cq s []) cnt) WUnavailable)) ->
         exists b0, In (StopAck sid b0) ((o1 ++ [StopAck sid b]) ++ Done :: drop_obs (set_ws (set_counter (set_cq s []) cnt) WUnavailable)))).
  { intros b Hb. split.
    - intros sid' b' Hin. apply in_app_or in Hin. destruct Hin as [Hin|[Hin|Hin]]; try discriminate.
      + apply in_app_or in Hin. destruct Hin as [Hin|[Hin|[]]].
        * exfalso. revert Hin. now apply passive_noack.
        * inv Hin. auto.
      + exfalso. revert Hin. apply passive_noack, drop_obs_passive.
    - intros _. exists b. apply in_or_app. left. apply in_or_app. right. now left. }
  destruct (total s =? 0)%Z eqn:E0.
  - apply total_zero in E0. inv H. apply K. left. auto.
  - apply total_nonzero in E0. destruct (c_timeout c <=? now s - start)%Z eqn:Et.
    + inv H. apply K. right. apply Z.leb_le in Et. auto.
    + inv H. split; [intros sid' b X|intros X]; exfalso; revert X;
        [now apply passive_noack|now apply passive_nodone].
Qed.

Lemma stoph_acks : forall c s s0 o0 b, StopH c s s0 o0 b ->
  (forall sid bb, In (StopAck sid bb) o0 -> ack_cond c s sid bb)
  /\ (In Done o0 -> exists sid bb, In (StopAck sid bb) o0).
Proof.
  intros c s s0 o0 b H. inv H.
  - split; [intros ? ? []|intros []].
  - split.
    + intros sid' bb [X|[X|X]]; try discriminate.
      * inv X. left. exists g, rest. split; auto.
      * exfalso. revert X. apply passive_noack, drop_obs_passive.
    + intros _. exists sid, true. now left.
  - split.
    + intros sid' bb X. exfalso. destruct (ws s); cbn in X; intuition discriminate.
    + intros X. exfalso. destruct (ws s); cbn in X; intuition discriminate.
  - split.
    + intros sid' bb [X|[X|X]]; try discriminate.
      * inv X. left. exists false, rest. split; auto.
      * exfalso. revert X. apply passive_noack, drop_obs_passive.
    + intros _. exists sid, false. now left.
Qed.

Lemma sstep_sqopen : forall c s s1 o nx, SStep c s s1 o nx -> sq_open s1 = sq_open s.
Proof.
  intros c s s1 o nx H. inv H; sel; auto.
  unfold shutdown_step in H1. destruct (drain c (cq s) (counter s)) as [cnt o1]. sel.
  destruct (now s <? dl)%Z; [inv H1; reflexivity|].
  destruct (total _ =? 0)%Z; [inv H1; reflexivity|].
  destruct (c_timeout c <=? now s - start)%Z; inv H1; reflexivity.
Qed.

Lemma poll_ack_done : forall c s, Inv c s -> finished s = false ->
  (forall sid b, In (StopAck sid b) (snd (poll c s)) -> ack_cond c s sid b)
  /\ (In Done (snd (poll c s)) ->
      (exists sid b, In (StopAck sid b) (snd (poll c s)))
      \/ (cq_open s = false /\ sq_open s = false)).
Proof.
  intros c s I0 F.
  assert (K : (true = false -> live s /\ sq s = []) ->
    (forall sid b, In (StopAck sid b) (snd (poll c s)) -> ack_cond c s sid b)
    /\ (In Done (snd (poll c s)) ->
        (exists sid b, In (StopAck sid b) (snd (poll c s)))
        \/ (cq_open s = false /\ sq_open s = false))).
  2:{ apply K. discriminate. }
  apply (poll_ind c (fun top s _ o => (top = false -> live s /\ sq s = []) ->
    (forall sid b, In (StopAck sid b) o -> ack_cond c s sid b)
    /\ (In Done o -> (exists sid b, In (StopAck sid b) o) \/ (cq_open s = false /\ sq_open s = false)))); auto.
  - intros top s0 s1 o I1 F1 Hp HL. apply pstep_cases in Hp.
    assert (SC : forall x, stop_closed x = true -> sq_open x = false).
    { intros x. unfold stop_closed. destruct (sq x); [|discriminate]. destruct (sq_open x); auto. }
    assert (SS : forall o1, SStep c s0 s1 o1 NRet -> sq s0 = [] ->
              (forall sid b, In (StopAck sid b) o1 -> ack_cond c s0 sid b)
              /\ (In Done o1 -> (exists sid b, In (StopAck sid b) o1)
                                \/ (cq_open s0 = false /\ sq_open s0 = false))).
    { intros o1 H1 Esq. destruct (live_dec s0) as [L|NL].
      - destruct (sstep_live_quiet _ _ _ _ _ H1 L) as [Q1 Q2]. split.
        + intros sid b X. exfalso. eapply Q1; eauto.
        + intros X. right. destruct (Q2 X) as (A & B & _). auto.
      - unfold live in NL. inv H1; try (rewrite H in NL; exfalso; apply NL; exact I).
        + destruct (shutdown_step_acks _ _ _ _ _ _ _ H0) as [A1 A2]. split.
          * intros sid' b X. destruct (A1 _ _ X) as (-> & Hd & Hc). right. split; auto.
            exists dl, start. auto.
          * intros X. left. destruct (A2 X) as [b Hb]. eauto.
        + split; [intros ? ? []|intros []]. }
    destruct Hp as [[-> H]|[-> (sa & oa & b & HS & H)]].
    + (* inside the Available loop: the state is live *)
      destruct (HL eq_refl) as [L _]. destruct (sstep_live_quiet _ _ _ _ _ H L) as [Q1 Q2]. split.
      * intros sid b X. exfalso. eapply Q1; eauto.
      * intros X. right. destruct (Q2 X) as (A & B & _). auto.
    + destruct (stoph_acks _ _ _ _ _ HS) as [A1 A2].
      destruct H as [(-> & -> & -> & _)|(-> & o1 & H1 & ->)].
      * split; [exact A1|intros X; left; exact (A2 X)].
      * inv HS.
        -- cbn [app]. auto.
        -- (* a graceful stop was just accepted: the fresh timer cannot have fired *)
           inv H1; sel; try discriminate.
           match goal with X : WShutdown _ _ _ = WShutdown _ _ _ |- _ => inv X end.
           match goal with X : shutdown_step _ _ _ _ _ = _ |- _ =>
             destruct (shutdown_step_acks _ _ _ _ _ _ _ X) as [B1 B2] end. sel.
           assert (NA : forall sid' b, ~ In (StopAck sid' b) o1).
           { intros sid' b X. destruct (B1 _ _ X) as (_ & Hd & _). lia. }
           split.
           ++ intros sid' b X. apply in_app_or in X. destruct X as [X|X].
              ** exfalso. destruct (ws s0); cbn in X; intuition discriminate.
              ** exfalso. eapply NA; eauto.
           ++ intros X. apply in_app_or in X. destruct X as [X|X].
              ** exfalso. destruct (ws s0); cbn in X; intuition discriminate.
              ** destruct (B2 X) as [b Hb]. exfalso. eapply NA; eauto.
  - intros top s0 s1 o1 nx s2 o2 I1 L1 Hsq1 HS Hn I2 L2 Hsq2 IH HL.
    destruct (sstep_live_quiet _ _ _ _ _ HS L1) as [Q1 Q2].
    assert (Esq0 : sq s0 = []). { destruct top; auto. now apply HL. }
    assert (Esq1 : sq s1 = []) by congruence.
    destruct (IH (fun _ => conj L2 Esq1)) as [IH1 IH2]. split.
    + intros sid b X. apply in_app_or in X. destruct X as [X|X]; [exfalso; eapply Q1; eauto|].
      exfalso. destruct (IH1 _ _ X) as [(g & rest & E & _)|(_ & dl & start & E & _)].
      * congruence.
      * unfold live in L2. rewrite E in L2. exact L2.
    + intros X. apply in_app_or in X. destruct X as [X|X].
      * destruct (Q2 X) as (_ & _ & Y). congruence.
      * destruct (IH2 X) as [(sid & b & Y)|[Y1 Y2]].
        -- left. exists sid, b. apply in_or_app. auto.
        -- right. erewrite <- sstep_open, <- sstep_sqopen; eauto.
Qed.

(* an acknowledgement `true` means: NO connection is in progress — exactly, also while the accept
   side is inside its send/inc gap; `false` means a forced stop or an elapsed shutdown_timeout *)
Theorem ack_true_means_idle : forall c s sid, Inv c s -> finished s = false ->
  In (StopAck sid true) (snd (poll c s)) -> inprog s = [].
Proof.
  intros c s sid I0 F H. destruct (poll_ack_done c s I0 F) as [A _]. apply A in H.
  destruct H as [(g & rest & E & [[_ T]|[X _]])|(_ & dl & start & E & _ & [[_ T]|[X _]])];
    try discriminate; auto.
Qed.

Theorem ack_false_means_forced_or_timeout : forall c s sid, Inv c s -> finished s = false ->
  In (StopAck sid false) (snd (poll c s)) ->
  (exists rest, sq s = (false, sid) :: rest)
  \/ (exists dl start, ws s = WShutdown dl start sid /\ (c_timeout c <= now s - start)%Z).
Proof.
  intros c s sid I0 F H. destruct (poll_ack_done c s I0 F) as [A _]. apply A in H.
  destruct H as [(g & rest & E & [[X _]|(_ & -> & _)])|(_ & dl & start & E & _ & [[X _]|(_ & _ & T)])];
    try discriminate; eauto.
Qed.

(* the worker future resolves only with an acknowledgement, or because BOTH the accept side and
   the server side (every stop sender) are gone *)
Theorem done_means_ack_or_closed : forall c s, Inv c s -> finished s = false ->
  In Done (snd (poll c s)) ->
  (exists sid b, In (StopAck sid b) (snd (poll c s))) \/ (cq_open s = false /\ sq_open s = false).
Proof. intros c s I0 F. apply (poll_ack_done c s I0 F). Qed.

(* C06_drain, run level: once the worker has left the serving states no service is ever called *)
Theorem no_call_after_shutdown : forall c ops s, Inv c s -> ~ live s ->
  calls_of (concat (run c s ops)) = [].
Proof. intros c ops s I0 NL. now apply (run_fifo c ops s I0). Qed.
