"""C07 — workers call services only when ready; a failed readiness check rebuilds that service."""
from common import Stream
from props import wrkgen as g

META = {
    "id": "C07",
    "driver": "worker",
    "harness": "h_worker",
    "coq_targets": ["Extract/XWorker.vo"],
    "level": "proof",
    "design_ref": "§5 worker model, C07",
    "technique": "Coq proof over a faithful small-step model of ServerWorker::poll (Model/Wrk.v): invariant + induction principle "
                 "for one poll (fuel shown sufficient), trace predicates proved for all scripts; extracted model vs the REAL "
                 "ServerWorker future (cfg-gated in-thread constructor hook) polled by hand with scripted services/factories; the "
                 "extracted predicates are run on the implementation's traces",
    "level_text": "C07_call_after_ready (+ meaning, + C07_all_services_checked), C07_fifo, C07_none_lost, C07_poll_outcome, C07_served, "
                  "C07_restart (+ two meaning lemmas), C07_restart_fail (+ _only), C07_fuel hold for ALL configurations (any number of "
                  "services, any readiness / create scripts, any limit) and ALL op histories, closed under the global context.",
    "level_note": "Trusted: the hand-written model (tied by this run), the in-thread constructor hook (mirror of ~25 lines of "
                  "ServerWorker::start), Tokio mpsc FIFO, LocalSet, paused clock. C07_served is stated per poll: 'once every service "
                  "answers Ok the next poll serves all queued connections' — that the worker IS polled again is the waker contract "
                  "of the scripted services (Pending = registered + later woken), not modelled.",
    "rule": "stream wrk07: (a) every readiness script in {P,O,E}^<=3 for 1 service x 8 create scripts x ~10 arrival patterns "
            "(exhaustive), for 2..3 services a stratified sample in the quick tier (every script at every service position, every "
            "arrival pattern) and all 1600 script pairs for 2 services in the thorough tier; (b) seeded random cases: 1..4 services, "
            "scripts of length <= 10, <= 40 ops incl. stops, clock advances, out-of-range tokens, accept-side close. "
            "non-trivial = the model trace contains a Call and a Pending or Err readiness answer (or a restart).",
    "trusted_base": ["cfg(actix_net_verif) hook verif_inthread (commit e02a036): in-thread ServerWorker constructor — mirrors the "
                     "service-creation part of ServerWorker::start",
                     "Tokio 1.44 unbounded mpsc FIFO, LocalSet spawn order, paused clock (environment; exercised by the run)",
                     "loopback TCP pairs as connections; 'Released' = worker-side fd closed and the peer reads EOF"],
    "assumptions": ["a service that answers Pending wakes the worker later (poll_ready waker contract); the harness polls by hand",
                    "factory_idx k = token k = position k (C01_builder_tokens, wrap_worker_services' assertion)"],
}

_mon = {}


def _monitor(ctx):
    if "m" not in _mon:
        _mon["m"] = g.ExtractedMonitor(ctx.model_bin, "mon07")
    return _mon["m"]


def nontrivial(case, model):
    m = g.main_part(model)
    toks = m.replace("|", " ").split()
    has_call = any(t.startswith("k") for t in toks)
    has_np = any(t[0] == "r" and t[-1] in "PE" for t in toks) or any(t.startswith("n") for t in toks)
    return has_call and has_np


def finding_key(case, impl, model):
    # class of a violation = which of the proved predicates is false on the implementation's trace
    m = _mon.get("m")
    return "c07:" + (m.verdict(case, g.main_part(impl)) if m else "?")


def streams(ctx):
    mon = _monitor(ctx)
    full = ctx.tier != "quick"
    enum = g.c07_enum(ctx.rng, 1500 if not full else 20000, full)
    nrand = 6000 if not full else 150000
    rnd = g.c07_random(ctx.rng, nrand, stops=True)

    def monitor(case, impl, model):
        # the property predicates proved in Props/C07.v (extracted), on the IMPLEMENTATION's trace
        return mon.verdict(case, g.main_part(impl)) == "ok"

    def compare(impl, model):
        return g.main_part(impl) == g.main_part(model)

    st = Stream("wrk07", "wrk", enum + rnd, monitor=monitor, nontrivial=nontrivial, shrink=g.shrink_case,
                compare=compare, finding_key=finding_key,
                describe="enumerated: %d cases ({P,O,E}^<=3 x create scripts x arrival patterns, 1..3 services); random: %d cases"
                         % (len(enum), nrand), timeout=600)
    return [st]


def custom(ctx):
    for st in streams(ctx):
        impl, model = ctx.run_stream(st)
        # internal values (worker state, raw counter, queue length) are diagnostics: a difference is a warning only
        nd = sum(1 for i, m in zip(impl, model) if g.main_part(i) == g.main_part(m) and g.diag_part(i) != g.diag_part(m))
        ctx.cov["diag_mismatches_warning_only"] = ctx.cov.get("diag_mismatches_warning_only", 0) + nd
        if nd:
            ctx.notes.append("warning: %d cases agree on the observable trace but differ in internal diagnostics (state/counter/queue)" % nd)
    # back-pressure through the real builder/server/accept thread (stream `bld` of the server group: its own driver and harness):
    # while every service answers Pending to its readiness check no service call starts, the dispatched connections wait in the
    # worker's queue (and count against its limit), and all of them are served, in order, once readiness returns
    import common
    from props.srvlib import bld_stream, DRIVER
    try:
        common.build_driver("server")
        hbin, _ = common.build_harness("h_server")
        bst = bld_stream(ctx, ("C07", "C01", "C02"), ["b", "cb", "x", "bx", "ab", "cx"], 64, 1200, ls=(1, 2, 3, 4))
        bst.impl_cmd = [hbin, "bld"]
        bst.model_cmd = [DRIVER, "bld"]
        ctx.run_stream(bst)
    except common.BuildError as e:
        ctx.report("build-broken", {"what": "correspondence C07/bld cannot be run: %s" % str(e)[-2000:]}, nfi=True)
