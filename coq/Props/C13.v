(* Props/C13.v — Framed decoding does not depend on how the bytes arrive.
   ONLY statements, each closed by `exact <lemma>`, non-vacuity Examples, Print Assumptions.

   Vocabulary (Model/Framed.v, Proofs/FramedFacts.v):
     run_read decode decode_eof fuel extra sc rinit
         the poll results of a fresh `Framed` over the transport script `sc` (every answer of
         poll_read: a chunk, Pending, a 0-byte read, an I/O error), polled until Ready(None)
         (at most `fuel` polls) and then `extra` more times;
     frames l / ioerrs l / results l
         the results that are neither Pending nor an I/O error / the number of I/O error
         items / the results that are not Pending;
     stream sc, io_errors sc
         the bytes delivered before the first 0-byte read, the I/O errors before it;
     decodes f b its r
         calling the decoder f on buffer b again and again yields the frames `its` (decode
         errors are frames here) until it says None, leaving r;
     prefix_stable decode
         the codec law: an empty buffer holds no frame; a decoded frame and its residue do not
         change when more bytes are appended; None consumes nothing. *)
From AN Require Import Model.Lines Model.Framed Proofs.LinesFacts Proofs.FramedFacts.

(* For EVERY script — every split of the stream into reads, every placement of Pending and of
   I/O errors — the frames are exactly those the codec decodes from the whole stream, in
   order, then the codec's end-of-stream frames, then None; every I/O error is surfaced as an
   item; and the bound on the number of polls shows the run gets there. *)
Theorem C13_chunk_independent :
  forall (A : Type) (decode decode_eof : list Z -> option A * list Z),
  prefix_stable decode ->
  forall (sc : list rd) (its : list A) (r : list Z) (its2 : list A) (r2 : list Z) (fuel : nat),
  decodes decode (stream sc) its r ->
  decodes decode_eof r its2 r2 ->
  (length sc + length its + length its2 + io_errors sc + 1 <= fuel)%nat ->
  frames (run_read decode decode_eof fuel 0 sc rinit) = map Item its ++ map Item its2 ++ [Done]
  /\ ioerrs (run_read decode decode_eof fuel 0 sc rinit) = io_errors sc.
Proof. exact read_chunk_independent. Qed.

(* Where exactly errors appear: the non-Pending results are the reference sequence `ref`:
   the frames decodable from what is buffered plus the bytes read before an I/O error, then
   that error as one item, then the same from the residue (decoding continues as the codec
   dictates: a decode error is whatever frame-or-error the codec returns and the buffer it
   leaves); at the 0-byte read the EOF frames and None. *)
Theorem C13_errors :
  forall (A : Type) (decode decode_eof : list Z -> option A * list Z),
  prefix_stable decode ->
  forall (sc : list rd) (tr : list (res A)) (fuel : nat),
  ref decode decode_eof [] sc tr ->
  (length sc + length tr <= fuel)%nat ->
  results (run_read decode decode_eof fuel 0 sc rinit) = tr.
Proof. exact read_errors. Qed.

(* ... and such a reference sequence exists whenever the whole stream decodes *)
Theorem C13_errors_ref_exists :
  forall (A : Type) (decode decode_eof : list Z -> option A * list Z),
  prefix_stable decode ->
  forall (sc : list rd) (buf : list Z) (its : list A) (r : list Z) (its2 : list A) (r2 : list Z),
  decodes decode (buf ++ stream sc) its r ->
  decodes decode_eof r its2 r2 ->
  exists tr : list (res A),
    ref decode decode_eof buf sc tr /\
    filter (is_frame A) tr = map Item its ++ map Item its2 ++ [Done] /\
    length (filter (is_ioerr A) tr) = io_errors sc /\
    length tr = (length its + length its2 + 1 + io_errors sc)%nat.
Proof. exact ref_of_stream. Qed.

(* After Ready(None) every further poll returns Ready(None), whatever the transport would
   answer (it is not asked), for a codec whose decode_eof keeps saying None. *)
Theorem C13_fused :
  forall (A : Type) (decode decode_eof : list Z -> option A * list Z),
  eof_idem decode_eof ->
  forall (sc : list rd) (st st' : rstate) (sc' : list rd),
  next_item decode decode_eof sc st = (Done, st', sc') ->
  forall (n : nat) (sc2 : list rd),
  map fst (run_more decode decode_eof n sc2 st') = repeat Done n.
Proof. exact read_fused. Qed.

(* `debug_assert!(!EOF)` (framed.rs:215) never fires — for any codec whatsoever. *)
Theorem C13_no_debug_assert :
  forall (A : Type) (decode decode_eof : list Z -> option A * list Z)
         (fuel extra : nat) (sc : list rd) (st : rstate),
  flags_ok st ->
  ~ In Panic (map fst (run_read decode decode_eof fuel extra sc st)).
Proof. exact read_no_panic. Qed.

(* ---- instances ---- *)
Theorem C13_lines_prefix_stable : prefix_stable Lines.decode.
Proof. exact lines_prefix_stable. Qed.
Theorem C13_lines_eof_idem : eof_idem Lines.decode_eof.
Proof. exact lines_eof_idem. Qed.
Theorem C13_lp_prefix_stable : prefix_stable lp_decode.
Proof. exact lp_prefix_stable. Qed.
Theorem C13_lp_eof_idem : eof_idem lp_decode_eof.
Proof. exact lp_eof_idem. Qed.

(* LinesCodec, fully concrete: the frames are the lines of C15's reference splitter applied to
   the whole stream, then the unterminated tail, then None — for every script. *)
Theorem C13_lines :
  forall (sc : list rd) (fuel : nat),
  (length sc + length (stream sc) + io_errors sc + 2 <= fuel)%nat ->
  frames (run_read Lines.decode Lines.decode_eof fuel 0 sc rinit)
  = map Item (fst (ref_lines (stream sc))) ++ map Item (ref_eof_tail (snd (ref_lines (stream sc)))) ++ [Done]
  /\ ioerrs (run_read Lines.decode Lines.decode_eof fuel 0 sc rinit) = io_errors sc.
Proof. exact lines_chunk_independent. Qed.

(* the length-prefixed test codec: its repeated decode always terminates, so the statement
   needs no hypothesis *)
Theorem C13_lp :
  forall sc : list rd,
  exists (its : list lpitem) (r : list Z) (its2 : list lpitem) (r2 : list Z),
    decodes lp_decode (stream sc) its r /\
    decodes lp_decode_eof r its2 r2 /\
    (forall fuel : nat,
       (length sc + length its + length its2 + io_errors sc + 1 <= fuel)%nat ->
       frames (run_read lp_decode lp_decode_eof fuel 0 sc rinit) = map Item its ++ map Item its2 ++ [Done]
       /\ ioerrs (run_read lp_decode lp_decode_eof fuel 0 sc rinit) = io_errors sc).
Proof. exact lp_chunk_independent. Qed.

Theorem C13_lp_frames :
  forall ps : list (list Z),
  Forall (fun p => (length p <= 254)%nat) ps ->
  decodes lp_decode (concat (map lp_frame ps)) (map LOk ps) [].
Proof. exact lp_decodes_frames. Qed.

(* BytesCodec is not prefix-stable (its frames are whatever is buffered); what is independent of
   the chunking is the concatenation: no byte lost, duplicated or reordered, no empty frame. *)
Theorem C13_bytes_not_prefix_stable : ~ prefix_stable bytes_decode.
Proof. exact bytes_not_prefix_stable. Qed.

Theorem C13_bytes :
  forall (sc : list rd) (fuel : nat),
  (length sc + length (stream sc) + 1 <= fuel)%nat ->
  exists ps : list (list Z),
    frames (run_read bytes_decode bytes_decode_eof fuel 0 sc rinit) = map bok ps ++ [Done] /\
    concat ps = stream sc /\
    Forall (fun p : list Z => p <> []) ps /\
    ioerrs (run_read bytes_decode bytes_decode_eof fuel 0 sc rinit) = io_errors sc.
Proof. exact bytes_concat. Qed.

(* ---- non-vacuity ---- *)
(* a CRLF line split inside the CRLF, a Pending, an I/O error while half a line is buffered,
   an invalid line, an unterminated tail, junk after the 0-byte read; two extra polls *)
Example C13_example_lines :
  map fst (run_read Lines.decode Lines.decode_eof 20 2
             [RChunk [97; 13]; RPending; RChunk [10; 98]; RErr; RChunk [10; 255; 10; 99]; REof; RChunk [100; 10]]
             rinit)
  = [Pending; Item (IOk [97]); IoError; Item (IOk [98]); Item IErr; Item (IOk [99]); Done; Done; Done].
Proof. vm_compute. reflexivity. Qed.

(* the hypotheses of C13_chunk_independent / C13_errors on that script *)
Example C13_example_decodes :
  decodes Lines.decode (stream [RChunk [97; 13]; RPending; RChunk [10; 98]; RErr; RChunk [10; 255; 10; 99]; REof; RChunk [100; 10]])
          [IOk [97]; IOk [98]; IErr] [99]
  /\ decodes Lines.decode_eof [99] [IOk [99]] [].
Proof. split; repeat (econstructor; [vm_compute; reflexivity|]); constructor; vm_compute; reflexivity. Qed.

Example C13_example_ref :
  ref Lines.decode Lines.decode_eof [] [RChunk [97; 13]; RPending; RChunk [10; 98]; RErr; RChunk [10; 255; 10; 99]; REof]
      [Item (IOk [97]); IoError; Item (IOk [98]); Item IErr; Item (IOk [99]); Done].
Proof.
  apply (ref_err _ _ _ [] _ [97; 13; 10; 98] [RChunk [10; 255; 10; 99]; REof] [IOk [97]] [98]);
    [reflexivity| |].
  - econstructor; [vm_compute; reflexivity|]. constructor. vm_compute. reflexivity.
  - apply (ref_eof _ _ _ [98] _ [10; 255; 10; 99] [IOk [98]; IErr] [99] [IOk [99]] []); [reflexivity| |].
    + repeat (econstructor; [vm_compute; reflexivity|]). constructor. vm_compute. reflexivity.
    + econstructor; [vm_compute; reflexivity|]. constructor. vm_compute. reflexivity.
Qed.

(* the length-prefixed codec: a frame split in the middle, a bad header, a truncated last frame *)
Example C13_example_lp :
  map fst (run_read lp_decode lp_decode_eof 20 1 [RChunk [2; 97]; RPending; RChunk [98; 255; 0; 3; 99]] rinit)
  = [Pending; Item (LOk [97; 98]); Item LBadHdr; Item (LOk []); Item LTrunc; Done; Done].
Proof. vm_compute. reflexivity. Qed.

(* BytesCodec: frames are the chunks *)
Example C13_example_bytes :
  map fst (run_read bytes_decode bytes_decode_eof 20 0 [RChunk [1; 2]; RPending; RChunk [3]; RErr] rinit)
  = [Item (BOk [1; 2]); Pending; Item (BOk [3]); IoError; Done].
Proof. vm_compute. reflexivity. Qed.

(* a codec with the PROVIDED decode_eof never ends a stream that stops inside a frame: the codec
   answers Err("bytes remaining on stream") without consuming, Framed relays it on every poll *)
Example C13_example_provided_eof :
  map fst (run_read lp_decode lpd_decode_eof 6 0 [RChunk [2; 97]] rinit)
  = [Item LRemaining; Item LRemaining; Item LRemaining; Item LRemaining; Item LRemaining; Item LRemaining].
Proof. vm_compute. reflexivity. Qed.

(* ---- end-of-stream frames that do not end ----
   `eoftr decode_eof b tr` (Proofs/FramedFacts.v): tr is an initial part — of any length — of what repeated
   decode_eof calls on buffer b yield: `Item a` for a frame, `Done` where it says None (the sequence stops there).
   C13_chunk_independent assumes that decode_eof eventually says None; without that assumption the frames of every
   script START with the frames of the whole stream followed by the codec's end-of-stream frames, as far as the
   polls reach (and if those include the None, that is all).  In particular the codec is asked at the 0-byte read
   also when the buffer is empty. *)
Theorem C13_chunk_independent_prefix :
  forall (A : Type) (decode decode_eof : list Z -> option A * list Z),
  prefix_stable decode ->
  forall (sc : list rd) (its : list A) (r : list Z) (tr2 : list (res A)) (fuel : nat),
  decodes decode (stream sc) its r ->
  eoftr decode_eof r tr2 ->
  (length sc + length its + length tr2 + io_errors sc <= fuel)%nat ->
  exists rest : list (res A),
    frames (run_read decode decode_eof fuel 0 sc rinit) = map Item its ++ tr2 ++ rest /\
    (In Done tr2 -> rest = []).
Proof. exact read_chunk_independent_prefix. Qed.

Theorem C13_errors_prefix :
  forall (A : Type) (decode decode_eof : list Z -> option A * list Z),
  prefix_stable decode ->
  forall (sc : list rd) (tr : list (res A)) (fuel : nat),
  gref decode decode_eof [] sc tr ->
  (length sc + length tr <= fuel)%nat ->
  exists rest : list (res A),
    results (run_read decode decode_eof fuel 0 sc rinit) = tr ++ rest /\ (In Done tr -> rest = []).
Proof. exact read_errors_prefix. Qed.

(* the reference sequences that reach None are exactly those of C13_errors *)
Theorem C13_gref_complete :
  forall (A : Type) (decode decode_eof : list Z -> option A * list Z) buf sc (tr : list (res A)),
  (ref decode decode_eof buf sc tr <-> gref decode decode_eof buf sc tr /\ In Done tr).
Proof.
  intros A decode decode_eof buf sc tr. split.
  - intros H. split; [exact (ref_gref _ _ _ _ _ _ H)|exact (ref_done _ _ _ _ _ _ H)].
  - intros [H1 H2]. exact (gref_complete _ _ _ _ _ _ H1 H2).
Qed.

(* the test codec with a trailer (an end marker produced by decode_eof on an EMPTY buffer, again and again): for
   every script and every k the frames are those of the whole stream, `Truncated` if it stops inside a frame, then
   the end marker k times — and the stream never yields None *)
Theorem C13_lps :
  forall (sc : list rd) (k : nat),
  exists (its : list lpitem) (r : list Z),
    decodes lp_decode (stream sc) its r /\
    (forall fuel : nat,
       (length sc + length its + 1 + k + io_errors sc <= fuel)%nat ->
       exists rest : list (res lpitem),
         frames (run_read lp_decode lps_decode_eof fuel 0 sc rinit)
         = map Item its ++ lps_tail r ++ repeat (Item LEnd) k ++ rest).
Proof. exact lps_chunk_independent. Qed.

(* a stream that ends exactly on a frame boundary, and the empty stream: the trailer is delivered on every poll *)
Example C13_example_trailer :
  map fst (run_read lp_decode lps_decode_eof 5 0 [RChunk [1; 97]; RPending; REof] rinit)
  = [Item (LOk [97]); Pending; Item LEnd; Item LEnd; Item LEnd]
  /\ map fst (run_read lp_decode lps_decode_eof 3 0 [] rinit) = [Item LEnd; Item LEnd; Item LEnd]
  /\ map fst (run_read lp_decode lps_decode_eof 4 0 [RChunk [2; 97]] rinit) = [Item LTrunc; Item LEnd; Item LEnd; Item LEnd].
Proof. vm_compute. auto. Qed.

Example C13_example_eoftr :
  eoftr lps_decode_eof [] [Item LEnd; Item LEnd] /\ eoftr lp_decode_eof [2; 97] [Item LTrunc; Done].
Proof.
  split.
  - exact (lps_eoftr_empty 2).
  - eapply eo_item; [vm_compute; reflexivity|]. eapply eo_done. vm_compute. reflexivity.
Qed.


Print Assumptions C13_chunk_independent.
Print Assumptions C13_errors.
Print Assumptions C13_errors_ref_exists.
Print Assumptions C13_fused.
Print Assumptions C13_no_debug_assert.
Print Assumptions C13_lines_prefix_stable.
Print Assumptions C13_lines_eof_idem.
Print Assumptions C13_lp_prefix_stable.
Print Assumptions C13_lp_eof_idem.
Print Assumptions C13_lines.
Print Assumptions C13_lp.
Print Assumptions C13_lp_frames.
Print Assumptions C13_bytes_not_prefix_stable.
Print Assumptions C13_bytes.
Print Assumptions C13_chunk_independent_prefix.
Print Assumptions C13_errors_prefix.
Print Assumptions C13_gref_complete.
Print Assumptions C13_lps.
