(* Props/C08.v — a faulted worker is detected, bypassed and replaced; the accept thread never panics or spins.
   ONLY statements, each closed by `exact <lemma>`, with Print Assumptions. *)
From Coq Require Import List ZArith NArith Bool.
From AN Require Import Model.Srv Proofs.SrvInv Proofs.SrvFault.
Import ListNotations.

(* For EVERY script — any number of worker deaths at any point (idle, partially loaded, saturated, inside the
   send/inc gap), any order of teardown of their outstanding connections, late availability notices, arrival of
   replacement handles, two or more simultaneous faults, pause/resume/stop, injected accept errors, any limit —
   the accept thread never indexes out of bounds, never hits the Availability panic, never divides by zero
   (err <> Some Panic) and every loop of it terminates within the model's fuel (err <> Some Spin).
   Hypotheses: 1..512 workers, listener tokens used by direct accept calls exist, respawned indices are < 512. *)
Theorem C08_no_panic_no_spin : forall (L : Z) W kinds os,
  1 <= W <= 512 -> forallb wf_op os = true -> forallb (tok_ok (length kinds)) os = true ->
  err (run L (init W kinds) os) = None.
Proof. exact no_panic_no_spin. Qed.

(* non-vacuity: the double-fault history that defeated the pinned tree (D2): worker 1 is saturated with its
   release notice queued, both workers die, the notice arrives after the removal; one replacement joins *)
Example C08_example :
  let os := [E (Connect 0 1); E (Connect 0 2); E (Connect 0 3); Turn [];
             E (Pick 1); E (Kill 0); E (Kill 1); E (Finish 1 2);
             E (Connect 0 4); AcceptTok 0 []; HandleWaker []; E (Respawn 0); HandleWaker [];
             E (Connect 0 5); Turn []] in
  forallb wf_op os = true /\ forallb (tok_ok 1) os = true /\
  let st := run 1 (init 2 [false]) os in
  err st = None /\ handles st = [2] /\ map (fun w => map c_id (w_queue w)) (ws st) = [[]; []; [4%N]] /\
  In (EvDropNoWorker 3) (trace st).
Proof. vm_compute. repeat split. auto 20. Qed.

Print Assumptions C08_no_panic_no_spin.
