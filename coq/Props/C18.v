(* Props/C18.v — TLS acceptors bound handshake time and concurrency (and carry data intact).
   ONLY statements, each closed by `exact <lemma>`, non-vacuity Examples, Print Assumptions.

   PARTIAL by nature.  Theorems: the logic that is actix-tls's own — AcceptorService::poll_ready /
   call, AcceptFut::poll, the Counter gate — for EVERY handshake behaviour (an arbitrary script of
   Pending / Done / Failed answers per future), every op sequence (any interleaving of readiness
   polls, calls, polls, drops and clock advances, including calls made without asking poll_ready),
   every capacity and timeout.  Oracles / environment models: the TLS handshake (rustls, OpenSSL),
   Tokio's Sleep ("Ready iff deadline <= now, else store the waker; wake it when the clock reaches
   the deadline").  "Bytes arrive unchanged" is NOT a theorem: it is the differential run of
   vp/props/c18.py.
   `reachable s` = s is the state after some op sequence from `init capacity`.
   The guard lives in the future: "a handshake ends" = the AcceptFut is dropped, which `.await`
   does in the same step in which poll returned Ready. *)
From AN Require Import Model.TlsAccept Proofs.TlsAcceptFacts Proofs.TlsNativeFacts.
From Coq Require Import Lia.

(* One poll of a live, unfinished accept future, completely: the handshake is polled (first, and
   exactly once), and the result is Ok / Tls e / Timeout / Pending as its answer and the clock
   dictate — exactly one of the three outcomes or Pending; Ready marks the future done. *)
Theorem C18_outcome : forall s id w f,
  lookup id (futs s) = Some f -> f_done f = false ->
  let a := hd HPending (f_script f) in
  let r := match a with
           | HDone => Ready OOk
           | HFailed e => Ready (OTls e)
           | HPending => if f_deadline f <=? now s then Ready OTimeout else Pending
           end in
  exists f',
    step s (PollFut id w) =
      (mkst (now s) (count s) (cap s) (parked s) (update id f' (futs s)),
       ObsHs id a :: match r with
                     | Pending => [ObsTimerReg id w (f_deadline f); ObsPoll id r]
                     | Ready _ => [ObsPoll id r]
                     end)
    /\ f_deadline f' = f_deadline f /\ f_script f' = tl (f_script f)
    /\ f_done f' = match r with Pending => false | Ready _ => true end
    /\ f_timer f' = match r with Pending => Some w | Ready _ => f_timer f end.
Proof. exact step_poll. Qed.

(* ... and afterwards the handshake is never polled again: a poll of a finished future is a caller
   error that touches nothing, and a finished future stays finished until it is dropped. *)
Theorem C18_outcome_once : forall s id w f,
  lookup id (futs s) = Some f -> f_done f = true -> step s (PollFut id w) = (s, [ObsMisuse id]).
Proof. exact step_poll_done. Qed.
Theorem C18_outcome_stable : forall s o id f f',
  lookup id (futs s) = Some f -> f_done f = true ->
  lookup id (futs (fst (step s o))) = Some f' -> Inv s ->
  f_done f' = true /\ f_script f' = f_script f /\ f_deadline f' = f_deadline f.
Proof. exact done_stable. Qed.

(* The deadline is t_call + timeout, fixed when `call` runs (not at the first poll), and it never
   moves while the future exists. *)
Theorem C18_deadline_at_call : forall s id sc tmo,
  lookup id (futs s) = None ->
  step s (Call id sc tmo) =
    (mkst (now s) (count s + 1) (cap s) (parked s) ((id, mkfut sc (now s + tmo) None false) :: futs s),
     [ObsCalled id (now s + tmo)]).
Proof. exact step_call. Qed.
Theorem C18_deadline_stable : forall s o id f f',
  lookup id (futs s) = Some f -> lookup id (futs (fst (step s o))) = Some f' -> Inv s ->
  f_deadline f' = f_deadline f.
Proof. exact deadline_stable. Qed.

(* Timeout is returned by a poll at time t iff the handshake answered Pending in that poll and
   t >= t_call + timeout. *)
Theorem C18_timeout_exact : forall t f,
  poll_spec t f = Ready OTimeout <-> hd HPending (f_script f) = HPending /\ f_deadline f <= t.
Proof. exact poll_timeout_iff. Qed.
(* Pending is returned iff the handshake answered Pending and the deadline has not been reached
   (C18_outcome: then the timer holds the poll's waker, registered for that deadline). *)
Theorem C18_pending_exact : forall t f,
  poll_spec t f = Pending <-> hd HPending (f_script f) = HPending /\ t < f_deadline f.
Proof. exact poll_pending_iff. Qed.
(* A handshake that completes (or fails) in the poll in which the deadline has passed wins. *)
Theorem C18_handshake_wins : forall t f,
  (hd HPending (f_script f) = HDone -> poll_spec t f = Ready OOk)
  /\ (forall e, hd HPending (f_script f) = HFailed e -> poll_spec t f = Ready (OTls e)).
Proof. exact poll_handshake_wins. Qed.

(* The clock reaching the deadline wakes the waker the last Pending poll left with the timer — in
   every reachable state, whatever else is going on on the thread ... *)
Theorem C18_deadline_wakes : forall s id f w d,
  reachable s -> lookup id (futs s) = Some f -> f_timer f = Some w -> f_deadline f <= now s + d ->
  In (ObsWake w) (snd (step s (Advance d))).
Proof. exact advance_wakes. Qed.
(* ... and the clock wakes nobody whose deadline it has not reached. *)
Theorem C18_no_early_wake : forall s d o,
  In o (snd (step s (Advance d))) ->
  exists id f w, o = ObsWake w /\ In (id, f) (futs s) /\ f_timer f = Some w
                 /\ now s < f_deadline f <= now s + d.
Proof. exact advance_only_due. Qed.
(* Never later than the deadline, for an executor that honours wake-ups: the Advance that reaches
   the deadline wakes the registered waker, and the poll this triggers resolves the call. *)
Theorem C18_resolves_at_deadline : forall s id f w d w',
  reachable s -> lookup id (futs s) = Some f -> f_done f = false -> f_timer f = Some w ->
  f_deadline f <= now s + d ->
  let s1 := fst (step s (Advance d)) in
  In (ObsWake w) (snd (step s (Advance d)))
  /\ now s1 = now s + d
  /\ exists o, In (ObsPoll id (Ready o)) (snd (step s1 (PollFut id w'))).
Proof. exact resolves_at_deadline. Qed.

(* poll_ready is Ready iff the number of accept futures in existence on this thread is below the
   maximum; otherwise it is Pending ... *)
Theorem C18_gate : forall s w, reachable s ->
  (In (ObsReady true) (snd (step s (PollReady w))) <-> N.of_nat (length (futs s)) < cap s)
  /\ (In (ObsReady false) (snd (step s (PollReady w))) <-> cap s <= N.of_nat (length (futs s))).
Proof. exact ready_iff_below_max. Qed.
(* ... and has parked the caller's waker. *)
Theorem C18_gate_parks : forall s w, cap s <= count s -> parked (fst (step s (PollReady w))) = Some w.
Proof. exact not_ready_parks. Qed.
(* At the maximum, the end (drop: `.await` completing, or cancellation) of ANY in-flight handshake
   wakes the parked caller and opens the gate. *)
Theorem C18_gate_wake : forall s id f w, reachable s ->
  lookup id (futs s) = Some f -> parked s = Some w -> N.of_nat (length (futs s)) = cap s ->
  let '(s', ob) := step s (DropFut id) in
  ob = [ObsWake w] /\ parked s' = None /\ N.of_nat (length (futs s')) < cap s' /\ lookup id (futs s') = None.
Proof. exact drop_at_max_wakes. Qed.
(* No lost wake-up in any interleaving (over-acquisition by calls that skipped poll_ready included):
   a waker is parked only while the gate is closed; so by the time the gate opens it has been woken. *)
Theorem C18_gate_no_lost_wakeup : forall s w, reachable s -> parked s = Some w ->
  cap s <= N.of_nat (length (futs s)).
Proof. exact parked_means_full. Qed.
(* A drop anywhere else (above the maximum, or below it) wakes nobody and leaves the parked waker. *)
Theorem C18_gate_drop_silent : forall s id f, reachable s ->
  lookup id (futs s) = Some f -> N.of_nat (length (futs s)) <> cap s ->
  let '(s', ob) := step s (DropFut id) in ob = [] /\ parked s' = parked s.
Proof. exact drop_elsewhere_silent. Qed.
(* The guard is held for the whole life of the future: polls (whatever they return) and the clock
   release nothing; a call always takes one slot (it does not ask the gate). *)
Theorem C18_guard_held : forall s o,
  match o with PollFut _ _ | Advance _ => True | _ => False end ->
  count (fst (step s o)) = count s /\ parked (fst (step s o)) = parked s
  /\ map fst (futs (fst (step s o))) = map fst (futs s).
Proof. exact gate_untouched. Qed.
Theorem C18_call_acquires : forall s id sc tmo, lookup id (futs s) = None ->
  length (futs (fst (step s (Call id sc tmo)))) = S (length (futs s))
  /\ parked (fst (step s (Call id sc tmo))) = parked s.
Proof. exact call_acquires. Qed.

(* The invariant behind the gate theorems holds in every reachable state. *)
Theorem C18_invariant : forall s, reachable s -> Inv s.
Proof. exact reachable_inv. Qed.

(* ---- the native-tls acceptor (accept/native_tls.rs): an async block instead of an AcceptFut struct.  Its runs are runs of the
   same model on the transformed script (Model/TlsAccept.v, Section Native); [is_native id] says which futures are native-tls
   ones, so one worker thread may mix back-ends.  Every theorem above about reachable states therefore holds of it too; what
   differs is stated exactly: the slot is free again inside the poll that completes, and the handshake deadline counts from the
   FIRST POLL of the future (a future nobody polls has no deadline). *)
Theorem C18_native_is_run : forall is_native ops s,
  run_ops s (native_script is_native s ops)
  = (fst (native_run is_native s ops), concat (snd (native_run is_native s ops))).
Proof. exact native_run_is_run. Qed.
Theorem C18_native_invariant : forall is_native c ops, Inv (fst (native_run is_native (init c) ops)).
Proof. exact native_run_inv. Qed.
Theorem C18_native_release_at_completion : forall is_native s id w,
  reachable s -> is_native id = true -> ready_poll (snd (step s (PollFut id w))) = true ->
  lookup id (futs (fst (native_step is_native s (PollFut id w)))) = None /\
  count (fst (native_step is_native s (PollFut id w))) = count s - 1 /\
  S (length (futs (fst (native_step is_native s (PollFut id w))))) = length (futs s).
Proof. exact native_release_at_completion. Qed.
Theorem C18_native_pending_holds : forall is_native s id w,
  ready_poll (snd (step s (PollFut id w))) = false ->
  native_step is_native s (PollFut id w) = step s (PollFut id w).
Proof. exact native_pending_poll_is_step. Qed.
Theorem C18_native_deadline_first_poll : forall is_native pre w post s id sc tmo,
  reachable s -> is_native id = true -> lookup id (futs s) = None -> forallb (quiet id) pre = true ->
  exists pre', shift_calls is_native (Call id sc tmo :: pre ++ PollFut id w :: post)
               = Call id sc (tmo + total_advance pre) :: pre' ++ shift_calls is_native (PollFut id w :: post) /\
    exists f, lookup id (futs (fst (native_run is_native s (Call id sc (tmo + total_advance pre) :: pre')))) = Some f /\
              f_deadline f = now (fst (native_run is_native s (Call id sc (tmo + total_advance pre) :: pre'))) + tmo /\
              f_done f = false /\ f_script f = sc.
Proof. exact native_deadline_first_poll. Qed.

(* ------------------------------------------------------------------ non-vacuity *)
(* capacity 1, timeout 3000: second caller parked; client stalls; timer fires at 3000 exactly; the
   woken poll returns Timeout; dropping the future wakes the parked caller; then the gate is open *)
Local Open Scope nat_scope.
Example C18_ex_timeout :
  run_from 1%N [PollReady 0; Call 0 [HPending; HPending] 3000%N; PollReady 2; PollFut 0 3;
              Advance 2999%N; PollFut 0 5; Advance 1%N; PollFut 0 7; DropFut 0; PollReady 9]
  = [[ObsReady true]; [ObsCalled 0 3000%N]; [ObsReady false; ObsParked 2];
     [ObsHs 0 HPending; ObsTimerReg 0 3 3000%N; ObsPoll 0 Pending];
     []; [ObsHs 0 HPending; ObsTimerReg 0 5 3000%N; ObsPoll 0 Pending];
     [ObsWake 5]; [ObsHs 0 HPending; ObsPoll 0 (Ready OTimeout)]; [ObsWake 2]; [ObsReady true]].
Proof. vm_compute. reflexivity. Qed.
(* the handshake completing in the poll after the deadline has passed wins; a failed one maps to Tls *)
Example C18_ex_wins :
  run_from 2%N [Call 0 [HPending; HDone] 100%N; Call 1 [HFailed 7%N] 100%N; PollFut 0 2; Advance 500%N;
              PollFut 0 4; PollFut 1 5; PollFut 0 6]
  = [[ObsCalled 0 100%N]; [ObsCalled 1 100%N];
     [ObsHs 0 HPending; ObsTimerReg 0 2 100%N; ObsPoll 0 Pending]; [ObsWake 2];
     [ObsHs 0 HDone; ObsPoll 0 (Ready OOk)]; [ObsHs 1 (HFailed 7%N); ObsPoll 1 (Ready (OTls 7%N))];
     [ObsMisuse 0]].
Proof. vm_compute. reflexivity. Qed.
(* hypotheses of the gate / deadline theorems are satisfiable in a reachable state *)
Example C18_ex_hyps :
  let s := fst (run (init 2%N) [Call 0 [] 100%N; Call 1 [] 200%N; PollReady 2; PollFut 1 3]) in
  reachable s /\ parked s = Some 2 /\ N.of_nat (length (futs s)) = cap s
  /\ exists f, lookup 1 (futs s) = Some f /\ f_done f = false /\ f_timer f = Some 3
               /\ (f_deadline f <= now s + 200)%N.
Proof.
  split; [exists 2%N, [Call 0 [] 100%N; Call 1 [] 200%N; PollReady 2; PollFut 1 3]; reflexivity|].
  vm_compute. repeat split. eexists. repeat split. discriminate.
Qed.

(* native-tls: called at 0, first polled at 700 with handshake_timeout 1000 — the deadline is 1700, not 1000; the poll that
   completes at 1700 also frees the slot (the parked caller 2 is woken by that poll, no drop needed) *)
Example C18_ex_native :
  let ops := shift_calls (fun _ => true)
               [Call 0 [HPending; HPending; HPending] 1000%N; PollReady 2; Advance 700%N; PollFut 0 3; Advance 400%N;
                PollFut 0 5; Advance 600%N; PollFut 0 7; PollReady 8] in
  ops = [Call 0 [HPending; HPending; HPending] 1700%N; PollReady 2; Advance 700%N; PollFut 0 3; Advance 400%N;
         PollFut 0 5; Advance 600%N; PollFut 0 7; PollReady 8]
  /\ snd (native_run (fun _ => true) (init 1%N) ops)
     = [[ObsCalled 0 1700%N]; [ObsReady false; ObsParked 2]; [];
        [ObsHs 0 HPending; ObsTimerReg 0 3 1700%N; ObsPoll 0 Pending]; [];
        [ObsHs 0 HPending; ObsTimerReg 0 5 1700%N; ObsPoll 0 Pending]; [ObsWake 5];
        [ObsHs 0 HPending; ObsPoll 0 (Ready OTimeout); ObsWake 2]; [ObsReady true]].
Proof. vm_compute. split; reflexivity. Qed.

Print Assumptions C18_outcome.
Print Assumptions C18_outcome_once.
Print Assumptions C18_outcome_stable.
Print Assumptions C18_deadline_at_call.
Print Assumptions C18_deadline_stable.
Print Assumptions C18_timeout_exact.
Print Assumptions C18_pending_exact.
Print Assumptions C18_handshake_wins.
Print Assumptions C18_deadline_wakes.
Print Assumptions C18_no_early_wake.
Print Assumptions C18_resolves_at_deadline.
Print Assumptions C18_gate.
Print Assumptions C18_gate_parks.
Print Assumptions C18_gate_wake.
Print Assumptions C18_gate_no_lost_wakeup.
Print Assumptions C18_gate_drop_silent.
Print Assumptions C18_guard_held.
Print Assumptions C18_call_acquires.
Print Assumptions C18_invariant.
Print Assumptions C18_native_is_run.
Print Assumptions C18_native_invariant.
Print Assumptions C18_native_release_at_completion.
Print Assumptions C18_native_pending_holds.
Print Assumptions C18_native_deadline_first_poll.
