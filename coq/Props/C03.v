(* Props/C03.v — back-pressure releases: no lost wake-up.
   ONLY statements, each closed by `exact <lemma>`, with Print Assumptions. *)
From Coq Require Import List ZArith NArith Bool.
From AN Require Import Model.Srv Proofs.SrvInv Proofs.SrvTheorems.
Import ListNotations.

(* In every state reachable by a fault-free script, for every limit L >= 1 (including 1):
   - a worker that the accept loop has flagged unavailable and that has no WorkerAvailable notice of its own in
     the waker queue has exactly L connections in progress (so the flag is never stale once notices are
     processed: no wake-up is lost);
   - a worker with spare capacity is flagged available, or exactly one notice for it is queued (and the mio
     waker has been fired for it: Model/Srv.v `wake`);
   - a flagged worker has spare capacity. *)
Theorem C03_no_lost_wakeup : forall (L : Z) W kinds os,
  (1 <= L)%Z -> 1 <= W <= 512 ->
  forallb nf_op os = true -> forallb (tok_ok (length kinds)) os = true ->
  let st := run L (init W kinds) os in
  forall g w, nth_error (ws st) g = Some w ->
    (getb (av st) (N.of_nat g) = false -> nwakes (N.of_nat g) (wq st) = 0 ->
       (Z.of_nat (length (w_queue w)) + Z.of_nat (length (w_picked w)) = L)%Z) /\
    ((Z.of_nat (length (w_queue w)) + Z.of_nat (length (w_picked w)) < L)%Z ->
       getb (av st) (N.of_nat g) = true \/ nwakes (N.of_nat g) (wq st) = 1) /\
    (getb (av st) (N.of_nat g) = true ->
       (Z.of_nat (length (w_queue w)) + Z.of_nat (length (w_picked w)) < L)%Z).
Proof. exact no_lost_wakeup. Qed.

(* non-vacuity, limit 1: the only connection of worker 0 finishes; the notice is queued (one), the next
   turn re-arms the worker and the waiting client is dispatched to it *)
Example C03_example :
  let os1 := [E (Connect 0 1); E (Connect 0 2); Turn []; E (Pick 0); E (Finish 0 1)] in
  let st1 := run 1 (init 1 [false]) os1 in
  let st2 := run 1 st1 [Turn []] in
  (getb (av st1) 0, nwakes 0 (wq st1), map (fun w => length (w_queue w)) (ws st1)) = (false, 1, [0]) /\
  (map (fun w => map c_id (w_queue w)) (ws st2)) = [[2%N]].
Proof. vm_compute. split; reflexivity. Qed.

Print Assumptions C03_no_lost_wakeup.
