(* Model/TlsAccept.v — executable model of the TLS acceptor services of actix-tls
     accept/mod.rs (MAX_CONN / MAX_CONN_COUNTER), accept/rustls_0_2x.rs, accept/openssl.rs
     (AcceptorService::poll_ready / call, AcceptFut::poll) and of the part of
     actix-utils/src/counter.rs + local-waker they use.
   No proofs here (Proofs/TlsAcceptFacts.v).

   One state = one worker thread: the thread-local Counter (shared by every acceptor service
   of every back-end created on the thread), the accept futures in flight, a virtual clock in
   milliseconds.  The TLS handshake itself is an oracle: a script of answers, one per poll of
   the handshake future (an exhausted script keeps answering Pending: a stalled client).
   Tokio's Sleep is an environment model: polled at `now` it is Ready iff deadline <= now,
   otherwise it stores the waker; when the clock reaches the deadline the stored waker is
   woken once.  Wakers are numbers. *)
From Coq Require Export List NArith Bool.
Export ListNotations.
Open Scope N_scope.

Definition waker := nat.

Inductive hs_ans := HPending | HDone | HFailed (e : N).

Inductive outcome := OOk | OTls (e : N) | OTimeout.     (* Ok(stream) | Err(TlsError::Tls e) | Err(TlsError::Timeout) *)
Inductive pres := Pending | Ready (o : outcome).

(* AcceptFut { fut / stream, timeout: Sleep, _guard: CounterGuard } *)
Record fut := mkfut {
  f_script : list hs_ans;      (* what the handshake will answer to the polls still to come *)
  f_deadline : N;              (* Sleep's deadline = time of `call` + handshake_timeout *)
  f_timer : option waker;      (* waker stored in the Sleep's timer entry *)
  f_done : bool                (* poll has returned Ready *)
}.

Record st := mkst {
  now : N;
  count : N;                   (* CounterInner.count *)
  cap : N;                     (* CounterInner.capacity = MAX_CONN when the thread-local was initialised *)
  parked : option waker;       (* CounterInner.task : LocalWaker *)
  futs : list (nat * fut)      (* accept futures that exist (created by call, not yet dropped) *)
}.

Definition init (capacity : N) : st := mkst 0 0 capacity None [].

Inductive op :=
| PollReady (w : waker)                              (* AcceptorService::poll_ready with waker w *)
| Call (id : nat) (script : list hs_ans) (tmo : N)   (* AcceptorService::call(io): the future gets name id *)
| PollFut (id : nat) (w : waker)                     (* AcceptFut::poll with waker w *)
| DropFut (id : nat)                                 (* drop(AcceptFut) — `.await` does it right after Ready *)
| Advance (d : N).                                   (* the clock moves on by d ms *)

Inductive obs :=
| ObsReady (b : bool)                        (* poll_ready returned Ready(Ok(())) / Pending *)
| ObsParked (w : waker)                      (* Counter::available registered w *)
| ObsCalled (id : nat) (deadline : N)
| ObsHs (id : nat) (a : hs_ans)              (* the handshake was polled and answered a *)
| ObsTimerReg (id : nat) (w : waker) (deadline : N)   (* the Sleep was polled, not elapsed, holds w now *)
| ObsPoll (id : nat) (r : pres)              (* what AcceptFut::poll returned *)
| ObsMisuse (id : nat)                       (* caller error: poll after Ready / unknown id / id reused *)
| ObsWake (w : waker).

Fixpoint lookup (id : nat) (l : list (nat * fut)) : option fut :=
  match l with
  | [] => None
  | (k, f) :: t => if Nat.eqb k id then Some f else lookup id t
  end.

Fixpoint update (id : nat) (g : fut) (l : list (nat * fut)) : list (nat * fut) :=
  match l with
  | [] => []
  | (k, f) :: t => if Nat.eqb k id then (k, g) :: t else (k, f) :: update id g t
  end.

Fixpoint remove (id : nat) (l : list (nat * fut)) : list (nat * fut) :=
  match l with
  | [] => []
  | (k, f) :: t => if Nat.eqb k id then t else (k, f) :: remove id t
  end.

(* Counter::available *)
Definition available (s : st) : bool := count s <? cap s.

(* AcceptFut::poll: the handshake first; only if it is pending, the timer *)
Definition poll_fut (t : N) (w : waker) (f : fut) : fut * hs_ans * pres :=
  let a := hd HPending (f_script f) in
  let rest := tl (f_script f) in
  match a with
  | HDone => (mkfut rest (f_deadline f) (f_timer f) true, a, Ready OOk)
  | HFailed e => (mkfut rest (f_deadline f) (f_timer f) true, a, Ready (OTls e))
  | HPending =>
      if f_deadline f <=? t
      then (mkfut rest (f_deadline f) (f_timer f) true, a, Ready OTimeout)
      else (mkfut rest (f_deadline f) (Some w) false, a, Pending)
  end.

(* the timer wheel: entries whose deadline is reached by moving from t0 to t1 fire their waker *)
Definition crosses (t0 t1 : N) (f : fut) : bool := (t0 <? f_deadline f) && (f_deadline f <=? t1).

Fixpoint fire (t0 t1 : N) (l : list (nat * fut)) : list (nat * fut) * list obs :=
  match l with
  | [] => ([], [])
  | (k, f) :: t =>
      let '(t', ws) := fire t0 t1 t in
      match f_timer f with
      | Some w => if crosses t0 t1 f
                  then ((k, mkfut (f_script f) (f_deadline f) None (f_done f)) :: t', ObsWake w :: ws)
                  else ((k, f) :: t', ws)
      | None => ((k, f) :: t', ws)
      end
  end.

Definition step (s : st) (o : op) : st * list obs :=
  match o with
  | PollReady w =>
      if available s then (s, [ObsReady true])
      else (mkst (now s) (count s) (cap s) (Some w) (futs s), [ObsReady false; ObsParked w])
  | Call id script tmo =>
      match lookup id (futs s) with
      | Some _ => (s, [ObsMisuse id])
      | None =>
          (* sleep(handshake_timeout) and conns.get() both happen here, not at the first poll *)
          let dl := now s + tmo in
          (mkst (now s) (count s + 1) (cap s) (parked s) ((id, mkfut script dl None false) :: futs s),
           [ObsCalled id dl])
      end
  | PollFut id w =>
      match lookup id (futs s) with
      | None => (s, [ObsMisuse id])
      | Some f =>
          if f_done f then (s, [ObsMisuse id])
          else
            let '(f', a, r) := poll_fut (now s) w f in
            (mkst (now s) (count s) (cap s) (parked s) (update id f' (futs s)),
             ObsHs id a ::
             match r with
             | Pending => [ObsTimerReg id w (f_deadline f); ObsPoll id r]
             | Ready _ => [ObsPoll id r]
             end)
      end
  | DropFut id =>
      match lookup id (futs s) with
      | None => (s, [])
      | Some _ =>
          (* CounterGuard::drop -> CounterInner::dec: wake iff the count was exactly the capacity *)
          let full := count s =? cap s in
          (mkst (now s) (count s - 1) (cap s) (if full then None else parked s) (remove id (futs s)),
           if full then match parked s with Some w => [ObsWake w] | None => [] end else [])
      end
  | Advance d =>
      let t1 := now s + d in
      let '(l, ws) := fire (now s) t1 (futs s) in
      (mkst t1 (count s) (cap s) (parked s) l, ws)
  end.

Fixpoint run (s : st) (ops : list op) : st * list (list obs) :=
  match ops with
  | [] => (s, [])
  | o :: t => let '(s1, ob) := step s o in
              let '(s2, obs) := run s1 t in (s2, ob :: obs)
  end.

Definition run_from (capacity : N) (ops : list op) : list (list obs) := snd (run (init capacity) ops).

(* ---------- the native-tls acceptor (accept/native_tls.rs) as a script transformation ----------
   Its accept future is an async block, not an AcceptFut struct:
     * `timeout(dur, acceptor.accept(io))` is created when the block is first polled, so the deadline is
       first-poll time + handshake_timeout, not call time + handshake_timeout;
     * the CounterGuard is a local of the block: it is released when the block finishes, i.e. inside the poll that returns
       Ready, and dropping the finished future later changes nothing.
   Both are expressed exactly by rewriting the operations on native futures: [Call] gets the time until the first poll of that
   future added to its timeout (a future that is never polled never times out), and a [PollFut] that returns Ready is followed
   at once by [DropFut] (a later DropFut of that id finds nothing).  [is_native id] says which futures are native-tls ones. *)
Section Native.
  Variable is_native : nat -> bool.

  (* time that passes until the first poll of future id in the rest of the script; None: never polled *)
  Fixpoint delay_to_first_poll (id : nat) (ops : list op) : option N :=
    match ops with
    | [] => None
    | PollFut i _ :: t => if Nat.eqb i id then Some 0 else delay_to_first_poll id t
    | Advance d :: t => match delay_to_first_poll id t with Some x => Some (d + x) | None => None end
    | _ :: t => delay_to_first_poll id t
    end.

  Definition never : N := 1000000000.

  Definition shift_call (o : op) (rest : list op) : op :=
    match o with
    | Call id sc tmo =>
        if is_native id then Call id sc (tmo + match delay_to_first_poll id rest with Some d => d | None => never end)
        else o
    | _ => o
    end.

  Fixpoint shift_calls (ops : list op) : list op :=
    match ops with
    | [] => []
    | o :: t => shift_call o t :: shift_calls t
    end.

  Definition ready_poll (ob : list obs) : bool :=
    existsb (fun x => match x with ObsPoll _ (Ready _) => true | _ => false end) ob.

  (* the operations actually executed for one (shifted) operation, given the state it is executed in *)
  Definition native_expand (s : st) (o : op) : list op :=
    match o with
    | PollFut id _ => if is_native id && ready_poll (snd (step s o)) then [o; DropFut id] else [o]
    | _ => [o]
    end.

  Fixpoint run_ops (s : st) (ops : list op) : st * list obs :=
    match ops with
    | [] => (s, [])
    | o :: t => let '(s1, ob) := step s o in let '(s2, ob2) := run_ops s1 t in (s2, ob ++ ob2)
    end.

  (* one script operation: state afterwards and everything observed during it *)
  Definition native_step (s : st) (o : op) : st * list obs := run_ops s (native_expand s o).

  Fixpoint native_run (s : st) (ops : list op) : st * list (list obs) :=
    match ops with
    | [] => (s, [])
    | o :: t => let '(s1, ob) := native_step s o in
                let '(s2, obs) := native_run s1 t in (s2, ob :: obs)
    end.

  (* the ordinary script whose run is the native run *)
  Fixpoint native_script (s : st) (ops : list op) : list op :=
    match ops with
    | [] => []
    | o :: t => native_expand s o ++ native_script (fst (native_step s o)) t
    end.
End Native.
