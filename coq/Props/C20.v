(* Props/C20.v — ByteString is always valid UTF-8 and agrees with str.
   ONLY statements, each closed by `exact <lemma>`, non-vacuity Examples, Print Assumptions.

   Reading guide.  A ByteString is the byte list of its inner `Bytes` (Model/BStr.v part 2), a
   `str` is a byte list s with `valid s = true`, where `valid` (Base/Utf8.v) is the Table 3-7
   DFA that `core::str::from_utf8` implements (trusted, validated by the correspondence run;
   C20_utf8_definition ties the DFA to the definition of UTF-8).  `None` means "panics" for
   split_at / str_split_at / str_slice / slice_ref and "Err(Utf8Error)" for try_from_k.
   The machine of part 3 (`run`) executes arbitrary sequences of safe-API calls over a heap of
   shared immutable buffers, which is what `Bytes` is and what `slice_ref` inspects. *)
From AN Require Import Model.BStr Proofs.Utf8Facts Proofs.BStrFacts.

(* Whatever sequence of safe-API calls is made (new/Default, From<&str|String|Box<str>>,
   from_static, the six TryFrom families, TryFrom<Bytes> on a shared sub-slice of an existing
   value, split_at, slice_ref, clone) — assuming only that `&str` arguments created outside the
   crate are strs (`op_ok`) — every ByteString in existence holds valid UTF-8, which is the
   precondition of `from_utf8_unchecked` in Deref; its window lies inside its buffer; and every
   value ever returned was valid UTF-8 when it was returned (`c20_ok` on the observable trace).
   Proof: induction over the call sequence with the invariant `BStrFacts.inv`. *)
Theorem C20_invariant : forall ops, forallb op_ok ops = true ->
  let s := fst (run ops) in
  Forall (fun v => valid (deref (bytes_of (heap s) v)) = true /\
                   length (bytes_of (heap s) v) = v_len v) (pool s)
  /\ c20_ok (snd (run ops)) = true.
Proof. exact run_invariant. Qed.

(* The crux: splitting valid UTF-8 at a char boundary gives valid UTF-8 on both sides. *)
Theorem C20_split_valid : forall l i,
  valid l = true -> boundary l i = true -> (i <= length l)%nat ->
  valid (firstn i l) = true /\ valid (skipn i l) = true.
Proof. exact split_valid. Qed.

(* split_at panics iff mid is past the end or not a char boundary — which is exactly when
   str::split_at on the dereferenced str panics. *)
Theorem C20_split_panics_iff : forall x mid,
  (split_at x mid = None <-> (length x < mid)%nat \/ boundary x mid = false) /\
  (split_at x mid = None <-> str_split_at (deref x) mid = None).
Proof. exact split_panics_iff. Qed.

(* When it does not panic it returns what str::split_at returns: the two halves of the bytes,
   both valid. *)
Theorem C20_split_agrees : forall x mid a b, valid x = true -> split_at x mid = Some (a, b) ->
  str_split_at (deref x) mid = Some (a, b) /\ a = firstn mid x /\ b = skipn mid x /\ a ++ b = x /\
  valid a = true /\ valid b = true.
Proof. exact split_agrees. Qed.

(* Every fallible constructor (k ranges over &[u8], Vec<u8>, Bytes, BytesMut, [u8; N], &[u8; N])
   is str::from_utf8: it accepts exactly the valid byte strings and keeps the bytes. *)
Theorem C20_try_from : forall k b,
  try_from_k k b = str_from_utf8 b /\
  (forall x, try_from_k k b = Some x <-> valid b = true /\ as_bytes x = b) /\
  (try_from_k k b = None <-> valid b = false).
Proof. exact try_from_exact. Qed.

(* The infallible constructors (k ranges over &str, String, Box<str>, from_static) keep the bytes
   of the str they get. *)
Theorem C20_from : forall k s, valid s = true ->
  as_bytes (from_k k s) = s /\ valid (deref (from_k k s)) = true /\ valid (deref new) = true.
Proof. exact from_exact. Qed.

(* `&x[a..b]` through Deref panics iff the range is reversed or an end is not a char boundary;
   otherwise it is valid UTF-8, it is the byte range a..b, and `x.slice_ref(&x[a..b])` (the
   subset sits `a` bytes after x's first byte) returns exactly it. *)
Theorem C20_slice : forall x a b, valid x = true ->
  (str_slice (deref x) a b = None <->
     (b < a)%nat \/ boundary x a = false \/ boundary x b = false) /\
  (forall l, str_slice (deref x) a b = Some l ->
     valid l = true /\ l = firstn (b - a) (skipn a x) /\
     slice_ref x (Z.of_nat a) (length l) = Some l).
Proof. exact slice_agrees. Qed.

(* Conversely every non-empty valid byte range of a valid string lies between two char
   boundaries: a `&str` that points into a ByteString's bytes is always some `&x[a..b]`. *)
Theorem C20_slice_converse : forall l a n,
  valid l = true -> (a + n <= length l)%nat -> (0 < n)%nat ->
  valid (firstn n (skipn a l)) = true ->
  boundary l a = true /\ boundary l (a + n) = true.
Proof. exact valid_slice_boundaries. Qed.

(* slice_ref by address: `off` = address of the subset minus address of x's first byte.  It
   panics iff the subset is non-empty and not inside x's bytes ... *)
Theorem C20_slice_ref_panics_iff : forall x off n,
  slice_ref x off n = None <->
  n <> 0%nat /\ (off < 0 \/ Z.of_nat (length x) < off + Z.of_nat n).
Proof. exact slice_ref_none_iff. Qed.

(* ... and otherwise returns exactly the subset (hence a str), given that memory is coherent:
   a subset lying inside x's bytes has the bytes x has there. *)
Theorem C20_slice_ref_subset : forall x off sub l,
  (0 <= off -> off + Z.of_nat (length sub) <= Z.of_nat (length x) ->
   sub = firstn (length sub) (skipn (Z.to_nat off) x)) ->
  slice_ref x off (length sub) = Some l -> l = sub.
Proof. exact slice_ref_subset. Qed.

(* The same two facts in the machine, where coherence is not assumed but follows from the heap:
   for any `&str` argument, slice_ref panics or returns exactly that str; and for a subset
   `&pool[j][a..b]` it panics iff the subset is non-empty and lies in another buffer or
   outside pool[i]'s window. *)
Theorem C20_slice_ref_machine : forall s i x v loc l, inv s -> src_ok x = true ->
  nth_error (pool s) i = Some v -> eval_src s x = SStr loc l ->
  snd (step s (OSliceRef i x)) = Panicked \/ snd (step s (OSliceRef i x)) = Made [l].
Proof. exact step_slice_ref_obs. Qed.

Theorem C20_slice_ref_machine_panics : forall s i j a b v w l, inv s ->
  nth_error (pool s) i = Some v -> nth_error (pool s) j = Some w ->
  str_slice (bytes_of (heap s) w) a b = Some l ->
  (snd (step s (OSliceRef i (SSub j a b))) = Panicked <->
   l <> [] /\ (v_alloc w <> v_alloc v \/ (v_start w + a < v_start v)%nat \/
               (v_start v + v_len v < v_start w + b)%nat)).
Proof. exact step_slice_ref_panics. Qed.

(* Comparison, hashing, Display, conversion back to String are the str operations on the same
   bytes.  What is proved, precisely: ByteString's `==` is `str`'s `==` on the dereferenced
   values and decides equality of the bytes; the derived Ord (Bytes' Ord = `[u8]::cmp`, bytewise
   lexicographic) is `str`'s Ord (`as_bytes().cmp`, also bytewise lexicographic — in the model
   both are the same function, so this conjunct is by definition; C20_order_is_code_point_order
   says what that order means), is antisymmetric, is Eq exactly on equal bytes and is consistent
   with `==`; Hash feeds the hasher what `str` feeds it (bytes then 0xFF), injectively;
   Display/to_string/String::from give back the bytes; ByteString::from(String::from(x)) = x. *)
Theorem C20_agree : forall x y,
  eq x y = str_eq (deref x) (deref y) /\ (eq x y = true <-> x = y) /\
  cmp x y = str_cmp (deref x) (deref y) /\ (cmp x y = Eq <-> x = y) /\
  cmp y x = CompOpp (cmp x y) /\
  eq x y = match cmp x y with Eq => true | _ => false end /\
  hash_input x = str_hash_input (deref x) /\ (hash_input x = hash_input y -> x = y) /\
  display x = str_display (deref x) /\ to_string x = str_to_string (deref x) /\
  into_string x = deref x /\ from_string (into_string x) = x /\ into_bytes x = as_bytes x.
Proof. exact agree. Qed.

Theorem C20_cmp_trans : forall x y z, cmp x y = Lt -> cmp y z = Lt -> cmp x z = Lt.
Proof. exact cmp_trans. Qed.

(* The hash input of a valid string is self-delimiting (0xFF never occurs in UTF-8). *)
Theorem C20_hash_prefix_free : forall x y r r', valid x = true -> valid y = true ->
  hash_input x ++ r = hash_input y ++ r' -> x = y /\ r = r'.
Proof. exact hash_input_prefix_free. Qed.

(* Concatenation (used for a ++ b = x above in the other direction). *)
Theorem C20_valid_app : forall a b, valid a = true -> valid b = true -> valid (a ++ b) = true.
Proof. exact valid_app. Qed.

(* The DFA is UTF-8: it accepts exactly the concatenations of the encodings (Table 3-6) of
   Unicode scalar values — code points 0..10FFFF without the surrogates D800..DFFF.
   Secondary goal; no theorem above depends on it. *)
Theorem C20_utf8_definition : forall l,
  valid l = true <-> exists cs, Forall (fun c => scalar c = true) cs /\ l = encode_scalars cs.
Proof. exact valid_iff_scalars. Qed.

(* What the common order is: comparing two valid strings bytewise is comparing their sequences of
   scalar values (code points) lexicographically — the second half of Rust's documentation of
   `impl Ord for str`.  `bytes_cmp cs ds` on the right compares lists of code points. *)
Theorem C20_order_is_code_point_order : forall x y, valid x = true -> valid y = true ->
  exists cs ds, Forall (fun c => scalar c = true) cs /\ Forall (fun c => scalar c = true) ds /\
                x = encode_scalars cs /\ y = encode_scalars ds /\
                cmp x y = bytes_cmp cs ds /\ str_cmp (deref x) (deref y) = bytes_cmp cs ds.
Proof. exact cmp_code_points. Qed.

(* ... and the decoding is unique, so "the" sequence of code points of a ByteString exists. *)
Theorem C20_decode_unique : forall cs ds,
  Forall (fun c => scalar c = true) cs -> Forall (fun c => scalar c = true) ds ->
  encode_scalars cs = encode_scalars ds -> cs = ds.
Proof. exact encode_scalars_inj. Qed.

(* ---- non-vacuity ---- *)
(* "Aé€" split at 3 (between é and €); 1, 2, 4, 5 are inside sequences and 7 is past the end *)
Example C20_split_example :
  valid [65; 195; 169; 226; 130; 172] = true /\
  map (boundary [65; 195; 169; 226; 130; 172]) [0; 1; 2; 3; 4; 5; 6; 7]%nat
    = [true; true; false; true; false; false; true; false] /\
  split_at [65; 195; 169; 226; 130; 172] 3 = Some ([65; 195; 169], [226; 130; 172]) /\
  split_at [65; 195; 169; 226; 130; 172] 4 = None /\
  split_at [65; 195; 169; 226; 130; 172] 7 = None.
Proof. vm_compute. repeat split. Qed.

(* overlong, surrogate, > 10FFFF, truncated and stray-continuation inputs are rejected by every
   constructor; a 4-byte scalar is accepted *)
Example C20_try_from_example :
  map (try_from_k KVec) [[192; 128]; [237; 160; 128]; [244; 144; 128; 128]; [226; 130]; [128]; [255]]
    = [None; None; None; None; None; None] /\
  try_from_k KBytesMut [240; 159; 152; 128] = Some [240; 159; 152; 128].
Proof. vm_compute. split; reflexivity. Qed.

Example C20_slice_example :
  str_slice [65; 195; 169; 226; 130; 172] 1 3 = Some [195; 169] /\
  str_slice [65; 195; 169; 226; 130; 172] 1 4 = None /\
  slice_ref [65; 195; 169; 226; 130; 172] 1 2 = Some [195; 169] /\
  slice_ref [65; 195; 169; 226; 130; 172] (-1) 2 = None /\
  slice_ref [65; 195; 169; 226; 130; 172] 5 2 = None /\
  slice_ref [65; 195; 169; 226; 130; 172] 9 0 = Some [].
Proof. vm_compute. repeat split. Qed.

(* a construction sequence through every kind of op: "Aé€" from a Vec, split at 3, a shared
   Bytes sub-slice that is not UTF-8 (Err) and one that is, slice_ref of a subset of the parent
   on a child (inside its window; outside its window: panic), a foreign literal (panic), an
   empty foreign literal (fine), a split inside a sequence (panic) *)
Example C20_invariant_example :
  let ops := [OTry KVec [65; 195; 169; 226; 130; 172]; OSplit 0 3; OTryShared 0 2 4;
              OTryShared 0 1 3; OSliceRef 1 (SSub 0 1 3); OSliceRef 2 (SSub 0 1 3);
              OSliceRef 0 (SLit [65]); OSliceRef 0 (SLit []); OSplit 0 2;
              OFrom FBox (SSub 2 0 3); ONew; OClone 3; OTry KArr [237; 160; 128]] in
  forallb op_ok ops = true /\
  snd (run ops) =
    [Made [[65; 195; 169; 226; 130; 172]]; Made [[65; 195; 169]; [226; 130; 172]]; Error;
     Made [[195; 169]]; Made [[195; 169]]; Panicked; Panicked; Made [[]]; Panicked;
     Made [[226; 130; 172]]; Made [[]]; Made [[195; 169]]; Error].
Proof. vm_compute. split; reflexivity. Qed.

(* U+FFFF < U+10000 although ef > f0 is false: ef bf bf < f0 90 80 80 bytewise as well *)
Example C20_order_example :
  cmp (encode_scalars [65; 65535]) (encode_scalars [65; 65536]) = Lt /\
  bytes_cmp [65; 65535] [65; 65536] = Lt /\ cmp (encode_scalars [233]) (encode_scalars [122]) = Gt.
Proof. vm_compute. repeat split. Qed.

(* the hypotheses of the machine-level slice_ref theorems hold in a reachable state: pool[0] = "Aé€"
   (buffer 1), pool[1], pool[2] its halves; the subset &pool[0][1..3] = "é" lies inside pool[1]'s
   window and outside pool[2]'s *)
Example C20_slice_ref_machine_example :
  let s := fst (run [OTry KVec [65; 195; 169; 226; 130; 172]; OSplit 0 3]) in
  inv s /\ src_ok (SSub 0 1 3) = true /\
  nth_error (pool s) 1 = Some (mkview 1 0 3) /\ nth_error (pool s) 2 = Some (mkview 1 3 3) /\
  nth_error (pool s) 0 = Some (mkview 1 0 6) /\
  eval_src s (SSub 0 1 3) = SStr (Some (1, 1)%nat) [195; 169] /\
  str_slice (bytes_of (heap s) (mkview 1 0 6)) 1 3 = Some [195; 169] /\
  snd (step s (OSliceRef 1 (SSub 0 1 3))) = Made [[195; 169]] /\
  snd (step s (OSliceRef 2 (SSub 0 1 3))) = Panicked.
Proof. split; [apply run_inv; reflexivity|]. vm_compute. repeat split. Qed.

(* "é" = bytes 1..3 of "Aé€" is valid, so 1 and 3 are boundaries; memory coherence for it *)
Example C20_slice_converse_example :
  valid [65; 195; 169; 226; 130; 172] = true /\ (1 + 2 <= length [65; 195; 169; 226; 130; 172])%nat /\
  valid (firstn 2 (skipn 1 [65; 195; 169; 226; 130; 172])) = true /\
  [195; 169] = firstn (length [195; 169]) (skipn (Z.to_nat 1) [65; 195; 169; 226; 130; 172]) /\
  slice_ref [65; 195; 169; 226; 130; 172] 1 (length [195; 169]) = Some [195; 169].
Proof. vm_compute. repeat split. repeat constructor. Qed.

Example C20_cmp_trans_example :
  cmp [65] [65; 195; 169] = Lt /\ cmp [65; 195; 169] [226; 130; 172] = Lt /\ cmp [65] [226; 130; 172] = Lt.
Proof. vm_compute. repeat split. Qed.

Example C20_hash_prefix_free_example :
  valid [195; 169] = true /\ valid [] = true /\
  hash_input [195; 169] ++ hash_input [] = [195; 169; 255; 255] /\
  hash_input [] ++ hash_input [195; 169] = [255; 195; 169; 255].
Proof. vm_compute. repeat split. Qed.

Example C20_valid_app_example :
  valid [195; 169] = true /\ valid [226; 130; 172] = true /\ valid ([195; 169] ++ [226; 130; 172]) = true /\
  valid ([195] ++ [169]) = true /\ valid [195] = false.
Proof. vm_compute. repeat split. Qed.

Example C20_agree_example :
  cmp [65] [65; 195; 169] = Lt /\ cmp [195; 169] [90] = Gt /\ eq [195; 169] [195; 169] = true /\
  hash_input [195; 169] = [195; 169; 255].
Proof. vm_compute. repeat split. Qed.

(* U+0041, U+00E9, U+20AC, U+1F600 *)
Example C20_utf8_definition_example :
  encode_scalars [65; 233; 8364; 128512] = [65; 195; 169; 226; 130; 172; 240; 159; 152; 128] /\
  forallb scalar [65; 233; 8364; 128512] = true /\ scalar 55296 = false /\ scalar 1114112 = false.
Proof. vm_compute. repeat split. Qed.

Print Assumptions C20_invariant.
Print Assumptions C20_split_valid.
Print Assumptions C20_split_panics_iff.
Print Assumptions C20_split_agrees.
Print Assumptions C20_try_from.
Print Assumptions C20_from.
Print Assumptions C20_slice.
Print Assumptions C20_slice_converse.
Print Assumptions C20_slice_ref_panics_iff.
Print Assumptions C20_slice_ref_subset.
Print Assumptions C20_slice_ref_machine.
Print Assumptions C20_slice_ref_machine_panics.
Print Assumptions C20_agree.
Print Assumptions C20_cmp_trans.
Print Assumptions C20_hash_prefix_free.
Print Assumptions C20_valid_app.
Print Assumptions C20_utf8_definition.
Print Assumptions C20_order_is_code_point_order.
Print Assumptions C20_decode_unique.
