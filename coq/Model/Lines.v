(* Model/Lines.v — executable model of actix-codec/src/lines.rs (LinesCodec).
   No proofs here (Proofs/LinesFacts.v).  A buffer is a list of bytes (Z). *)
From AN Require Export Base.Utf8.

Inductive item := IOk (s : list Z) | IErr.

(* memchr(b'\n', src) + split_to(len) + advance(1) *)
Fixpoint split_lf (l : list Z) : option (list Z * list Z) :=
  match l with
  | [] => None
  | b :: t => if b =? 10 then Some ([], t)
              else match split_lf t with
                   | Some (a, r) => Some (b :: a, r)
                   | None => None
                   end
  end.

(* `buf.last() == Some(b'\r')` (structural, linear: the stdlib `rev` is quadratic and the
   extracted model is run on lines of several KiB by the C13 correspondence) *)
Fixpoint ends_cr (l : list Z) : bool :=
  match l with
  | [] => false
  | [b] => b =? 13
  | _ :: t => ends_cr t
  end.

(* `match buf.last() { Some(b'\r') => buf.truncate(len - 1), .. }` *)
Definition strip_cr (l : list Z) : list Z := if ends_cr l then removelast l else l.

(* try_into_utf8 *)
Definition finish (l : list Z) : item := if valid l then IOk l else IErr.

(* Decoder::decode: result and the buffer left behind *)
Definition decode (src : list Z) : option item * list Z :=
  match split_lf src with
  | None => (None, src)
  | Some (line, rest) => (Some (finish (strip_cr line)), rest)
  end.

(* Decoder::decode_eof *)
Definition decode_eof (src : list Z) : option item * list Z :=
  match decode src with
  | (Some it, rest) => (Some it, rest)
  | (None, _) =>
      match src with
      | [] => (None, [])
      | _ => let '(buf, rest) := if ends_cr src then (removelast src, [13]) else (src, []) in
             match buf with
             | [] => (None, rest)
             | _ => (Some (finish buf), rest)
             end
      end
  end.

(* Encoder::encode appends to dst *)
Definition encode (s : list Z) (dst : list Z) : list Z := dst ++ s ++ [10].

(* Repeated decode, as a caller (Framed) does, until the codec says None.  Fuel is
   only there to make the function total; LinesFacts.decode_all_fuel shows
   length src + 1 is always enough. *)
Fixpoint decode_loop (fuel : nat) (src : list Z) : option (list item * list Z) :=
  match fuel with
  | O => None
  | S f => match decode src with
           | (None, rest) => Some ([], rest)
           | (Some it, rest) => match decode_loop f rest with
                                | Some (its, r) => Some (it :: its, r)
                                | None => None
                                end
           end
  end.

Fixpoint decode_eof_loop (fuel : nat) (src : list Z) : option (list item * list Z) :=
  match fuel with
  | O => None
  | S f => match decode_eof src with
           | (None, rest) => Some ([], rest)
           | (Some it, rest) => match decode_eof_loop f rest with
                                | Some (its, r) => Some (it :: its, r)
                                | None => None
                                end
           end
  end.

Definition decode_all (src : list Z) := decode_loop (S (length src)) src.
Definition decode_all_eof (src : list Z) := decode_eof_loop (S (S (length src))) src.

(* What the correspondence harness records for one input: items from repeated
   decode, then items from repeated decode_eof on what is left, then the residue. *)
Definition run_lines (src : list Z) : option (list item * list item * list Z) :=
  match decode_all src with
  | None => None
  | Some (its, r) => match decode_all_eof r with
                     | None => None
                     | Some (its2, r2) => Some (its, its2, r2)
                     end
  end.

(* ---- the independent reference splitter the property is stated against ---- *)
(* lines terminated by LF (without the LF), and the unterminated tail *)
Fixpoint ref_split (cur : list Z) (l : list Z) : list (list Z) * list Z :=
  match l with
  | [] => ([], rev cur)
  | b :: t => if b =? 10 then let '(ls, r) := ref_split [] t in (rev cur :: ls, r)
              else ref_split (b :: cur) t
  end.

Definition ref_lines (l : list Z) : list item * list Z :=
  let '(ls, r) := ref_split [] l in (map (fun x => finish (strip_cr x)) ls, r).

(* end of stream: a non-empty tail is one more line; a single trailing CR of the
   tail is not part of it (and a tail that is only CR yields nothing) *)
Definition ref_eof_tail (r : list Z) : list item :=
  let body := strip_cr r in
  match body with [] => [] | _ => [finish body] end.
