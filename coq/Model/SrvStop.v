(* Model/SrvStop.v — executable model of the server-side stop logic:
   server.rs `ServerInner::run` (command loop, `stopping`), `handle_cmd(Stop)`, `map_signal`,
   `ServerEventMultiplexer::poll_next`; handle.rs `ServerHandle::stop` (the command is sent
   eagerly, the returned future only awaits the completion sender); join_all.rs.
   No proofs here (Proofs/SrvStopFacts.v).

   Small-step: `SPoll` performs ONE control step of the `Server` future (take a command and
   dispatch it; one poll of `join_all`; the `thread::join` of the accept thread; the 300 ms sleep
   before `System::stop`; finishing).  A real poll of the future is a run of consecutive `SPoll`s;
   everything else in a script is the environment: users issuing stops, signals arriving, workers
   acknowledging (or dropping) their stop, the accept thread exiting, the timer firing. *)
From Coq Require Export List Bool Arith Lia.
Export ListNotations.

Inductive sigk := SigInt | SigTerm | SigQuit.

(* ServerCommand::Stop { graceful, completion, force_system_stop } *)
Record stopcmd := mkStop { sc_graceful : bool; sc_completion : option nat; sc_force : bool }.

(* map_signal *)
Definition map_signal (k : sigk) : stopcmd :=
  match k with
  | SigInt => mkStop false None true
  | SigTerm => mkStop true None true
  | SigQuit => mkStop false None true
  end.

(* Pause / Resume only wake the accept loop and acknowledge *)
Inductive cmd := CStop (c : stopcmd) | COther (resume : bool).   (* Pause(tx) / Resume(tx) *)

(* the oneshot between the server and worker i, once a stop was sent *)
Inductive wack := WPending | WAcked (b : bool) | WDropped.

(* JoinFuture<T>: Future | Result(Some(t)); t : Result<bool, RecvError> *)
Definition jres := option (option bool).

Inductive sctl :=
| SIdle
| SJoinAll (c : stopcmd) (res : list jres)
| SJoinAccept (c : stopcmd)
| SSleep (c : stopcmd)
| SDone (c : stopcmd).

Record scfg := mkSCfg { s_workers : nat; s_system_exit : bool }.

Record sst := mkSst {
  ctl : sctl;
  cmdq : list cmd;           (* cmd_rx *)
  sigs : list sigk;           (* delivered, not yet seen by the Signals future *)
  sig_armed : bool;          (* mux.signal_fut is Some *)
  acks : list wack;          (* one per worker handle, meaningful once the stop was sent *)
  accept_exited : bool;
  timer_fired : bool;
  next_stop : nat }.

Inductive sop :=
| UStop (g : bool)           (* a user calls ServerHandle::stop(g); its future gets the next id *)
| UOther (resume : bool)     (* pause() / resume(): the command is sent eagerly, as for stop *)
| USignal (k : sigk)
| WAck (i : nat) (b : bool)  (* worker i acknowledges its stop *)
| WDrop (i : nat)            (* worker i drops the ack sender (second stop, dead worker, ...) *)
| AcceptExit                 (* the accept thread has processed the Stop interest and returned *)
| TimerFire                  (* the 300 ms sleep before System::stop elapsed *)
| SPoll.

Inductive sobs :=
| OWakeStop                  (* waker_queue.wake(WakerInterest::Stop) *)
| OWakeOther (resume : bool) (* waker_queue.wake(WakerInterest::Pause | Resume), then tx.send(()) *)
| OWorkerStop (i : nat) (g : bool)   (* worker_handles[i].stop(g) *)
| OJoinPolled (i : nat) (ready : bool)
| OJoinDone (res : list (option bool))
| OJoinAccept                (* accept_handle.join() returned *)
| OCompletion (n : nat)      (* completion.send(()) of stop future n *)
| OResolved (n : nat)        (* stop future n resolves (completion received or sender dropped) *)
| OSystemStop
| OServerDone.               (* the command loop ended: the Server future resolves Ok(()) *)

Definition sinit : sst := mkSst SIdle [] [] true [] false false 0.

Definition set_ctl s x := mkSst x (cmdq s) (sigs s) (sig_armed s) (acks s) (accept_exited s) (timer_fired s) (next_stop s).
Definition set_cmdq s x := mkSst (ctl s) x (sigs s) (sig_armed s) (acks s) (accept_exited s) (timer_fired s) (next_stop s).
Definition set_next s x := mkSst (ctl s) (cmdq s) (sigs s) (sig_armed s) (acks s) (accept_exited s) (timer_fired s) x.
Definition is_done (x : sctl) : bool := match x with SDone _ => true | _ => false end.
Definition set_acks s x := mkSst (ctl s) (cmdq s) (sigs s) (sig_armed s) x (accept_exited s) (timer_fired s) (next_stop s).

(* ---- join_all ---------------------------------------------------------------------------- *)
(* one poll of JoinAll: every input that is still a Future is polled once, in order; an input
   that already holds its Result is not polled again *)
Fixpoint join_poll (i : nat) (res : list jres) (aks : list wack) : list jres * list sobs :=
  match res, aks with
  | r :: rt, a :: at_ =>
      let '(rt', o) := join_poll (S i) rt at_ in
      match r with
      | Some x => (Some x :: rt', o)
      | None =>
          match a with
          | WPending => (None :: rt', OJoinPolled i false :: o)
          | WAcked b => (Some (Some b) :: rt', OJoinPolled i true :: o)
          | WDropped => (Some None :: rt', OJoinPolled i true :: o)
          end
      end
  | _, _ => (res, [])
  end.

Fixpoint join_results (res : list jres) : option (list (option bool)) :=
  match res with
  | [] => Some []
  | Some x :: t => match join_results t with Some l => Some (x :: l) | None => None end
  | None :: _ => None
  end.

(* ---- Signals future: SIGINT, SIGTERM, SIGQUIT streams are polled in this order ----------- *)
Definition sig_eqb (a b : sigk) : bool :=
  match a, b with SigInt, SigInt | SigTerm, SigTerm | SigQuit, SigQuit => true | _, _ => false end.

Definition pick_signal (l : list sigk) : option sigk :=
  if existsb (sig_eqb SigInt) l then Some SigInt
  else if existsb (sig_eqb SigTerm) l then Some SigTerm
  else if existsb (sig_eqb SigQuit) l then Some SigQuit
  else None.

(* ---- the command loop -------------------------------------------------------------------- *)
Definition completion_obs (c : stopcmd) : list sobs :=
  match sc_completion c with Some n => [OCompletion n; OResolved n] | None => [] end.

(* the loop breaks, ServerInner and the multiplexer are dropped: queued commands die with
   cmd_rx, and with them their completion senders *)
Definition dropped_obs (q : list cmd) : list sobs :=
  flat_map (fun x => match x with
                     | CStop c => match sc_completion c with Some n => [OResolved n] | None => [] end
                     | COther _ => [] end) q.

Definition finish_srv (s : sst) (c : stopcmd) : sst * list sobs :=
  (set_cmdq (set_ctl s (SDone c)) [], OServerDone :: dropped_obs (cmdq s)).

Definition handle_stop (W : nat) (s : sst) (c : stopcmd) : sst * list sobs :=
  let g := sc_graceful c in
  (set_acks (set_ctl s (if g then SJoinAll c (repeat None W) else SJoinAccept c)) (repeat WPending W),
   OWakeStop :: map (fun i => OWorkerStop i g) (seq 0 W)).

Definition spoll (cf : scfg) (s : sst) : sst * list sobs :=
  match ctl s with
  | SIdle =>
      (* ServerEventMultiplexer::poll_next: the signal future first, then the command queue *)
      match (if sig_armed s then pick_signal (sigs s) else None) with
      | Some k =>
          let s1 := mkSst (ctl s) (cmdq s) (sigs s) false (acks s) (accept_exited s) (timer_fired s) (next_stop s) in
          handle_stop (s_workers cf) s1 (map_signal k)
      | None =>
          match cmdq s with
          | [] => (s, [])
          | COther b :: q => (set_cmdq s q, [OWakeOther b])
          | CStop c :: q => handle_stop (s_workers cf) (set_cmdq s q) c
          end
      end
  | SJoinAll c res =>
      let '(res', o) := join_poll 0 res (acks s) in
      match join_results res' with
      | Some l => (set_ctl s (SJoinAccept c), o ++ [OJoinDone l])
      | None => (set_ctl s (SJoinAll c res'), o)
      end
  | SJoinAccept c =>
      if accept_exited s then
        if s_system_exit cf || sc_force c
        then (set_ctl s (SSleep c), OJoinAccept :: completion_obs c)
        else let '(s1, o) := finish_srv s c in (s1, OJoinAccept :: completion_obs c ++ o)
      else (s, [])   (* thread::join blocks *)
  | SSleep c =>
      if timer_fired s then let '(s1, o) := finish_srv s c in (s1, OSystemStop :: o)
      else (s, [])
  | SDone _ => (s, [])
  end.

Fixpoint set_nth {A} (i : nat) (x : A) (l : list A) : list A :=
  match l, i with
  | [], _ => []
  | _ :: t, O => x :: t
  | y :: t, S j => y :: set_nth j x t
  end.

Definition resolve_ack (i : nat) (x : wack) (l : list wack) : list wack :=
  match nth_error l i with
  | Some WPending => set_nth i x l
  | _ => l
  end.

Definition srv_step (cf : scfg) (s : sst) (o : sop) : sst * list sobs :=
  match o with
  | UStop g =>
      let n := next_stop s in
      if is_done (ctl s)
      then (set_next s (S n), [OResolved n])   (* cmd_tx.send fails: the command and its sender are dropped *)
      else (set_cmdq (set_next s (S n)) (cmdq s ++ [CStop (mkStop g (Some n) false)]), [])
  | UOther b => if is_done (ctl s) then (s, []) else (set_cmdq s (cmdq s ++ [COther b]), [])
  | USignal k => (mkSst (ctl s) (cmdq s) (sigs s ++ [k]) (sig_armed s) (acks s) (accept_exited s) (timer_fired s) (next_stop s), [])
  | WAck i b => (set_acks s (resolve_ack i (WAcked b) (acks s)), [])
  | WDrop i => (set_acks s (resolve_ack i WDropped (acks s)), [])
  | AcceptExit => (mkSst (ctl s) (cmdq s) (sigs s) (sig_armed s) (acks s) true (timer_fired s) (next_stop s), [])
  | TimerFire => (mkSst (ctl s) (cmdq s) (sigs s) (sig_armed s) (acks s) (accept_exited s) true (next_stop s), [])
  | SPoll => spoll cf s
  end.

Fixpoint srv_run (cf : scfg) (s : sst) (ops : list sop) : sst * list sobs :=
  match ops with
  | [] => (s, [])
  | o :: t => let '(s1, l) := srv_step cf s o in
              let '(s2, l2) := srv_run cf s1 t in (s2, l ++ l2)
  end.

Definition srv_trace (cf : scfg) (ops : list sop) : list sobs := snd (srv_run cf sinit ops).
Definition srv_final (cf : scfg) (ops : list sop) : sst := fst (srv_run cf sinit ops).
