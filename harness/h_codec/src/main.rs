//! Correspondence harness for actix-codec (C13, C14, C15).
//! One case per stdin line, one trace per stdout line; same text format as ocaml/codec/driver.ml.
use std::io::{self, BufRead, Write};

use actix_codec::{Decoder, Encoder, LinesCodec};
use bytes::BytesMut;

fn unhex(s: &str) -> Vec<u8> {
    (0..s.len() / 2)
        .map(|i| u8::from_str_radix(&s[2 * i..2 * i + 2], 16).unwrap())
        .collect()
}
fn hex(b: &[u8]) -> String {
    b.iter().map(|x| format!("{:02x}", x)).collect()
}

fn show_items(items: &[Result<String, ()>]) -> String {
    items
        .iter()
        .map(|it| match it {
            Ok(s) => format!("O:{}", hex(s.as_bytes())),
            Err(()) => "E".to_string(),
        })
        .collect::<Vec<_>>()
        .join(",")
}

/// decode until None, then decode_eof until None; both loops are bounded so a codec that
/// never stops producing shows up as a trace difference instead of a hang.
fn run_lines(buf: &mut BytesMut) -> String {
    let mut codec = LinesCodec::default();
    let bound = buf.len() + 3;
    let mut a = Vec::new();
    for _ in 0..bound {
        match codec.decode(buf) {
            Ok(Some(s)) => a.push(Ok(s)),
            Ok(None) => break,
            Err(_) => a.push(Err(())),
        }
    }
    let mut b = Vec::new();
    for _ in 0..bound {
        match codec.decode_eof(buf) {
            Ok(Some(s)) => b.push(Ok(s)),
            Ok(None) => break,
            Err(_) => b.push(Err(())),
        }
    }
    format!("{}|{}|{}", show_items(&a), show_items(&b), hex(&buf[..]))
}

fn c15(line: &str) -> String {
    let mut buf = BytesMut::from(&unhex(line)[..]);
    run_lines(&mut buf)
}

fn c15enc(line: &str) -> String {
    let mut codec = LinesCodec::default();
    let mut buf = BytesMut::new();
    if !line.is_empty() {
        for h in line.split(',') {
            let s = String::from_utf8(unhex(h)).expect("c15enc cases are valid UTF-8");
            codec.encode(s, &mut buf).unwrap();
        }
    }
    let enc = hex(&buf[..]);
    format!("{}#{}", enc, run_lines(&mut buf))
}

fn main() {
    let mode = std::env::args().nth(1).expect("mode");
    let f: fn(&str) -> String = match mode.as_str() {
        "c15" => c15,
        "c15enc" => c15enc,
        m => panic!("unknown mode {m}"),
    };
    let stdin = io::stdin();
    let stdout = io::stdout();
    let mut out = io::BufWriter::new(stdout.lock());
    for line in stdin.lock().lines() {
        let line = line.unwrap();
        let r = std::panic::catch_unwind(|| f(&line)).unwrap_or_else(|_| "PANIC".to_string());
        writeln!(out, "{}", r).unwrap();
    }
}
