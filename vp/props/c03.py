"""C03 — back-pressure releases: spare worker capacity is always used (no lost wake-up)."""
from props.srvlib import COMMON_META, gen_scripts, make_stream, bfs_stream, bld_stream, c03_pred, saturates

META = dict(COMMON_META)
META.update({
    "id": "C03",
    "design_ref": "§5 C03",
    "technique": "Coq proof (protocol invariant: flag false and no notice pending => saturated; capacity => flagged or exactly one notice queued; "
                 "coverage invariant BInv carried relationally through every accept-thread function for ALL scripts, Proofs/SrvStrand.v) "
                 "+ extracted model vs the real accept loop at quiescent states and after a settling epilogue",
    "level_text": "Theorem C03_no_lost_wakeup: in every state reachable by a fault-free script (all limits >= 1 including 1, all schedules incl. finishing "
                  "inside the send/inc gap), a worker flagged unavailable whose notice queue entry has been processed has exactly L connections in progress, "
                  "a worker with spare capacity is flagged or has exactly one WorkerAvailable notice queued, and a flagged worker has spare capacity. "
                  "C03_no_strand_all (EVERY script, worker deaths/replacements and yield-point schedules included, only a spurious WouldBlock excluded): "
                  "the loop has not failed, a non-empty waker queue has its waker edge pending, and whenever the loop runs unpaused with some worker flagged, "
                  "every listener with a non-empty backlog is registered with an unreported readiness edge or in back-off with the poll timeout armed. "
                  "C03_release_drains (from ANY reachable state): one handle_waker call over a queue holding a release notice ends with the queue drained and "
                  "every flagged worker exhausted or every listener's backlog empty (back-off / injected errors excepted). "
                  "The correspondence run checks this predicate at every quiescent state of the real accept loop and, after a settling epilogue of turns, "
                  "that no connectable client is left undispatched while a live worker has capacity.",
    "level_note": "Partial: the step from 'a notice is queued and the mio waker fired' to 'the accept thread runs handle_waker' is the blocking poll of "
                  "the real thread (wake latency not modelled); the stepped driver stands for the 10-line poll_with loop. Trusted base as C02.",
    "rule": "as C02, every script ends with the settling epilogue (turns, +600 ms, turns); non-trivial = some worker reaches its limit. "
            "Corpus: the D1 histories (limit 1; one release at limit L; completion inside the send/inc gap).",
})


def streams(ctx):
    n = 2500 if ctx.tier == "quick" else 60000
    cases = gen_scripts(ctx, n, ["e", "ye", "ye", "cye", "ciye", "dye", "cidye"], ls=(1, 1, 2, 3, 4))
    return [bfs_stream(ctx, c03_pred, "dc", saturates), make_stream("srv", cases, c03_pred,
                        "%d generated fault-free scripts with settling epilogue + corpus; quiescent-state predicate and end-of-run dispatch check" % n,
                        saturates),
            bld_stream(ctx, ("C03",), ["", "a", "ca", "b", "z", "cz", "bz"], 88, 1500, ls=(1, 1, 2, 3, 4))]
