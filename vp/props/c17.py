"""C17 — actix-utils Counter + LocalWaker: capacity gate with a guaranteed wake on release."""
import itertools
import os
import time

from common import Stream, shrink_tokens, log
from props.c16 import Monitor, audit_monitor

META = {
    "id": "C17",
    "driver": "local",
    "harness": "h_local",
    "coq_targets": ["Extract/XLocal.vo"],
    "level": "proof",
    "design_ref": "§5 C17",
    "technique": "Coq proof (inductive invariant count = live guards, simulation of three trace checkers; LocalWaker checker) over "
                 "hand-written models of counter.rs and local-waker + extracted-model vs real Counter/LocalWaker differential run "
                 "with counting wakers",
    "level_text": "Theorems C17_available_state / C17_available / C17_wake / C17_wake_only / C17_no_underflow / C17_no_stale_waker / "
                  "C17_local_waker / C17_holds are proved for ALL capacities (0 and over-acquisition included) and ALL op scripts of any "
                  "length over {Acquire, DropGuard g, Available w, Clone} resp. {Register w, Wake, Take} on Gallina models of "
                  "actix-utils/src/counter.rs and local-waker/src/lib.rs. The models are tied to the code by running the extracted model "
                  "and the real code on every valid op sequence up to the length bound for capacities 0..3 (explicitly to length 7, by "
                  "per-subtree digests to length 10, thorough 11) and every LocalWaker sequence of length <= 7 with 2 waker ids, plus random longer "
                  "ones; per-op observations (available() answer, total(), wakes per waker id, register()/take() results) are compared "
                  "op by op and the extracted predicates C17_counter_ok / C17_local_waker_ok are the monitors on implementation traces.",
    "level_note": "Trusted: Coq kernel, extraction (ExtrOcamlBasic), OCaml driver, Rust harness (counting wakers, guard table); "
                  "usize is modelled as N (2^64 wrap of count+1 out of reach; num-1 at 0 proved unreachable: C17_no_underflow). "
                  "The property (and the code) only promise a wake for the task MOST RECENTLY answered 'unavailable': an earlier waiting "
                  "task with a different waker is replaced, not woken (see notes/local.md).",
    "rule": "stream c17: every valid op sequence (drops only of live guards, waker ids 0/1; ops through the newest Counter clone, "
            "total() read through the oldest) of length <= Lx (Lx = 7) for each capacity 0..3, enumerated explicitly, + seeded random "
            "sequences of length 10..48 for capacities 0..5 with 3 waker ids and ~3% drops of dead guards. sweep17: for every valid "
            "prefix of length 5 and capacity 0..3 both executables enumerate all valid extensions up to total length L (quick 10, thorough 11) and print "
            "count + order-independent 62-bit digest of all traces; a digest mismatch is expanded into explicit cases. stream lw: all "
            "register/wake/take sequences of length <= 7 with waker ids 0/1 + random sequences of length 8..30 with 4 waker ids. "
            "non-trivial = the model trace contains a wake or an 'unavailable' answer (c17) / a wake or a successful take (lw).",
    "trusted_base": ["std Cell<usize>/Rc modelled as a value of type N shared by all clones and guards",
                     "sweep17 digests: 62-bit multiplicative hash summed over sequences (collision = missed difference)"],
    "assumptions": ["single-threaded use (the types are !Send); no re-entrancy from a waker's wake() into the counter",
                    "count never reaches 2^64 (usize overflow of `count + 1`)"],
}


def ops17(alive, wakers=2):
    return ["a"] + ["d%d" % i for i, b in enumerate(alive) if b] + ["v%d" % w for w in range(wakers)] + ["k"]


def track17(alive, t):
    if t[0] == "a":
        return alive + (True,)
    if t[0] in "du":
        i = int(t[1:])
        return tuple(False if j == i else b for j, b in enumerate(alive))
    return alive


def enum17(prefix, alive, maxlen, exact=False):
    out = []

    def go(seq, alive):
        if not exact or len(seq) == maxlen:
            out.append(" ".join(seq))
        if len(seq) < maxlen:
            for t in ops17(alive):
                seq.append(t)
                go(seq, track17(alive, t))
                seq.pop()
    go(list(prefix), alive)
    return out


def alive_after(tokens):
    a = ()
    for t in tokens:
        a = track17(a, t)
    return a


def random_case(rng):
    cap = rng.choice([0, 1, 1, 2, 2, 3, 4, 5])
    n = rng.randint(10, 48)
    alive = ()
    seq = []
    clones = 1
    for _ in range(n):
        live = sum(alive)
        if clones > 1 and rng.random() < 0.12:
            # drop the newest cloned Counter handle (model: DropClone — touches nothing)
            t = "h"
            clones -= 1
        elif rng.random() < 0.06:
            t = "w"      # the newest handle and a live guard are formatted with {:?}: nothing changes
        elif rng.random() < 0.03:
            t = "d%d" % rng.randint(0, len(alive) + 1)
        else:
            # hover around the capacity: acquire more when below, drop more when above
            wa = 3.0 if live <= cap else 1.0
            wd = 3.0 if live >= cap else 1.2
            ops = ops17(alive, wakers=3)
            weights = [wa if t[0] == "a" else (wd / max(1, live)) if t[0] == "d" else 0.9 if t[0] == "v" else 0.3 for t in ops]
            t = rng.choices(ops, weights)[0]
        if t[0] == "d" and rng.random() < 0.25:
            t = "u" + t[1:]     # the same drop, performed while the thread unwinds from a panic
        seq.append(t)
        if t == "k":
            clones += 1
        if t[0] not in "du" or (int(t[1:]) < len(alive) and alive[int(t[1:])]):
            alive = track17(alive, t)
    return "%d|%s" % (cap, " ".join(seq))


def make_monitor(ctx, mode):
    mon = Monitor(ctx, mode)

    def monitor(case, impl, model):
        # impl == model: the theorem C17_holds / C17_local_waker applies to this trace;
        # otherwise the extracted predicate itself judges the implementation's trace.
        if impl == model:
            return True
        return mon.ask(case, impl) == "ok"
    monitor.mon = mon
    return monitor


def shrink17(case):
    cap, ops = case.split("|", 1)
    for c in shrink_tokens(" ")(ops):
        yield "%s|%s" % (cap, c)
    if int(cap) > 0:
        yield "%d|%s" % (int(cap) - 1, ops)


def to_coq17(case, model):
    if model.startswith(("CRASH", "HANG", "SKIPPED", "DRIVER")):
        return None
    cap, ops = case.split("|", 1)

    def op(t):
        return {"a": "Acquire", "k": "Clone", "h": "DropClone", "w": "DropClone"}.get(t[0]) or {"d": "DropGuard", "u": "DropGuard", "v": "Available"}[t[0]] + " " + t[1:]

    def ob(t):
        a, tot = t.split("/")
        parts = a.split("^")
        ret = {"-": "CUnit", "!": "CInvalid", "T": "CAvail true", "F": "CAvail false"}[parts[0]]
        return "CObs (%s) [%s] %s" % (ret, "; ".join(parts[1:]), tot)
    return ("ctr_run %s (%s : list ctr_op)" % (cap, "[" + "; ".join(op(t) for t in ops.split()) + "]"),
            "(%s : list ctr_obs)" % ("[" + "; ".join(ob(t) for t in model.split()) + "]"))


def to_coq_lw(case, model):
    if model.startswith(("CRASH", "HANG", "SKIPPED", "DRIVER")):
        return None

    def op(t):
        return {"w": "Wake", "t": "Take"}.get(t[0]) or "Register " + t[1:]

    def ob(t):
        if t[0] == "R":
            return "ORegister %s" % ("true" if t == "R1" else "false")
        if t[0] == "W":
            return "OWake [%s]" % "; ".join(t.split("^")[1:])
        return "OTake None" if t == "T-" else "OTake (Some %s)" % t[1:]
    return ("lw_run (%s : list lw_op)" % ("[" + "; ".join(op(t) for t in case.split()) + "]"),
            "(%s : list lw_obs)" % ("[" + "; ".join(ob(t) for t in model.split()) + "]"))


COQ_IMPORTS = "From AN Require Import Model.Counter.\n"
CAPS = [0, 1, 2, 3]


def counter_stream(ctx, cases, describe):
    return Stream("c17", "c17", cases, monitor=make_monitor(ctx, "mon17"),
                  nontrivial=lambda c, m: ("^" in m) or ("F" in m), shrink=shrink17,
                  to_coq=to_coq17, coq_imports=COQ_IMPORTS, describe=describe)


def streams(ctx):
    lx = int(os.environ.get("VERIF_C17_EXPLICIT", "7"))
    seqs = enum17([], (), lx)
    enum = ["%d|%s" % (cap, s) for cap in CAPS for s in seqs]
    nrand = 30000 if ctx.tier == "quick" else 600000
    rnd = [random_case(ctx.rng) for _ in range(nrand)]
    s1 = counter_stream(ctx, enum + rnd,
                        "exhaustive: all %d valid op sequences of length <= %d for each capacity 0..3 (%d cases); random: %d sequences "
                        "of length 10..48, capacities 0..5, 3 waker ids" % (len(seqs), lx, len(enum), nrand))
    s1.n_enum = len(enum)
    ll = 7 if ctx.tier == "quick" else 9
    lw = [" ".join(t) for n in range(0, ll + 1) for t in itertools.product(["r0", "r1", "w", "t"], repeat=n)]
    nlw = 5000 if ctx.tier == "quick" else 100000
    lwr = []
    for _ in range(nlw):
        n = ctx.rng.randint(8, 30)
        lwr.append(" ".join(ctx.rng.choice(["r0", "r1", "r2", "r3", "w", "w", "t"]) for _ in range(n)))
    s2 = Stream("lw", "lw", lw + lwr, monitor=make_monitor(ctx, "monlw"),
                nontrivial=lambda c, m: ("^" in m) or any(t[0] == "T" and t != "T-" for t in m.split()),
                shrink=shrink_tokens(" "), to_coq=to_coq_lw, coq_imports=COQ_IMPORTS,
                describe="exhaustive: all %d register/wake/take sequences of length <= %d with waker ids 0/1; random: %d sequences of "
                         "length 8..30 with 4 waker ids" % (len(lw), ll, nlw))
    return [s1, s2]


def custom(ctx):
    plen = 5
    overlap = overlap_nt = 0
    for st in streams(ctx):
        impl0, model0 = ctx.run_stream(st)
        st.mon = st.monitor.mon
        audit_monitor(ctx, st, impl0, model0)
        if st.name != "c17":
            continue
        # enumerated sequences of length >= plen are visited again by the sweep: do not count them twice
        ncorp = len(impl0) - len(st.cases)
        for c, m in zip(st.cases[:st.n_enum], model0[ncorp:ncorp + st.n_enum]):
            if len(c.split("|", 1)[1].split()) >= plen:
                overlap += 1
                overlap_nt += 1 if st.nontrivial(c, m) else 0
    # ---- digest sweep: all valid sequences up to length L for capacities 0..3 ----------------
    L = int(os.environ.get("VERIF_C17_SWEEP", "10" if ctx.tier == "quick" else "11"))
    prefixes = enum17([], (), plen, exact=True)
    cases = ["%d|%d|%s" % (cap, L, p) for cap in CAPS for p in prefixes]
    sw = Stream("sweep17", "sweep17", cases, timeout=1700)
    t0 = time.time()
    impl, model = ctx.run_both(sw, cases)
    total = nt = 0
    bad = []
    for c, i, m in zip(cases, impl, model):
        if i != m or not m.startswith("n="):
            bad.append((c, i, m))
        if m.startswith("n="):
            f = dict(x.split("=") for x in m.split())
            total += int(f["n"])
            nt += int(f["nt"])
    ctx.cov["extra_evaluations"] = ctx.cov.get("extra_evaluations", 0) + max(0, total - overlap)
    ctx.cov["extra_distinct_nontrivial"] = ctx.cov.get("extra_distinct_nontrivial", 0) + max(0, nt - overlap_nt)
    ctx.cov["sweep17"] = {"max_len": L, "prefix_len": plen, "capacities": CAPS, "subtrees": len(cases), "sequences": total,
                          "nontrivial": nt, "digest_mismatches": len(bad), "wall_s": round(time.time() - t0, 2),
                          "also_in_explicit_stream": overlap,
                          "exhaustive_for": "all valid op sequences of length %d..%d for each capacity 0..3, waker ids 0/1" % (plen, L)}
    ctx.cov.setdefault("extra_samples", []).append({"stream": "sweep17", "case": cases[len(cases) // 2],
                                                    "impl": impl[len(cases) // 2], "model": model[len(cases) // 2]})
    if bad:
        log("[C17] %d of %d subtree digests differ; expanding" % (len(bad), len(cases)))
        exp = []
        for c, i, m in bad[:8]:
            cap, _, p = c.split("|", 2)
            toks = p.split()
            exp += ["%s|%s" % (cap, s) for s in enum17(toks, alive_after(toks), min(L, 9))]
            if len(exp) > 400000:
                break
        before = len(ctx.violations) + len(ctx.known_hits)
        ctx.run_stream(counter_stream(ctx, exp, "expansion of %d subtrees whose sweep digests differ" % min(len(bad), 8)))
        if len(ctx.violations) + len(ctx.known_hits) == before:
            c, i, m = bad[0]
            ctx.report("correspondence-broken",
                       {"stream": "sweep17", "case": c, "impl_trace": i, "model_trace": m,
                        "what": "correspondence C17/sweep17 no longer checks: trace digests differ on %d of %d subtrees but no "
                                "explicit difference was found" % (len(bad), len(cases))}, nfi=True)
