"""Case generators and trace helpers shared by the worker-group plugins (C06, C07).
Case / trace text format: see harness/h_worker/src/main.rs."""
import itertools
import subprocess

READY = ["P", "O", "E"]


def ready_scripts(maxlen):
    return ["".join(t) for n in range(0, maxlen + 1) for t in itertools.product(READY, repeat=n)]


CREATE_SCRIPTS = ["", "p", "po", "pp", "e", "pe", "oe", "ope"]


def mk_case(limit, timeout, svcs, ops):
    return "L=%d,T=%d,S=%s;%s" % (limit, timeout, "/".join("%s:%s" % (r, f) for r, f in svcs), " ".join(ops))


def main_part(trace):
    return trace.split(" ## ")[0]


def diag_part(trace):
    p = trace.split(" ## ")
    return p[1] if len(p) > 1 else ""


def segs(trace):
    return [s.split(" ") if s else [] for s in main_part(trace).split("|")]


def case_ops(case):
    return [t for t in case.split(";", 1)[1].split(" ") if t]


def case_cfg(case):
    d = {}
    for kv in case.split(";", 1)[0].split(","):
        k, v = kv.split("=", 1)
        d[k] = v
    return d


# ---------------------------------------------------------------------------------------------
# C07: readiness scripts x arrival orders x failure positions
# ---------------------------------------------------------------------------------------------
def arrival_patterns(n, rng=None):
    """op skeletons: where connections (with which tokens) arrive relative to the polls.
    Every skeleton ends with enough polls to run every script of length <= 3 dry and with the
    completion of every connection."""
    pats = []
    toks = list(range(n))
    # (connections before first poll, between 1st and 2nd poll, after)
    shapes = [(0, 0, 0), (1, 0, 0), (2, 0, 0), (0, 1, 0), (1, 1, 0), (0, 2, 0), (1, 0, 1), (2, 1, 0), (3, 0, 0), (0, 1, 2)]
    for a, b, c in shapes:
        tot = a + b + c
        for tk in (itertools.product(toks, repeat=tot) if tot <= 2 or n == 1 else [None]):
            if tk is None:
                # token assignments for 3 connections on 2..3 services: a few representative ones
                tks = [tuple((i + j) % n for i in range(tot)) for j in range(n)] + [tuple(reversed(range(tot)))]
                tks = [tuple(t % n for t in x) for x in tks]
            else:
                tks = [tk]
            for t in tks:
                ops = []
                cid = 0
                for _ in range(a):
                    ops += ["c%d.%d" % (t[cid], cid), "i"]
                    cid += 1
                ops.append("p")
                for _ in range(b):
                    ops += ["c%d.%d" % (t[cid], cid), "i"]
                    cid += 1
                ops.append("p")
                for _ in range(c):
                    ops += ["c%d.%d" % (t[cid], cid), "i"]
                    cid += 1
                ops += ["p", "p", "p", "p"]
                ops += ["f%d" % k for k in range(cid)]
                ops.append("p")
                pats.append(ops)
    # de-duplicate
    seen = set()
    out = []
    for p in pats:
        k = " ".join(p)
        if k not in seen:
            seen.add(k)
            out.append(p)
    return out


def c07_enum(rng, budget_per_n, full):
    """{P,O,E}^<=3 readiness scripts for 1..3 services x create scripts x arrival patterns.
    n = 1 is enumerated completely; n = 2, 3 completely when `full`, else a stratified sample:
    every script occurs at every service position, every arrival pattern and every create script
    occurs, combined at random."""
    rs = ready_scripts(3)
    cases = []
    for n in (1, 2, 3):
        pats = arrival_patterns(n)
        if n == 1:
            for r in rs:
                for f in CREATE_SCRIPTS:
                    for p in pats:
                        cases.append(mk_case(3, 5000, [(r, f)], p))
            continue
        combos = None
        if full and n == 2:
            combos = list(itertools.product(rs, repeat=2))
        if combos is not None:
            for cb in combos:
                for p in pats:
                    fs = [rng.choice(CREATE_SCRIPTS) for _ in range(n)]
                    cases.append(mk_case(3, 5000, list(zip(cb, fs)), p))
            continue
        # stratified: each script at each position, paired with random others
        k = 0
        while k < budget_per_n:
            for pos in range(n):
                for r in rs:
                    cb = [rng.choice(rs) for _ in range(n)]
                    cb[pos] = r
                    fs = [rng.choice(CREATE_SCRIPTS) for _ in range(n)]
                    p = pats[k % len(pats)]
                    cases.append(mk_case(3, 5000, list(zip(cb, fs)), p))
                    k += 1
    return cases


def rand_script(rng, maxlen, alphabet, weights):
    n = rng.randint(0, maxlen)
    return "".join(rng.choices(alphabet, weights=weights, k=n))


def c07_random(rng, count, stops=False):
    cases = []
    for _ in range(count):
        n = rng.choice([1, 1, 2, 2, 3, 3, 4])
        svcs = [(rand_script(rng, 10, "POE", [3, 5, 2]), rand_script(rng, 3, "poe", [3, 4, 1])) for _ in range(n)]
        limit = rng.choice([1, 2, 3, 3, 5])
        nops = rng.randint(3, 40)
        ops = []
        cid = 0
        live = []
        for _ in range(nops):
            x = rng.random()
            if x < 0.25:
                tok = rng.randrange(n) if rng.random() < 0.97 else n  # rarely an out-of-range token
                ops.append("c%d.%d" % (tok, cid))
                live.append(cid)
                cid += 1
                if rng.random() < 0.85:
                    ops.append("i")
            elif x < 0.60:
                ops.append("p")
            elif x < 0.75 and live:
                c = rng.choice(live)
                if rng.random() < 0.8:
                    live.remove(c)
                ops.append("f%d" % c)
            elif x < 0.80:
                ops.append("i")
            elif x < 0.86:
                ops.append("a%d" % rng.choice([1, 250, 500, 999, 1000, 1001, 2000]))
            elif x < 0.90 and stops:
                ops.append(rng.choice(["sg", "sg", "sf"]))
            elif x < 0.91 and stops:
                ops.append("x")
            elif x < 0.915 and stops:
                ops.append("y")
            else:
                ops.append("p")
        cases.append(mk_case(limit, rng.choice([0, 1000, 1500, 2000, 5000]), svcs, ops))
    return cases


# ---------------------------------------------------------------------------------------------
# C06: completion times x timeouts x graceful/forced under virtual time
# ---------------------------------------------------------------------------------------------
def c06_enum(rng, full):
    """0..3 connections in progress (+0..1 still queued, +0..1 arriving after the stop), every
    completion time on a 500 ms grid relative to the stop, every shutdown_timeout on the grid,
    graceful and forced, polls at every 500 ms and in between; stop twice; gap variants."""
    cases = []
    timeouts = [0, 500, 1000, 1500, 2000, 2500, 3000]
    grid = [0, 500, 1000, 1500, 2000, 2500, 3000, None]  # None = never finishes
    for nconn in range(0, 4):
        fin_choices = list(itertools.product(grid, repeat=nconn))
        if not full and nconn == 3:
            fin_choices = [f for f in fin_choices if rng.random() < 0.5]
        for fins in fin_choices:
            for to in timeouts:
                if not full and nconn == 3 and rng.random() < 0.5:
                    continue
                for kind in ("sg", "sf"):
                    if kind == "sf" and (to not in (0, 2000) or rng.random() < 0.5):
                        continue
                    late = rng.choice([0, 0, 1])      # a connection pushed after the stop
                    queued = rng.choice([0, 0, 1])    # a connection queued but not yet picked at the stop
                    ops = []
                    for c in range(nconn):
                        ops += ["c0.%d" % c, "i"]
                    ops.append("p")
                    cid = nconn
                    if queued:
                        ops += ["c0.%d" % cid, "i"]
                        cid += 1
                    ops.append(kind)
                    ops.append("p")
                    if late:
                        ops += ["c0.%d" % cid, "i"]
                        cid += 1
                    t = 0
                    # finishes at time 0 happen right after the stop was picked up
                    while t <= 3500:
                        for c, ft in enumerate(fins):
                            if ft == t:
                                ops.append("f%d" % c)
                        if t > 0 and rng.random() < 0.3:
                            ops.append("p")
                        ops.append("a250")
                        if rng.random() < 0.5:
                            ops.append("p")
                        ops.append("a250")
                        ops.append("p")
                        t += 500
                    cases.append(mk_case(rng.choice([3, 4, 8]), to, [("", "")], ops))
    return cases


def c06_special(rng):
    """hand-picked shapes: stop twice, stop racing pushes, stop in the send/inc gap, stop while
    restarting / unavailable, accept side closing, forced after graceful."""
    S1 = [("", "")]
    base = [
        # idle
        (3, 5000, S1, "sg p"), (3, 5000, S1, "sf p"), (3, 5000, S1, "p sg p"), (3, 5000, S1, "p sf p"),
        # stop twice
        (3, 5000, S1, "c0.0 i p sg sg p a1000 p f0 a1000 p a1000 p"),
        (3, 5000, S1, "c0.0 i p sg p sg p a1000 p f0 a1000 p"),
        (3, 5000, S1, "c0.0 i p sg p sf p"),
        (3, 5000, S1, "c0.0 i p sf sg p"),
        (3, 5000, S1, "c0.0 i p sg sf p p"),
        (3, 5000, S1, "c0.0 i p sg p f0 sg p"),
        (3, 2000, S1, "c0.0 i p sg p a1500 p sg p a1000 p a1000 p a1000 p"),
        # stop racing new connections
        (3, 5000, S1, "c0.0 i p sg c0.1 i p c0.2 i a1000 p f0 a1000 p"),
        (3, 5000, S1, "c0.0 i sg p a1000 p"),
        (3, 5000, S1, "c0.0 i c0.1 i sg p a1000 p"),
        (3, 5000, S1, "c0.0 i c0.1 i sf p"),
        # the send/inc gap
        (3, 5000, S1, "c0.0 p f0 sg p"), (3, 5000, S1, "c0.0 p f0 sf p"), (3, 5000, S1, "c0.0 p sg p"),
        (3, 5000, S1, "c0.0 p sf p"), (3, 5000, S1, "c0.0 sg p a1000 p"), (3, 5000, S1, "c0.0 sg p i a1000 p"),
        (3, 5000, S1, "c0.0 i c0.1 p f0 f1 sg p i p a1000 p"),
        (3, 5000, S1, "c0.0 i p c0.1 sg p a1000 p i a1000 p f0 a1000 p"),
        # stop while unavailable / restarting
        (3, 5000, [("PPP", "")], "c0.0 i p sg p a1000 p"),
        (3, 5000, [("E", "pp")], "c0.0 i p sg p a1000 p a1000 p"),
        (3, 5000, [("E", "pp")], "c0.0 i p sf p"),
        (3, 5000, [("OE", "p")], "c0.0 i c0.1 i p sg p f0 a1000 p"),
        # accept side closes
        (3, 5000, S1, "c0.0 i p x p"), (3, 5000, S1, "c0.0 i x p p"), (3, 5000, S1, "c0.0 i p x sg p a1000 p f0 a1000 p"),
        (3, 5000, [("P", "")], "c0.0 i x p p"),
        # ... and the server is gone too (both channels closed): the worker ends
        (3, 5000, S1, "c0.0 i p x y p"), (3, 5000, S1, "c0.0 i p y x p"), (3, 5000, S1, "y p x p"), (3, 5000, S1, "c0.0 i p y p sg x p"),
        (3, 5000, S1, "c0.0 i p sg y x p a1000 p f0 a1000 p"), (3, 5000, S1, "x p sf p"), (3, 5000, S1, "c0.0 i x p sg p f0 a1000 p"),
        # queued but not picked at the stop: an idle worker drops its queue
        (3, 5000, S1, "c0.0 i c0.1 i sg p"), (3, 5000, S1, "p c0.0 i sf p"), (3, 5000, [("P", "")], "c0.0 i p sg p"),
        # timeout boundary
        (3, 1000, S1, "c0.0 i p sg p a999 p a1 p"), (3, 1001, S1, "c0.0 i p sg p a1000 p a1 p a999 p"),
        (3, 0, S1, "c0.0 i p sg p a999 p a1 p"), (3, 1999, S1, "c0.0 i p sg p a1000 p a999 p a1 p"),
        (3, 2000, S1, "c0.0 i p sg p a1000 p a999 p a1 p"),
        (3, 1500, S1, "c0.0 i p sg p a1200 p a800 p a200 p"),
    ]
    return [mk_case(l, t, s, o.split(" ")) for l, t, s, o in base]


def c06_random(rng, count):
    cases = []
    for _ in range(count):
        n = rng.choice([1, 1, 1, 2])
        svcs = [(rand_script(rng, 4, "POE", [2, 6, 1]), rand_script(rng, 2, "poe", [3, 4, 0])) for _ in range(n)]
        ops = []
        cid = 0
        live = []
        pre = rng.randint(0, 4)
        for _ in range(pre):
            ops.append("c%d.%d" % (rng.randrange(n), cid))
            live.append(cid)
            cid += 1
            if rng.random() < 0.9:
                ops.append("i")
        if rng.random() < 0.9:
            ops.append("p")
        nops = rng.randint(2, 30)
        stopped = False
        for _ in range(nops):
            x = rng.random()
            if x < 0.12 or not stopped and x < 0.3:
                ops.append(rng.choice(["sg", "sg", "sg", "sf"]))
                stopped = True
            elif x < 0.45:
                ops.append("p")
            elif x < 0.65:
                ops.append("a%d" % rng.choice([1, 250, 499, 500, 500, 999, 1000, 1000, 1001, 1500]))
                if rng.random() < 0.7:
                    ops.append("p")
            elif x < 0.82 and live:
                c = rng.choice(live)
                live.remove(c)
                ops.append("f%d" % c)
            elif x < 0.90:
                ops.append("c%d.%d" % (rng.randrange(n), cid))
                live.append(cid)
                cid += 1
                if rng.random() < 0.8:
                    ops.append("i")
            elif x < 0.93:
                ops.append("i")
            elif x < 0.94:
                ops.append("x")
            elif x < 0.945:
                ops.append("y")
            else:
                ops.append("p")
        cases.append(mk_case(rng.choice([1, 2, 3, 4]), rng.choice([0, 500, 1000, 1500, 2000, 3000, 5000]), svcs, ops))
    return cases


# ---------------------------------------------------------------------------------------------
# shrinking: drop ops, shorten scripts, drop services (tokens are remapped mod n)
# ---------------------------------------------------------------------------------------------
def shrink_case(case):
    cfgs, opss = case.split(";", 1)
    ops = [t for t in opss.split(" ") if t]
    n = len(ops)
    k = n // 2
    while k >= 1:
        for i in range(0, n - k + 1, max(1, k)):
            yield cfgs + ";" + " ".join(ops[:i] + ops[i + k:])
        k //= 2
    d = case_cfg(case)
    svcs = [s.split(":") for s in d["S"].split("/")]
    for i, (r, f) in enumerate(svcs):
        for j in range(len(r)):
            s2 = [list(x) for x in svcs]
            s2[i][0] = r[:j] + r[j + 1:]
            yield "L=%s,T=%s,S=%s;%s" % (d["L"], d["T"], "/".join("%s:%s" % (a, b) for a, b in s2), " ".join(ops))
        for j in range(len(f)):
            s2 = [list(x) for x in svcs]
            s2[i][1] = f[:j] + f[j + 1:]
            yield "L=%s,T=%s,S=%s;%s" % (d["L"], d["T"], "/".join("%s:%s" % (a, b) for a, b in s2), " ".join(ops))


# ---------------------------------------------------------------------------------------------
# the extracted Coq predicates, run on implementation traces by the OCaml driver
# ---------------------------------------------------------------------------------------------
class ExtractedMonitor:
    """persistent `driver <mode>` process: one 'case<TAB>trace' line in, one verdict line out"""

    def __init__(self, driver, mode):
        self.p = subprocess.Popen([driver, mode], stdin=subprocess.PIPE, stdout=subprocess.PIPE, text=True, bufsize=1)
        self.cache = {}

    def verdict(self, case, trace):
        key = (case, trace)
        if key in self.cache:
            return self.cache[key]
        if "\t" in case or "\n" in case or "\t" in trace or "\n" in trace:
            return "unparsable"
        try:
            self.p.stdin.write(case + "\t" + trace + "\n")
            self.p.stdin.flush()
            v = self.p.stdout.readline().strip()
        except (BrokenPipeError, OSError):
            v = "monitor-died"
        if not v:
            v = "monitor-died"
        self.cache[key] = v
        return v
