//! Correspondence harness for actix-service (C11, C12).
//! One case per stdin line, one trace per stdout line; same text as ocaml/service/driver.ml
//! (the part before " ## ").  Expression trees are interpreted with the REAL combinators over
//! scripted leaf services; every level is type-erased with `boxed::service` / `boxed::factory`.
//! A hand-written executor polls with a fresh waker identity per poll; leaves log the identity
//! of the waker they were polled with.
use std::cell::RefCell;
use std::collections::VecDeque;
use std::future::Future;
use std::io::{self, BufRead, Write};
use std::panic::{catch_unwind, AssertUnwindSafe};
use std::pin::Pin;
use std::rc::Rc;
use std::task::{Context, Poll, RawWaker, RawWakerVTable, Waker};

use actix_service::boxed::{self, BoxFuture, BoxService};
use actix_service::{apply_fn, fn_service, Service, ServiceExt};

mod fac;
mod sx;
use sx::Sx;

pub type Z = i64;
pub type BS = BoxService<Z, Z, Z>;

// ---------------------------------------------------------------------------------------------
// log and wakers
// ---------------------------------------------------------------------------------------------
thread_local! {
    static LOG: RefCell<Vec<String>> = const { RefCell::new(Vec::new()) };
}
pub fn log(s: String) {
    LOG.with(|l| l.borrow_mut().push(s));
}
pub fn take_log() -> String {
    LOG.with(|l| l.borrow_mut().drain(..).collect::<Vec<_>>().join(","))
}

static VTABLE: RawWakerVTable = RawWakerVTable::new(
    |p| RawWaker::new(p, &VTABLE),
    |_| {},
    |_| {},
    |_| {},
);
pub fn mk_waker(id: usize) -> Waker {
    // the data pointer IS the identity; it is never dereferenced
    unsafe { Waker::from_raw(RawWaker::new(id as *const (), &VTABLE)) }
}
/// identity of the waker in `cx`, "?" if it is not one of ours
pub fn wid(cx: &Context<'_>) -> String {
    let w = cx.waker();
    if std::ptr::eq(w.vtable(), &VTABLE) {
        format!("{}", w.data() as usize)
    } else {
        "?".to_string()
    }
}

// ---------------------------------------------------------------------------------------------
// reified closures
// ---------------------------------------------------------------------------------------------
#[derive(Clone, Copy, Debug)]
pub enum Mapper {
    Add(Z),
    Mul(Z),
    Const(Z),
    Tag(Z),
}
impl Mapper {
    pub fn parse(s: &str) -> Mapper {
        let k: Z = s[1..].parse().expect("mapper arg");
        match s.as_bytes()[0] {
            b'+' => Mapper::Add(k),
            b'*' => Mapper::Mul(k),
            b'=' => Mapper::Const(k),
            b'#' => Mapper::Tag(k),
            _ => panic!("mapper {s}"),
        }
    }
    pub fn show(&self) -> String {
        match self {
            Mapper::Add(k) => format!("+{k}"),
            Mapper::Mul(k) => format!("*{k}"),
            Mapper::Const(k) => format!("={k}"),
            Mapper::Tag(k) => format!("#{k}"),
        }
    }
    /// apply, logging the application: kind is the closure site (o e a z c i t)
    pub fn app(&self, kind: char, x: Z) -> Z {
        log(format!("m{}{}({})", kind, self.show(), x));
        match self {
            Mapper::Add(k) => x + k,
            Mapper::Mul(k) => x * k,
            Mapper::Const(k) => *k,
            Mapper::Tag(k) => 10 * x + k,
        }
    }
}

#[derive(Clone, Copy, Debug)]
pub struct Beh {
    d: Z,
    dm: Z,
    ec: Z,
    m: Mapper,
    off: Z,
}
impl Beh {
    pub fn parse(d: &str, dm: &str, ec: &str, m: &str) -> Beh {
        Beh { d: d.parse().unwrap(), dm: dm.parse().unwrap(), ec: ec.parse().unwrap(), m: Mapper::parse(m), off: 0 }
    }
    /// the behaviour of a leaf built by a leaf factory with config z: the request is offset by z
    pub fn with_off(&self, off: Z) -> Beh {
        Beh { off, ..*self }
    }
    fn eval(&self, req: Z) -> (usize, Result<Z, Z>) {
        let req = req + self.off;
        let k = (self.d + self.dm * req).rem_euclid(3) as usize;
        let r = if self.ec >= 0 && req.rem_euclid(3) == self.ec {
            Err(100 + req)
        } else {
            Ok(match self.m {
                Mapper::Add(k) => req + k,
                Mapper::Mul(k) => req * k,
                Mapper::Const(k) => k,
                Mapper::Tag(k) => 10 * req + k,
            })
        };
        (k, r)
    }
}

pub fn show_res(r: &Result<Z, Z>) -> String {
    match r {
        Ok(v) => format!("O{v}"),
        Err(e) => format!("E{e}"),
    }
}

// ---------------------------------------------------------------------------------------------
// scripted leaves
// ---------------------------------------------------------------------------------------------
#[derive(Clone, Copy, Debug)]
pub enum Rans {
    Pending,
    Ok,
    Err(Z),
}
pub fn parse_rs(s: &str) -> VecDeque<Rans> {
    let mut out = VecDeque::new();
    if s == "-" {
        return out;
    }
    let b = s.as_bytes();
    let mut i = 0;
    while i < b.len() {
        match b[i] {
            b'p' => out.push_back(Rans::Pending),
            b'o' => out.push_back(Rans::Ok),
            b'e' => {
                i += 1;
                out.push_back(Rans::Err((b[i] - b'0') as Z))
            }
            _ => panic!("rs {s}"),
        }
        i += 1;
    }
    out
}

pub struct Leaf {
    pub id: usize,
    pub rs: RefCell<VecDeque<Rans>>,
    pub beh: Beh,
}

pub struct LeafFut {
    id: usize,
    k: usize,
    out: Result<Z, Z>,
    done: bool,
}
impl LeafFut {
    pub fn start(id: usize, beh: &Beh, req: Z) -> LeafFut {
        log(format!("c{}({})", id, req));
        let (k, out) = beh.eval(req);
        LeafFut { id, k, out, done: false }
    }
}
impl Future for LeafFut {
    type Output = Result<Z, Z>;
    fn poll(mut self: Pin<&mut Self>, cx: &mut Context<'_>) -> Poll<Self::Output> {
        let w = wid(cx);
        if self.done {
            // recorded, not a panic: the log shows the contract violation
            log(format!("x{}@{}", self.id, w));
            return Poll::Ready(self.out);
        }
        if self.k == 0 {
            self.done = true;
            log(format!("f{}@{}:{}", self.id, w, show_res(&self.out)));
            Poll::Ready(self.out)
        } else {
            self.k -= 1;
            log(format!("f{}@{}:p", self.id, w));
            Poll::Pending
        }
    }
}

impl Service<Z> for Leaf {
    type Response = Z;
    type Error = Z;
    type Future = LeafFut;

    fn poll_ready(&self, cx: &mut Context<'_>) -> Poll<Result<(), Z>> {
        let a = self.rs.borrow_mut().pop_front().unwrap_or(Rans::Ok);
        let w = wid(cx);
        match a {
            Rans::Pending => {
                log(format!("r{}@{}:p", self.id, w));
                Poll::Pending
            }
            Rans::Ok => {
                log(format!("r{}@{}:o", self.id, w));
                Poll::Ready(Ok(()))
            }
            Rans::Err(e) => {
                log(format!("r{}@{}:e{}", self.id, w, e));
                Poll::Ready(Err(e))
            }
        }
    }

    fn call(&self, req: Z) -> LeafFut {
        LeafFut::start(self.id, &self.beh, req)
    }
}

/// the future returned by the harness's `apply_fn` closure: maps Ok with `post`
pub struct PostFut {
    fut: BoxFuture<Result<Z, Z>>,
    post: Mapper,
}
impl PostFut {
    pub fn new(fut: BoxFuture<Result<Z, Z>>, post: Mapper) -> PostFut {
        PostFut { fut, post }
    }
}
impl Future for PostFut {
    type Output = Result<Z, Z>;
    fn poll(mut self: Pin<&mut Self>, cx: &mut Context<'_>) -> Poll<Self::Output> {
        match self.fut.as_mut().poll(cx) {
            Poll::Ready(Ok(v)) => Poll::Ready(Ok(self.post.app('z', v))),
            Poll::Ready(Err(e)) => Poll::Ready(Err(e)),
            Poll::Pending => Poll::Pending,
        }
    }
}

pub fn parse_res(s: &str) -> Result<Z, Z> {
    let k: Z = s[1..].parse().unwrap();
    match s.as_bytes()[0] {
        b'O' => Ok(k),
        b'E' => Err(k),
        _ => panic!("res {s}"),
    }
}

// ---------------------------------------------------------------------------------------------
// service expressions -> real combinators
// ---------------------------------------------------------------------------------------------
pub fn build(x: &Sx) -> BS {
    let l = x.list();
    match l[0].atom() {
        "L" => boxed::service(Leaf {
            id: l[1].atom().parse().unwrap(),
            rs: RefCell::new(parse_rs(l[2].atom())),
            beh: Beh::parse(l[3].atom(), l[4].atom(), l[5].atom(), l[6].atom()),
        }),
        "F" => {
            let id: usize = l[1].atom().parse().unwrap();
            let beh = Beh::parse(l[2].atom(), l[3].atom(), l[4].atom(), l[5].atom());
            // FnServiceFactory<.., Cfg = ()> used as a Service
            let s = fn_service::<_, _, Z, Z, Z, ()>(move |req: Z| LeafFut::start(id, &beh, req));
            boxed::service(s)
        }
        "A" => boxed::service(build(&l[1]).and_then(build(&l[2]))),
        "M" => {
            let m = Mapper::parse(l[1].atom());
            boxed::service(build(&l[2]).map(move |v| m.app('o', v)))
        }
        "E" => {
            let m = Mapper::parse(l[1].atom());
            boxed::service(build(&l[2]).map_err(move |e| m.app('e', e)))
        }
        "P" => {
            let pre = Mapper::parse(l[1].atom());
            let post = Mapper::parse(l[2].atom());
            boxed::service(apply_fn(build(&l[3]), move |req: Z, svc: &BS| {
                let fut = svc.call(pre.app('a', req));
                PostFut { fut, post }
            }))
        }
        "K" => {
            let r = parse_res(l[1].atom());
            boxed::service(apply_fn(build(&l[2]), move |_req: Z, _svc: &BS| std::future::ready(r)))
        }
        "W" => {
            let inner = build(&l[2]);
            match l[1].atom() {
                "bx" => boxed::service(inner),
                "rd" => boxed::service(boxed::rc_service(inner)),
                "rc" => boxed::service(Rc::new(inner)),
                "bo" => boxed::service(Box::new(inner)),
                "rf" => {
                    let r: &'static BS = Box::leak(Box::new(inner));
                    boxed::service(r)
                }
                "mr" => {
                    let r: &'static mut BS = Box::leak(Box::new(inner));
                    boxed::service(r)
                }
                "ce" => boxed::service(RefCell::new(inner)),
                k => panic!("wrapk {k}"),
            }
        }
        h => panic!("sexpr head {h}"),
    }
}

// ---------------------------------------------------------------------------------------------
// the executor
// ---------------------------------------------------------------------------------------------
pub const FUEL: usize = 40;

/// runs the client ops on a service; the waker counter continues from `w`
pub fn run_ops(svc: &BS, w: &mut usize, ops: &[&str]) -> Vec<String> {
    let mut out = Vec::new();
    for op in ops {
        if *op == "R" {
            let wk = mk_waker(*w);
            *w += 1;
            let mut cx = Context::from_waker(&wk);
            let r = catch_unwind(AssertUnwindSafe(|| svc.poll_ready(&mut cx)));
            let a = match r {
                Ok(Poll::Pending) => "p".to_string(),
                Ok(Poll::Ready(Ok(()))) => "o".to_string(),
                Ok(Poll::Ready(Err(e))) => format!("e{e}"),
                Err(_) => "X".to_string(),
            };
            out.push(format!("R[{}]={}", take_log(), a));
        } else if let Some(req) = op.strip_prefix('C') {
            let req: Z = req.parse().unwrap();
            let fut = catch_unwind(AssertUnwindSafe(|| svc.call(req)));
            let mut polls = 0;
            let mut res = "P".to_string();
            match fut {
                Err(_) => res = "X".to_string(),
                Ok(mut fut) => {
                    while polls < FUEL {
                        let wk = mk_waker(*w);
                        *w += 1;
                        polls += 1;
                        let mut cx = Context::from_waker(&wk);
                        match catch_unwind(AssertUnwindSafe(|| fut.as_mut().poll(&mut cx))) {
                            Ok(Poll::Pending) => {}
                            Ok(Poll::Ready(r)) => {
                                res = show_res(&r);
                                break;
                            }
                            Err(_) => {
                                res = "X".to_string();
                                break;
                            }
                        }
                    }
                    // a future that panicked must not be dropped normally if it is poisoned; leak it
                    std::mem::forget(fut);
                }
            }
            out.push(format!("C[{}]={}/{}", take_log(), res, polls));
        } else {
            panic!("op {op}");
        }
    }
    out
}

fn svc_case(line: &str) -> String {
    let parts: Vec<&str> = line.split(';').map(|s| s.trim()).collect();
    assert!(parts.len() == 2, "case");
    let e = sx::parse(parts[0]);
    let svc = build(&e);
    let ops: Vec<&str> = parts[1].split_whitespace().collect();
    let mut w = 0usize;
    run_ops(&svc, &mut w, &ops).join(" ")
}

fn main() {
    let mode = std::env::args().nth(1).expect("mode");
    let f: fn(&str) -> String = match mode.as_str() {
        "svc" => svc_case,
        "fac" => fac::fac_case,
        m => panic!("unknown mode {m}"),
    };
    std::panic::set_hook(Box::new(|_| {}));
    let stdin = io::stdin();
    let stdout = io::stdout();
    let mut out = io::BufWriter::new(stdout.lock());
    for line in stdin.lock().lines() {
        let line = line.unwrap();
        let _ = take_log();
        let r = catch_unwind(|| f(&line)).unwrap_or_else(|_| "PANIC".to_string());
        writeln!(out, "{}", r).unwrap();
    }
}
