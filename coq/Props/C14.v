(* Props/C14.v — Framed writes are lossless, ordered and bounded, and close flushes.
   ONLY statements, each closed by `exact <lemma>`, non-vacuity Examples, Print Assumptions.

   Vocabulary (Model/Framed.v, Proofs/FramedFacts.v):
     wstate            write_buf and the scripted transport's remaining answers to poll_write
                       (accept k / Pending / zero / error), poll_flush and poll_shutdown;
     wstep encode st op = (r, st', evs)
                       one Sink call (OReady | OSend item | OFlush | OClose): its return value,
                       the state afterwards and what the transport recorded during the call;
     run_write encode ops st = (outs, fin)
                       any sequence of Sink calls; one (result, events, is_empty, is_full) per call;
     wire evs / wire_of outs
                       the bytes the transport took, in order;
     sent encb ops outs
                       the concatenation, in call order, of the encodings of the items whose
                       start_send returned Ok;
     enc_law encode encb
                       Encoder::encode either appends `encb item` to dst or fails leaving dst untouched;
     ends_with evs l   evs = (non-empty writes only) ++ l. *)
From AN Require Import Model.Lines Model.Framed Proofs.LinesFacts Proofs.FramedFacts.

(* For ALL call sequences, ALL transport scripts and ANY initial buffer: bytes on the wire
   followed by write_buf are exactly what was buffered plus the encodings of the accepted
   items, in order.  Nothing is lost, duplicated or reordered, under any pattern of partial
   writes, Pending, zero-length writes and errors. *)
Theorem C14_lossless :
  forall (I : Type) (encode : I -> list Z -> bool * list Z) (encb : I -> option (list Z)),
  enc_law encode encb ->
  forall (ops : list (wop I)) (st : wstate) (outs : list (wres * list wev * bool * bool)) (fin : wstate),
  run_write encode ops st = (outs, fin) ->
  wire_of outs ++ wbuf fin = wbuf st ++ sent encb ops outs.
Proof. exact write_lossless. Qed.

(* ... at every point of every run (ops1 is any prefix of the calls): the wire is a prefix of the
   concatenation of what has been accepted so far, the rest of it is write_buf *)
Theorem C14_lossless_prefix :
  forall (I : Type) (encode : I -> list Z -> bool * list Z) (encb : I -> option (list Z)),
  enc_law encode encb ->
  forall (ops1 ops2 : list (wop I)) (st : wstate) (outs1 : list (wres * list wev * bool * bool)) (mid : wstate),
  wbuf st = [] ->
  run_write encode ops1 st = (outs1, mid) ->
  sent encb ops1 outs1 = wire_of outs1 ++ wbuf mid /\
  (exists (outs2 : list (wres * list wev * bool * bool)) (fin : wstate),
     run_write encode (ops1 ++ ops2) st = (outs1 ++ outs2, fin) /\
     wire_of (outs1 ++ outs2) = wire_of outs1 ++ wire_of outs2).
Proof. exact write_prefix. Qed.

(* poll_flush reports success only with nothing buffered: the call wrote out exactly the buffer
   and then the transport's own flush answered Ok *)
Theorem C14_flush_ok :
  forall (I : Type) (encode : I -> list Z -> bool * list Z) (st st' : wstate) (evs : list wev),
  wstep encode st OFlush = (ROk, st', evs) ->
  wbuf st' = [] /\ wire evs = wbuf st /\ ends_with evs [EvFlush FOk].
Proof. exact flush_ok. Qed.

(* poll_close reports success only with nothing buffered: buffer written out, transport flushed,
   then shut down (full strength; holds for framed.rs as repaired by /repo commit c905ff7) *)
Theorem C14_close_ok :
  forall (I : Type) (encode : I -> list Z -> bool * list Z) (st st' : wstate) (evs : list wev),
  wstep encode st OClose = (ROk, st', evs) ->
  wbuf st' = [] /\ wire evs = wbuf st /\ ends_with evs [EvFlush FOk; EvShutdown FOk].
Proof. exact close_ok. Qed.

(* consequently, after a successful poll_flush/poll_close anywhere in a run that started with an
   empty buffer, the wire is EXACTLY the concatenation of the accepted items' encodings *)
Theorem C14_complete :
  forall (I : Type) (encode : I -> list Z -> bool * list Z) (encb : I -> option (list Z)),
  enc_law encode encb ->
  forall (ops : list (wop I)) (op : wop I) (st : wstate) (outs1 : list (wres * list wev * bool * bool))
         (mid st' : wstate) (evs : list wev),
  wbuf st = [] ->
  run_write encode ops st = (outs1, mid) ->
  op = OFlush \/ op = OClose ->
  wstep encode mid op = (ROk, st', evs) ->
  wire_of outs1 ++ wire evs = sent encb ops outs1 /\ wbuf st' = [].
Proof. exact write_complete. Qed.

(* D4, the pinned tree: `close` polled the transport's poll_flush instead of Framed::flush, so
   poll_close returned Ready(Ok) with bytes still buffered and none of them written.
   `close_pinned` is that former code (no longer in /repo). *)
Theorem C14_pinned_close_refuted :
  exists st : wstate,
    let '(r, st', evs) := close_pinned st in r = ROk /\ wbuf st' <> [] /\ wire evs = [].
Proof. exact close_pinned_refuted. Qed.

(* back-pressure: below the high-water mark poll_ready is Ready(Ok) and touches nothing; from
   HW = 8192 bytes on it IS poll_flush; and it never says Ok while the buffer is still full *)
Theorem C14_backpressure_below :
  forall (I : Type) (encode : I -> list Z -> bool * list Z) (st : wstate),
  (wlen st < HW)%N -> wstep encode st OReady = (ROk, st, []).
Proof. exact ready_below_hw. Qed.

Theorem C14_backpressure_at_hw :
  forall (I : Type) (encode : I -> list Z -> bool * list Z) (st : wstate),
  (HW <= wlen st)%N -> wstep encode st OReady = wstep encode st OFlush.
Proof. exact ready_at_hw. Qed.

Theorem C14_backpressure_ok_means_room :
  forall (I : Type) (encode : I -> list Z -> bool * list Z) (st st' : wstate) (evs : list wev),
  wstep encode st OReady = (ROk, st', evs) -> (wlen st' < HW)%N.
Proof. exact ready_ok_not_full. Qed.

(* start_send never touches the transport *)
Theorem C14_send_no_io :
  forall (I : Type) (encode : I -> list Z -> bool * list Z) (st : wstate) (it : I) (r : wres)
         (st' : wstate) (evs : list wev),
  wstep encode st (OSend it) = (r, st', evs) -> evs = [] /\ (r = ROk \/ r = REncErr).
Proof. exact send_no_io. Qed.

(* a zero-length write is reported as WriteZero, by whichever call ran into it, exactly then;
   it is the last thing that call does, and the unwritten bytes stay buffered *)
Theorem C14_write_zero :
  forall (I : Type) (encode : I -> list Z -> bool * list Z) (st : wstate) (op : wop I) (r : wres)
         (st' : wstate) (evs : list wev),
  wstep encode st op = (r, st', evs) ->
  (r = RWriteZero <-> In EvWZero evs) /\
  (r = RWriteZero -> ends_with evs [EvWZero] /\ wbuf st' <> [] /\ wire evs ++ wbuf st' = wbuf st).
Proof. exact write_zero. Qed.

Theorem C14_write_zero_first :
  forall (I : Type) (encode : I -> list Z -> bool * list Z) (st : wstate) (w : list wans),
  wbuf st <> [] ->
  ws st = WZero :: w \/ ws st = WAccept 0 :: w ->
  wstep encode st OFlush = (RWriteZero, {| wbuf := wbuf st; ws := w; fs := fs st; ss := ss st |}, [EvWZero]).
Proof. exact flush_zero_first. Qed.

(* the three encoders of the correspondence run satisfy the law *)
Theorem C14_lines_enc_law : enc_law lines_encode lines_encb.
Proof. exact lines_enc_law. Qed.
Theorem C14_bytes_enc_law : enc_law bytes_encode bytes_encb.
Proof. exact bytes_enc_law. Qed.
Theorem C14_lp_enc_law : enc_law lp_encode lp_encb.
Proof. exact lp_enc_law. Qed.

(* ---- non-vacuity ---- *)
(* two items, a partial write, Pending, the rest, transport flush Pending then Ok, close *)
Example C14_example_run :
  run_write lines_encode [OSend [97; 98]; OSend [99]; OFlush; OFlush; OFlush; OClose]
            (mkW [] [WAccept 2; WPending; WAccept 100] [FPending] [])
  = ([(ROk, [], false, false); (ROk, [], false, false);
      (RPend, [EvWrite [97; 98]; EvWPending], false, false);
      (RPend, [EvWrite [10; 99; 10]; EvFlush FPending], true, false);
      (ROk, [EvFlush FOk], true, false);
      (ROk, [EvFlush FOk; EvShutdown FOk], true, false)],
     mkW [] [] [] []).
Proof. vm_compute. reflexivity. Qed.

(* close with data buffered and a transport that takes it in two pieces: everything is written
   before the shutdown (the D4 witness state, on the repaired close) *)
Example C14_example_close :
  wstep lp_encode (mkW [0; 1; 97] [WAccept 1] [] []) OClose
  = (ROk, mkW [] [] [] [], [EvWrite [0]; EvWrite [1; 97]; EvFlush FOk; EvShutdown FOk]).
Proof. vm_compute. reflexivity. Qed.

(* the buffer reaches HW exactly: poll_ready turns into a flush; one byte less: it does not *)
Example C14_example_hw :
  let full := mkW (repeat 97 (N.to_nat HW)) [WPending] [] [] in
  let almost := mkW (repeat 97 (N.to_nat HW - 1)) [WPending] [] [] in
  fst (fst (wstep bytes_encode full OReady)) = RPend
  /\ snd (wstep bytes_encode full OReady) = [EvWPending]
  /\ wstep bytes_encode almost OReady = (ROk, almost, []).
Proof. vm_compute. repeat split; reflexivity. Qed.

(* a refused item (lp payload of 255 bytes) leaves the buffer alone; zero-length write *)
Example C14_example_enc_err_and_zero :
  fst (run_write lp_encode [OSend (repeat 97 255); OSend [98]; OFlush; OFlush] (mkW [] [WAccept 1; WZero] [] []))
  = [(REncErr, [], true, false); (ROk, [], false, false);
     (RWriteZero, [EvWrite [1]; EvWZero], false, false); (ROk, [EvWrite [98]; EvFlush FOk], true, false)].
Proof. vm_compute. reflexivity. Qed.

(* Conversions of a Framed that carry its buffers over (from_parts(into_parts()), into_map_io, into_map_codec, replace_codec)
   are the model's OConv: they may be interleaved with the Sink calls anywhere — C14_lossless, C14_lossless_prefix, C14_complete
   quantify over ALL sequences of wop, OConv included — and by themselves change nothing and reach no transport. *)
Theorem C14_conv : forall (I : Type) (encode : I -> list Z -> bool * list Z) st,
  wstep encode st OConv = (ROk, st, []).
Proof. exact conv_noop. Qed.

Print Assumptions C14_lossless.
Print Assumptions C14_lossless_prefix.
Print Assumptions C14_flush_ok.
Print Assumptions C14_close_ok.
Print Assumptions C14_complete.
Print Assumptions C14_pinned_close_refuted.
Print Assumptions C14_backpressure_below.
Print Assumptions C14_backpressure_at_hw.
Print Assumptions C14_backpressure_ok_means_room.
Print Assumptions C14_send_no_io.
Print Assumptions C14_write_zero.
Print Assumptions C14_write_zero_first.
Print Assumptions C14_lines_enc_law.
Print Assumptions C14_bytes_enc_law.
Print Assumptions C14_lp_enc_law.
Print Assumptions C14_conv.
