(* Proofs/ConnectFacts.v — lemmas about Model/Connect.v (C19). *)
From AN Require Import Model.Connect.
From Coq Require Import Lia.

(* ------------------------------------------------------------ split_once(':') *)

Lemma split_colon_none : forall s, split_colon s = None <-> ~ In 58 s.
Proof.
  induction s as [|c t IH]; cbn [split_colon].
  - split; [intros _ H; inversion H | reflexivity].
  - destruct (c =? 58) eqn:E.
    + apply Z.eqb_eq in E. split; [discriminate | intros H; exfalso; apply H; left; exact E].
    + apply Z.eqb_neq in E. destruct (split_colon t) as [[a r]|] eqn:S.
      * split; [discriminate|]. intros H. exfalso.
        assert (N : ~ In 58 t) by (intros I; apply H; right; exact I).
        apply IH in N. discriminate.
      * split; [|reflexivity]. intros _ [H|H]; [congruence|].
        destruct IH as [IH1 _]. exact (IH1 eq_refl H).
Qed.

Lemma split_colon_some : forall s h r,
  split_colon s = Some (h, r) -> s = h ++ 58 :: r /\ ~ In 58 h.
Proof.
  induction s as [|c t IH]; cbn [split_colon]; intros h r H; [discriminate|].
  destruct (c =? 58) eqn:E.
  - apply Z.eqb_eq in E. inversion H; subst. split; [reflexivity | intros I; inversion I].
  - apply Z.eqb_neq in E. destruct (split_colon t) as [[a r']|] eqn:S; [|discriminate].
    inversion H; subst. destruct (IH a r eq_refl) as [-> N]. split; [reflexivity|].
    intros [I|I]; [congruence | exact (N I)].
Qed.

Lemma split_colon_app : forall h r, ~ In 58 h -> split_colon (h ++ 58 :: r) = Some (h, r).
Proof.
  induction h as [|c t IH]; intros r N; cbn [app split_colon].
  - reflexivity.
  - destruct (c =? 58) eqn:E.
    + apply Z.eqb_eq in E. exfalso; apply N; left; exact E.
    + rewrite IH; [reflexivity|]. intros I; apply N; right; exact I.
Qed.

Lemma hostname_no_colon : forall s, ~ In 58 (hostname s).
Proof.
  intros s. unfold hostname. destruct (split_colon s) as [[h r]|] eqn:S.
  - apply split_colon_some in S. tauto.
  - apply split_colon_none. exact S.
Qed.

(* hostname ++ rest reconstruction *)
Lemma host_parse : forall s,
  (~ In 58 s /\ hostname s = s /\ port s = None)
  \/ (exists r, s = hostname s ++ 58 :: r /\ ~ In 58 (hostname s) /\ port s = parse_u16 r).
Proof.
  intros s. unfold hostname, port. destruct (split_colon s) as [[h r]|] eqn:S.
  - right. exists r. apply split_colon_some in S. destruct S as [-> N]. auto.
  - left. apply split_colon_none in S. auto.
Qed.

Lemma host_of_parts : forall h r, ~ In 58 h ->
  hostname (h ++ 58 :: r) = h /\ port (h ++ 58 :: r) = parse_u16 r.
Proof. intros h r N. unfold hostname, port. rewrite split_colon_app by exact N. auto. Qed.

Lemma host_no_port : forall s, ~ In 58 s -> hostname s = s /\ port s = None.
Proof. intros s N. unfold hostname, port. apply split_colon_none in N. rewrite N. auto. Qed.

(* --------------------------------------------------------------- u16 grammar *)

Definition is_digit (c : Z) : Prop := 48 <= c <= 57.

(* value of a digit string read in base 10, continuing from acc *)
Definition dec_from (acc : Z) (ds : str) : Z := fold_left (fun a c => a * 10 + (c - 48)) ds acc.
Definition dec_val (ds : str) : Z := dec_from 0 ds.

Lemma digit_some : forall c d, digit c = Some d <-> is_digit c /\ d = c - 48.
Proof.
  intros c d. unfold digit, is_digit.
  destruct (48 <=? c) eqn:A; destruct (c <=? 57) eqn:B; cbn [andb];
    try apply Z.leb_le in A; try apply Z.leb_le in B;
    try apply Z.leb_gt in A; try apply Z.leb_gt in B;
    split; intros H; try discriminate; try lia.
  - inversion H. lia.
  - destruct H as [_ ->]. reflexivity.
Qed.

Lemma digit_none : forall c, digit c = None <-> ~ is_digit c.
Proof.
  intros c. unfold digit, is_digit.
  destruct (48 <=? c) eqn:A; destruct (c <=? 57) eqn:B; cbn [andb];
    try apply Z.leb_le in A; try apply Z.leb_le in B;
    try apply Z.leb_gt in A; try apply Z.leb_gt in B;
    split; intros H; try discriminate; try reflexivity; try lia.
Qed.

Lemma dec_from_mono : forall ds acc, Forall is_digit ds -> 0 <= acc -> acc <= dec_from acc ds.
Proof.
  induction ds as [|c t IH]; intros acc F A; cbn [dec_from fold_left]; [lia|].
  inversion F as [|? ? D F']; subst. unfold is_digit in D.
  fold (dec_from (acc * 10 + (c - 48)) t).
  specialize (IH (acc * 10 + (c - 48)) F'). lia.
Qed.

(* the accumulator never exceeds 65535 once a digit has been read; state the invariant on entry *)
Lemma parse_digits_spec : forall s acc n, 0 <= acc <= 65535 ->
  (parse_digits acc s = Some n <-> Forall is_digit s /\ dec_from acc s = n /\ n <= 65535).
Proof.
  induction s as [|c t IH]; intros acc n A; cbn [parse_digits dec_from fold_left].
  - split.
    + intros H. inversion H; subst. repeat split; [constructor | lia].
    + intros [_ [-> _]]. reflexivity.
  - fold (dec_from (acc * 10 + (c - 48)) t).
    destruct (digit c) as [d|] eqn:D.
    + apply digit_some in D. destruct D as [D ->].
      destruct (65535 <? acc * 10) eqn:O1.
      * apply Z.ltb_lt in O1. split; [discriminate|]. intros [F [V L]].
        inversion F as [|? ? _ F']; subst.
        pose proof (dec_from_mono t (acc * 10 + (c - 48)) F') as M. unfold is_digit in D. lia.
      * apply Z.ltb_ge in O1.
        destruct (65535 <? acc * 10 + (c - 48)) eqn:O2.
        -- apply Z.ltb_lt in O2. split; [discriminate|]. intros [F [V L]].
           inversion F as [|? ? _ F']; subst.
           pose proof (dec_from_mono t (acc * 10 + (c - 48)) F') as M. unfold is_digit in D. lia.
        -- apply Z.ltb_ge in O2. unfold is_digit in D.
           rewrite IH by lia. split.
           ++ intros [F R]. split; [constructor; [exact D | exact F] | exact R].
           ++ intros [F R]. inversion F; subst. auto.
    + apply digit_none in D. split; [discriminate|]. intros [F _]. inversion F; subst. contradiction.
Qed.

Lemma not_digit_sign : ~ is_digit 43 /\ ~ is_digit 45.
Proof. unfold is_digit. lia. Qed.

(* <u16 as FromStr>: an optional single '+', then one or more decimal digits, value <= 65535
   (leading zeros allowed, '-' never, no blanks) *)
Lemma parse_u16_spec : forall s n,
  parse_u16 s = Some n <->
  exists ds, (s = ds \/ s = 43 :: ds) /\ ds <> [] /\ Forall is_digit ds /\ dec_val ds = n /\ n <= 65535.
Proof.
  intros s n. unfold parse_u16, dec_val.
  destruct s as [|c t].
  - split; [discriminate|]. intros [ds [[E|E] [NE _]]]; [subst; contradiction | discriminate].
  - destruct t as [|c2 t2].
    + destruct ((c =? 43) || (c =? 45)) eqn:S.
      * split; [discriminate|]. intros [ds [[E|E] [NE [F _]]]].
        -- subst ds. inversion F as [|? ? D _]; subst.
           exfalso. apply orb_true_iff in S. destruct S as [S|S]; apply Z.eqb_eq in S; subst c;
             [exact (proj1 not_digit_sign D) | exact (proj2 not_digit_sign D)].
        -- inversion E; subst. contradiction.
      * apply orb_false_iff in S. destruct S as [S1 S2]. apply Z.eqb_neq in S1.
        rewrite parse_digits_spec by lia. split.
        -- intros [F R]. exists [c]. split; [left; reflexivity|]. split; [discriminate|]. auto.
        -- intros [ds [[E|E] [NE [F R]]]]; [subst ds; auto | inversion E; congruence].
    + destruct (c =? 43) eqn:S.
      * apply Z.eqb_eq in S. subst c. rewrite parse_digits_spec by lia. split.
        -- intros [F R]. exists (c2 :: t2). split; [right; reflexivity|]. split; [discriminate|]. auto.
        -- intros [ds [[E|E] [NE [F R]]]].
           ++ subst ds. inversion F as [|? ? D _]; subst. exfalso. exact (proj1 not_digit_sign D).
           ++ inversion E; subst. auto.
      * apply Z.eqb_neq in S. rewrite parse_digits_spec by lia. split.
        -- intros [F R]. exists (c :: c2 :: t2). split; [left; reflexivity|]. split; [discriminate|]. auto.
        -- intros [ds [[E|E] [NE [F R]]]]; [subst ds; auto | inversion E; congruence].
Qed.

Lemma parse_u16_range : forall s n, parse_u16 s = Some n -> 0 <= n <= 65535.
Proof.
  intros s n H. apply parse_u16_spec in H. destruct H as [ds [_ [_ [F [V L]]]]].
  split; [|exact L]. subst n. unfold dec_val. apply (dec_from_mono ds 0 F). lia.
Qed.

(* ------------------------------------------------------------------ info.rs *)

Lemma wf_apply_bop : forall c o, wf_addrs (ci_addr c) = true -> wf_addrs (ci_addr (apply_bop c o)) = true.
Proof.
  intros c o W. destruct o as [p|a|l|i]; cbn; try exact W.
  - destruct a; reflexivity.
  - destruct l as [|a [|b t]]; reflexivity.
Qed.

Lemma wf_fold : forall ops c, wf_addrs (ci_addr c) = true ->
  wf_addrs (ci_addr (fold_left apply_bop ops c)) = true.
Proof. induction ops as [|o t IH]; intros c W; cbn [fold_left]; [exact W|]. apply IH, wf_apply_bop, W. Qed.

Lemma wf_build : forall req k ops, wf_addrs (ci_addr (build req k ops)) = true.
Proof. intros req k ops. unfold build. apply wf_fold. destruct k; reflexivity. Qed.

Lemma req_fold : forall ops c, ci_req (fold_left apply_bop ops c) = ci_req c.
Proof.
  induction ops as [|o t IH]; intros c; cbn [fold_left]; [reflexivity|].
  rewrite IH. destruct o; reflexivity.
Qed.

Lemma req_build : forall req k ops, ci_req (build req k ops) = req.
Proof. intros req k ops. unfold build. rewrite req_fold. destruct k; reflexivity. Qed.

(* the effective values a builder script leaves behind: the last of each kind *)
Fixpoint last_port (ops : list bop) (d : Z) : Z :=
  match ops with [] => d | BPort p :: t => last_port t p | _ :: t => last_port t d end.
Fixpoint last_local (ops : list bop) (d : option ip) : option ip :=
  match ops with [] => d | BLocal i :: t => last_local t (Some i) | _ :: t => last_local t d end.
Fixpoint last_addrs (ops : list bop) (d : list sockaddr) : list sockaddr :=
  match ops with
  | [] => d
  | BAddr o :: t => last_addrs t (match o with Some a => [a] | None => [] end)
  | BAddrs l :: t => last_addrs t l
  | _ :: t => last_addrs t d
  end.

Lemma addrs_set_addrs : forall c l, ci_addrs (set_addrs c l) = l.
Proof. intros c l. destruct l as [|a [|b t]]; reflexivity. Qed.

Lemma fold_fields : forall ops c,
  ci_port (fold_left apply_bop ops c) = last_port ops (ci_port c)
  /\ ci_local (fold_left apply_bop ops c) = last_local ops (ci_local c)
  /\ ci_addrs (fold_left apply_bop ops c) = last_addrs ops (ci_addrs c).
Proof.
  induction ops as [|o t IH]; intros c; cbn [fold_left]; [auto|].
  destruct (IH (apply_bop c o)) as [P [L A]]. rewrite P, L, A.
  destruct o as [p|a|l|i]; cbn [apply_bop last_port last_local last_addrs].
  - auto.
  - repeat split. destruct a; reflexivity.
  - repeat split. rewrite addrs_set_addrs. reflexivity.
  - auto.
Qed.

Definition ctor_addrs (k : ctor) : list sockaddr := match k with CNew => [] | CWith a => [a] end.

Lemma build_fields : forall req k ops,
  ci_hostname (build req k ops) = hostname req
  /\ ci_get_port (build req k ops)
     = match port req with Some p => p | None => last_port ops 0 end
  /\ ci_addrs (build req k ops) = last_addrs ops (ctor_addrs k)
  /\ ci_local (build req k ops) = last_local ops None.
Proof.
  intros req k ops. unfold ci_hostname, ci_get_port. rewrite req_build.
  unfold build. destruct (fold_fields ops (match k with CNew => ci_new req | CWith a => ci_with_addr req a end))
    as [P [L A]].
  rewrite P, L, A. destruct k; cbn [ci_new ci_with_addr ci_port ci_local ci_addrs ci_addr ctor_addrs];
    destruct (port req); auto.
Qed.

Lemma addrs_nil_iff : forall c, wf_addrs (ci_addr c) = true -> (ci_addrs c = [] <-> ci_addr c = ANone).
Proof.
  intros c W. unfold ci_addrs. destruct (ci_addr c) as [|a|[|a [|b t]]]; cbn in *;
    split; intros H; try discriminate; try reflexivity.
Qed.

Lemma last_cons : forall (A : Type) (t : list A) (a d : A), last (a :: t) d = last t a.
Proof.
  intros A. induction t as [|b t IH]; intros a d; [reflexivity|].
  change (last (a :: b :: t) d) with (last (b :: t) d). rewrite IH.
  change (last (b :: t) a) with (last (b :: t) a). rewrite (IH b a). reflexivity.
Qed.

Section ConnectorFacts.
  Variable parse_ip : str -> option ip.
  Variable lookup : str -> Z -> lookup_ans.
  Variable dial : nat -> sockaddr -> option ip -> dial_ans.

  Notation resolve := (resolve parse_ip lookup).
  Notation tcp_loop := (tcp_loop dial).
  Notation tcp_connect := (tcp_connect dial).
  Notation connect := (connect parse_ip lookup dial).

  (* ---------------------------------------------------------- resolver.rs *)

  Lemma resolve_resolved : forall c, ci_addr c <> ANone -> resolve c = ([], ROk c).
  Proof.
    intros c H. unfold Connect.resolve, is_resolved. destruct (ci_addr c); [contradiction| |]; reflexivity.
  Qed.

  Lemma resolve_literal : forall c i,
    ci_addr c = ANone -> parse_ip (ci_hostname c) = Some i ->
    resolve c = ([], ROk (mkci (ci_req c) (ci_port c) (AOne (i, ci_get_port c)) (ci_local c))).
  Proof.
    intros c i A P. unfold Connect.resolve, is_resolved. rewrite A, P. reflexivity.
  Qed.

  Lemma resolve_lookup : forall c,
    ci_addr c = ANone -> parse_ip (ci_hostname c) = None ->
    resolve c =
      ([ELookup (ci_hostname c) (ci_get_port c)],
       match lookup (ci_hostname c) (ci_get_port c) with
       | LFail => RErr ErrResolver
       | LJoin e => RErr (ErrIo e)
       | LOk [] => RErr ErrNoRecords
       | LOk l => ROk (set_addrs c l)
       end).
  Proof.
    intros c A P. unfold Connect.resolve, is_resolved. rewrite A, P. cbn [is_unresolved negb].
    destruct (lookup (ci_hostname c) (ci_get_port c)) as [l| |e]; try reflexivity.
    destruct l as [|a [|b t]]; reflexivity.
  Qed.

  Lemma resolve_keeps : forall c evs c',
    resolve c = (evs, ROk c') ->
    ci_req c' = ci_req c /\ ci_port c' = ci_port c /\ ci_local c' = ci_local c
    /\ ci_addr c' <> ANone
    /\ (wf_addrs (ci_addr c) = true -> wf_addrs (ci_addr c') = true).
  Proof.
    intros c evs c' H. unfold Connect.resolve in H.
    destruct (is_resolved (ci_addr c)) eqn:R.
    - inversion H; subst. repeat split; auto.
      unfold is_resolved in R. destruct (ci_addr c'); [discriminate| |]; discriminate.
    - destruct (parse_ip (ci_hostname c)) as [i|].
      + inversion H; subst. cbn. repeat split; auto. discriminate.
      + destruct (lookup (ci_hostname c) (ci_get_port c)) as [l| |e]; try discriminate.
        destruct (is_unresolved (ci_addr (set_addrs c l))) eqn:U; [discriminate|].
        inversion H; subst c'. split; [reflexivity|]. split; [reflexivity|]. split; [reflexivity|]. split.
        * intros A. rewrite A in U. discriminate.
        * intros _. destruct l as [|a [|b t]]; reflexivity.
  Qed.

  Lemma resolve_never_panics : forall c evs, resolve c <> (evs, RPanic).
  Proof.
    intros c evs H. unfold Connect.resolve in H.
    destruct (is_resolved (ci_addr c)); [discriminate|].
    destruct (parse_ip (ci_hostname c)); [discriminate|].
    destruct (lookup (ci_hostname c) (ci_get_port c)) as [l| |e]; try discriminate.
    destruct (is_unresolved (ci_addr (set_addrs c l))); discriminate.
  Qed.

  (* --------------------------------------------------------------- tcp.rs *)

  Definition dials (local : option ip) (l : list sockaddr) : list ev := map (fun a => EDial a local) l.

  (* complete description of one run of the connect loop over the address list cur :: rest:
     the loop stops at some position k; everything before k failed; it returns the k-th
     connection, or — only when k is the last position — the k-th error. *)
  Lemma tcp_loop_spec : forall rest n cur local evs r,
    tcp_loop n cur rest local = (evs, r) ->
    exists k x, nth_error (cur :: rest) k = Some x
      /\ evs = dials local (firstn (S k) (cur :: rest))
      /\ (forall j y, (j < k)%nat -> nth_error (cur :: rest) j = Some y ->
                      exists e, dial (n + j) y local = DFail e)
      /\ match r with
         | ROk s => dial (n + k) x local = DOk s
         | RErr e => S k = length (cur :: rest)
                     /\ exists e', dial (n + k) x local = DFail e' /\ e = ErrIo e'
         | RPanic => False
         end.
  Proof.
    induction rest as [|a t IH]; intros n cur local evs r H; cbn [Connect.tcp_loop] in H.
    - exists 0%nat, cur. rewrite Nat.add_0_r. cbn [nth_error firstn length].
      destruct (dial n cur local) as [s|e] eqn:D; inversion H; subst; cbn [dials map].
      + repeat split; auto. intros j y J; lia.
      + repeat split; auto; [intros j y J; lia|]. exists e. auto.
    - destruct (dial n cur local) as [s|e] eqn:D.
      + inversion H; subst. exists 0%nat, cur. rewrite Nat.add_0_r. cbn [nth_error firstn dials map].
        repeat split; auto. intros j y J; lia.
      + destruct (tcp_loop (S n) a t local) as [evs' r'] eqn:T. inversion H; subst.
        destruct (IH _ _ _ _ _ T) as [k [x [N [E [F R]]]]].
        exists (S k), x. split; [exact N|]. split; [|split].
        * rewrite E. reflexivity.
        * intros j y J Y. destruct j as [|j].
          -- rewrite Nat.add_0_r. cbn [nth_error] in Y. inversion Y; subst. exists e. exact D.
          -- cbn [nth_error] in Y. destruct (F j y) as [e' F']; [lia | exact Y |]. exists e'.
             replace (n + S j)%nat with (S n + j)%nat by lia. exact F'.
        * replace (n + S k)%nat with (S n + k)%nat by lia.
          destruct r as [s|e0|]; auto.
          destruct R as [L R]. split; [cbn [length] in *; lia | exact R].
  Qed.

  (* forward forms *)
  Lemma tcp_loop_first_ok : forall pre n cur rest local a post s,
    cur :: rest = pre ++ a :: post ->
    (forall j y, nth_error pre j = Some y -> exists e, dial (n + j) y local = DFail e) ->
    dial (n + length pre) a local = DOk s ->
    tcp_loop n cur rest local = (dials local (pre ++ [a]), ROk s).
  Proof.
    induction pre as [|p pre IH]; intros n cur rest local a post s E F D.
    - cbn [app length] in *. inversion E; subst. rewrite Nat.add_0_r in D.
      destruct post; cbn [Connect.tcp_loop]; rewrite D; reflexivity.
    - cbn [app] in E. inversion E; subst cur rest. clear E.
      destruct (F 0%nat p eq_refl) as [e Fe]. rewrite Nat.add_0_r in Fe.
      remember (pre ++ a :: post) as rest eqn:R. destruct rest as [|r0 rt].
      { exfalso. symmetry in R. apply app_eq_nil in R. destruct R; discriminate. }
      cbn [Connect.tcp_loop]. rewrite Fe.
      rewrite (IH (S n) r0 rt local a post s R).
      + reflexivity.
      + intros j y Y. destruct (F (S j) y Y) as [e' Fe']. exists e'.
        replace (S n + j)%nat with (n + S j)%nat by lia. exact Fe'.
      + cbn [length] in D. replace (S n + length pre)%nat with (n + S (length pre))%nat by lia. exact D.
  Qed.

  Lemma tcp_loop_all_fail : forall rest n cur local e,
    (forall j y, nth_error (cur :: rest) j = Some y -> exists e', dial (n + j) y local = DFail e') ->
    dial (n + length rest) (last rest cur) local = DFail e ->
    tcp_loop n cur rest local = (dials local (cur :: rest), RErr (ErrIo e)).
  Proof.
    induction rest as [|a t IH]; intros n cur local e F L.
    - cbn [length last] in L. rewrite Nat.add_0_r in L. cbn [Connect.tcp_loop]. rewrite L. reflexivity.
    - destruct (F 0%nat cur eq_refl) as [e0 F0]. rewrite Nat.add_0_r in F0.
      cbn [Connect.tcp_loop]. rewrite F0.
      rewrite (IH (S n) a local e); [reflexivity | |].
      + intros j y Y. destruct (F (S j) y Y) as [e' Fe']. exists e'.
        replace (S n + j)%nat with (n + S j)%nat by lia. exact Fe'.
      + replace (S n + length t)%nat with (n + length (a :: t))%nat by (cbn [length]; lia).
        assert (LA : last (a :: t) cur = last t a) by apply last_cons.
        rewrite <- LA. exact L.
  Qed.

  Lemma tcp_loop_events : forall rest n cur local e,
    In e (fst (tcp_loop n cur rest local)) -> exists a, e = EDial a local /\ In a (cur :: rest).
  Proof.
    induction rest as [|a t IH]; intros n cur local e H; cbn [Connect.tcp_loop] in H.
    - destruct (dial n cur local); cbn in H; destruct H as [<-|[]]; exists cur; split; auto; left; auto.
    - destruct (dial n cur local).
      + cbn in H. destruct H as [<-|[]]. exists cur. split; auto. left; auto.
      + destruct (tcp_loop (S n) a t local) as [evs r] eqn:T. cbn [fst] in H. destruct H as [<-|H].
        * exists cur. split; auto. left; auto.
        * destruct (IH (S n) a local e) as [x [E I]]; [rewrite T; exact H|].
          exists x. split; auto. right; auto.
  Qed.

  Lemma tcp_connect_unresolved : forall c, ci_addr c = ANone -> tcp_connect c = ([], RErr ErrUnresolved).
  Proof. intros c A. unfold Connect.tcp_connect. rewrite A. reflexivity. Qed.

  Definition tcp_spec (c : cinfo) (evs : list ev) (r : res (str * Z)) : Prop :=
    exists k x, nth_error (ci_addrs c) k = Some x
      /\ evs = dials (ci_local c) (firstn (S k) (ci_addrs c))
      /\ (forall j y, (j < k)%nat -> nth_error (ci_addrs c) j = Some y ->
                      exists e, dial j y (ci_local c) = DFail e)
      /\ match r with
         | ROk (req, s) => req = ci_req c /\ dial k x (ci_local c) = DOk s
         | RErr e => S k = length (ci_addrs c)
                     /\ exists e', dial k x (ci_local c) = DFail e' /\ e = ErrIo e'
         | RPanic => False
         end.

  Lemma tcp_connect_spec : forall c evs r,
    wf_addrs (ci_addr c) = true -> ci_addr c <> ANone ->
    tcp_connect c = (evs, r) -> tcp_spec c evs r.
  Proof.
    intros c evs r W NN H. unfold Connect.tcp_connect in H. unfold tcp_spec, ci_addrs.
    destruct (ci_addr c) as [|a|[|a t]] eqn:A; [contradiction| | discriminate |].
    - destruct (tcp_loop 0 a [] (ci_local c)) as [evs' r'] eqn:T. inversion H; subst. clear H.
      destruct (tcp_loop_spec _ _ _ _ _ _ T) as [k [x [N [E [F R]]]]].
      exists k, x. split; [exact N|]. split; [exact E|]. split; [exact F|].
      destruct r' as [s|e|]; auto.
    - destruct (tcp_loop 0 a t (ci_local c)) as [evs' r'] eqn:T. inversion H; subst. clear H.
      destruct (tcp_loop_spec _ _ _ _ _ _ T) as [k [x [N [E [F R]]]]].
      exists k, x. split; [exact N|]. split; [exact E|]. split; [exact F|].
      destruct r' as [s|e|]; auto.
  Qed.

  Lemma tcp_connect_events : forall c e,
    In e (fst (tcp_connect c)) -> exists a, e = EDial a (ci_local c) /\ In a (ci_addrs c).
  Proof.
    intros c e H. unfold Connect.tcp_connect in H. unfold ci_addrs.
    destruct (ci_addr c) as [|a|[|a t]]; cbn [fst] in H; try contradiction.
    - destruct (tcp_loop 0 a [] (ci_local c)) as [evs r] eqn:T. cbn [fst] in H.
      apply (tcp_loop_events [] 0%nat a (ci_local c) e). rewrite T. exact H.
    - destruct (tcp_loop 0 a t (ci_local c)) as [evs r] eqn:T. cbn [fst] in H.
      apply (tcp_loop_events t 0%nat a (ci_local c) e). rewrite T. exact H.
  Qed.

  Lemma tcp_connect_first_success : forall c pre a post s,
    wf_addrs (ci_addr c) = true ->
    ci_addrs c = pre ++ a :: post ->
    (forall j y, nth_error pre j = Some y -> exists e, dial j y (ci_local c) = DFail e) ->
    dial (length pre) a (ci_local c) = DOk s ->
    tcp_connect c = (dials (ci_local c) (pre ++ [a]), ROk (ci_req c, s)).
  Proof.
    intros c pre a post s W E F D. unfold Connect.tcp_connect. unfold ci_addrs in E.
    destruct (ci_addr c) as [|x|[|x t]] eqn:A.
    - destruct pre; discriminate.
    - rewrite (tcp_loop_first_ok pre 0%nat x [] (ci_local c) a post s E F D). reflexivity.
    - discriminate.
    - rewrite (tcp_loop_first_ok pre 0%nat x t (ci_local c) a post s E F D). reflexivity.
  Qed.

  Lemma tcp_connect_all_fail : forall c e d,
    wf_addrs (ci_addr c) = true -> ci_addrs c <> [] ->
    (forall j y, nth_error (ci_addrs c) j = Some y -> exists e', dial j y (ci_local c) = DFail e') ->
    dial (pred (length (ci_addrs c))) (last (ci_addrs c) d) (ci_local c) = DFail e ->
    tcp_connect c = (dials (ci_local c) (ci_addrs c), RErr (ErrIo e)).
  Proof.
    intros c e d W NE F L. unfold Connect.tcp_connect. unfold ci_addrs in *.
    destruct (ci_addr c) as [|x|[|x t]] eqn:A.
    - contradiction.
    - cbn [length pred last] in L.
      rewrite (tcp_loop_all_fail [] 0%nat x (ci_local c) e F L). reflexivity.
    - discriminate.
    - rewrite last_cons in L. cbn [length pred] in L.
      rewrite (tcp_loop_all_fail t 0%nat x (ci_local c) e F L). reflexivity.
  Qed.

  (* --------------------------------------------------------- connector.rs *)

  Lemma connect_resolved : forall c, ci_addr c <> ANone -> connect c = tcp_connect c.
  Proof.
    intros c H. unfold Connect.connect. rewrite (resolve_resolved c H).
    destruct (tcp_connect c). reflexivity.
  Qed.

  Lemma no_reresolve : forall c, ci_addr c <> ANone ->
    resolve c = ([], ROk c)
    /\ connect c = tcp_connect c
    /\ (forall e, In e (fst (connect c)) -> exists a, e = EDial a (ci_local c) /\ In a (ci_addrs c)).
  Proof.
    intros c H. split; [apply resolve_resolved, H|]. split; [apply connect_resolved, H|].
    intros e I. rewrite (connect_resolved c H) in I. apply tcp_connect_events, I.
  Qed.

  Lemma ip_literal : forall c i,
    ci_addr c = ANone -> parse_ip (ci_hostname c) = Some i ->
    let a := (i, ci_get_port c) in
    resolve c = ([], ROk (mkci (ci_req c) (ci_port c) (AOne a) (ci_local c)))
    /\ connect c = ([EDial a (ci_local c)],
                    match dial 0 a (ci_local c) with
                    | DOk s => ROk (ci_req c, s)
                    | DFail e => RErr (ErrIo e)
                    end).
  Proof.
    intros c i A P a. split; [apply resolve_literal; assumption|].
    unfold Connect.connect. rewrite (resolve_literal c i A P). fold a.
    unfold Connect.tcp_connect. cbn [ci_addr ci_local ci_req Connect.tcp_loop].
    destruct (dial 0 a (ci_local c)); reflexivity.
  Qed.

  Lemma lookup_once : forall c,
    ci_addr c = ANone -> parse_ip (ci_hostname c) = None ->
    let q := ELookup (ci_hostname c) (ci_get_port c) in
    connect c =
      match lookup (ci_hostname c) (ci_get_port c) with
      | LFail => ([q], RErr ErrResolver)
      | LJoin e => ([q], RErr (ErrIo e))
      | LOk [] => ([q], RErr ErrNoRecords)
      | LOk l => let '(e2, r) := tcp_connect (set_addrs c l) in (q :: e2, r)
      end.
  Proof.
    intros c A P q. unfold Connect.connect. rewrite (resolve_lookup c A P). fold q.
    destruct (lookup (ci_hostname c) (ci_get_port c)) as [l| |e]; try reflexivity.
    destruct l as [|a l']; [reflexivity|].
    destruct (tcp_connect (set_addrs c (a :: l'))). reflexivity.
  Qed.

  (* exactly one resolver call on the lookup path, none otherwise *)
  Definition is_lookup (e : ev) : bool := match e with ELookup _ _ => true | _ => false end.

  Lemma tcp_connect_no_lookup : forall c, filter is_lookup (fst (tcp_connect c)) = [].
  Proof.
    intros c. assert (H : forall e, In e (fst (tcp_connect c)) -> is_lookup e = false).
    { intros e I. destruct (tcp_connect_events c e I) as [a [-> _]]. reflexivity. }
    induction (fst (tcp_connect c)) as [|e t IH]; [reflexivity|].
    cbn [filter]. rewrite (H e) by (left; reflexivity). apply IH. intros x I. apply H. right; exact I.
  Qed.

  Lemma lookup_count : forall c,
    filter is_lookup (fst (connect c)) =
      if is_resolved (ci_addr c) then []
      else match parse_ip (ci_hostname c) with
           | Some _ => []
           | None => [ELookup (ci_hostname c) (ci_get_port c)]
           end.
  Proof.
    intros c. destruct (ci_addr c) as [|a|l] eqn:A; cbn [is_resolved is_unresolved negb].
    - destruct (parse_ip (ci_hostname c)) as [i|] eqn:P.
      + destruct (ip_literal c i A P) as [_ ->]. reflexivity.
      + rewrite (lookup_once c A P).
        destruct (lookup (ci_hostname c) (ci_get_port c)) as [l| |e]; try reflexivity.
        destruct l as [|a l']; [reflexivity|].
        pose proof (tcp_connect_no_lookup (set_addrs c (a :: l'))) as N.
        destruct (tcp_connect (set_addrs c (a :: l'))) as [e2 r]. cbn [fst filter is_lookup] in *.
        rewrite N. reflexivity.
    - rewrite connect_resolved by (rewrite A; discriminate). apply tcp_connect_no_lookup.
    - rewrite connect_resolved by (rewrite A; discriminate). apply tcp_connect_no_lookup.
  Qed.

  Lemma connect_req : forall c evs req s, connect c = (evs, ROk (req, s)) -> req = ci_req c.
  Proof.
    intros c evs req s H. unfold Connect.connect in H.
    destruct (resolve c) as [e1 r] eqn:R. destruct r as [c'| |]; try discriminate.
    destruct (resolve_keeps c e1 c' R) as [Q _].
    destruct (tcp_connect c') as [e2 r2] eqn:T. inversion H; subst.
    unfold Connect.tcp_connect in T.
    destruct (ci_addr c') as [|a|[|a t]]; try discriminate.
    - destruct (tcp_loop 0 a [] (ci_local c')) as [x [y| |]]; inversion T; subst; exact Q.
    - destruct (tcp_loop 0 a t (ci_local c')) as [x [y| |]]; inversion T; subst; exact Q.
  Qed.

  Lemma connect_never_panics : forall c evs,
    wf_addrs (ci_addr c) = true -> connect c <> (evs, RPanic).
  Proof.
    intros c evs W H. unfold Connect.connect in H.
    destruct (resolve c) as [e1 r] eqn:R. destruct r as [c'| |]; try discriminate.
    - destruct (resolve_keeps c e1 c' R) as [_ [_ [_ [NN W']]]]. specialize (W' W).
      destruct (tcp_connect c') as [e2 r2] eqn:T. inversion H; subst.
      destruct (tcp_connect_spec c' e2 RPanic W' NN T) as [k [x [_ [_ [_ []]]]]].
    - exact (resolve_never_panics c e1 R).
  Qed.

  (* the port that is dialled / asked for, for API-built requests without addresses *)
  Lemma port_used : forall req k ops,
    let c := build req k ops in
    let p := match port req with Some p => p | None => last_port ops 0 end in
    ci_addr c = ANone ->
    (forall i, parse_ip (hostname req) = Some i ->
       fst (connect c) = [EDial (i, p) (last_local ops None)])
    /\ (parse_ip (hostname req) = None ->
        exists rest, fst (connect c) = ELookup (hostname req) p :: rest
                     /\ filter is_lookup rest = []).
  Proof.
    intros req k ops c p A.
    destruct (build_fields req k ops) as [H [P [_ L]]]. fold c in H, P, L.
    split.
    - intros i I. rewrite <- H in I. destruct (ip_literal c i A I) as [_ ->].
      cbn [fst]. rewrite P, L. reflexivity.
    - intros N. rewrite <- H in N. pose proof (lookup_count c) as LC.
      rewrite A, N in LC. cbn [is_resolved is_unresolved negb] in LC.
      rewrite (lookup_once c A N) in *. rewrite H, P in *. fold p in LC |- *.
      destruct (lookup (hostname req) p) as [l| |e]; try (exists []; split; reflexivity).
      destruct l as [|a l']; [exists []; split; reflexivity|].
      destruct (tcp_connect (set_addrs c (a :: l'))) as [e2 r]. exists e2. split; [reflexivity|].
      cbn [fst filter is_lookup] in LC. inversion LC. reflexivity.
  Qed.

  (* ------------------------------------------------- TLS connector services *)
  Variable name_ok : tls_backend -> str -> bool.
  Variable handshake_ok : tls_backend -> Z -> str -> bool.
  Notation tls_connect := (tls_connect name_ok handshake_ok).
  Notation connect_tls := (connect_tls parse_ip lookup dial name_ok handshake_ok).

  Lemma tls_connect_spec : forall b req conn,
    let name := hostname req in
    tls_connect b req conn =
      if name_ok b name
      then ([ETlsName name], if handshake_ok b conn name then TOk conn else TErrHandshake)
      else ([], TErrInvalidInput).
  Proof. reflexivity. Qed.

  Lemma tls_name : forall b req conn evs r,
    tls_connect b req conn = (evs, r) ->
    (forall n, In (ETlsName n) evs -> n = hostname req /\ ~ In 58 n)
    /\ (forall s, r = TOk s <->
          s = conn /\ name_ok b (hostname req) = true /\ handshake_ok b conn (hostname req) = true)
    /\ (name_ok b (hostname req) = false -> evs = [] /\ r = TErrInvalidInput).
  Proof.
    intros b req conn evs r H. unfold Connect.tls_connect in H.
    destruct (name_ok b (hostname req)) eqn:N.
    - destruct (handshake_ok b conn (hostname req)) eqn:K; inversion H; subst; (split; [|split]).
      + intros n [E|[]]. inversion E; subst. split; [reflexivity | apply hostname_no_colon].
      + intros s. split; [intros E; inversion E; auto | intros [-> _]; reflexivity].
      + discriminate.
      + intros n [E|[]]. inversion E; subst. split; [reflexivity | apply hostname_no_colon].
      + intros s. split; [discriminate | intros [_ [_ E]]; discriminate].
      + discriminate.
    - inversion H; subst. split; [|split].
      + intros n [].
      + intros s. split; [discriminate | intros [_ [E _]]; discriminate].
      + auto.
  Qed.

  (* whole pipeline: whatever the addresses, the resolver and the dial outcomes are, the only name
     ever given to the TLS library is the request's hostname *)
  Lemma connect_tls_name : forall b c n,
    In (ETlsName n) (fst (connect_tls b c)) -> n = ci_hostname c /\ ~ In 58 n.
  Proof.
    intros b c n H. unfold Connect.connect_tls in H.
    destruct (connect c) as [e1 r] eqn:C.
    assert (E1 : ~ In (ETlsName n) e1).
    { intros I. unfold Connect.connect in C. destruct (resolve c) as [x rr] eqn:R.
      assert (X : ~ In (ETlsName n) x).
      { unfold Connect.resolve in R. destruct (is_resolved (ci_addr c)); [inversion R; subst; auto|].
        destruct (parse_ip (ci_hostname c)); [inversion R; subst; auto|].
        inversion R; subst. intros [Q|[]]; discriminate. }
      destruct rr as [c'| |]; try (inversion C; subst; contradiction).
      destruct (tcp_connect c') as [e2 r2] eqn:T. inversion C; subst.
      apply in_app_or in I. destruct I as [I|I]; [contradiction|].
      destruct (tcp_connect_events c' (ETlsName n)) as [a [Q _]]; [rewrite T; exact I | discriminate]. }
    destruct r as [[req s]| |]; cbn [fst] in H; try contradiction.
    destruct (tls_connect b req s) as [e2 t] eqn:T. cbn [fst] in H.
    apply in_app_or in H. destruct H as [H|H]; [contradiction|].
    pose proof (connect_req c e1 req s C) as Q. subst req.
    destruct (tls_name b (ci_req c) s e2 t T) as [N _]. exact (N n H).
  Qed.

  Lemma connect_tls_ok : forall b c evs s,
    connect_tls b c = (evs, FTls (TOk s)) ->
    exists e1, connect c = (e1, ROk (ci_req c, s))
      /\ evs = e1 ++ [ETlsName (ci_hostname c)]
      /\ name_ok b (ci_hostname c) = true /\ handshake_ok b s (ci_hostname c) = true.
  Proof.
    intros b c evs s H. unfold Connect.connect_tls in H.
    destruct (connect c) as [e1 r] eqn:C. destruct r as [[req s']| |]; try discriminate.
    pose proof (connect_req c e1 req s' C) as ->.
    destruct (tls_connect b (ci_req c) s') as [e2 t] eqn:T. inversion H; subst.
    destruct (tls_name b (ci_req c) s' e2 (TOk s) T) as [_ [K _]].
    destruct (proj1 (K s) eq_refl) as [-> [N HS]].
    exists e1. split; [reflexivity|]. unfold Connect.tls_connect in T. fold (ci_hostname c) in *.
    rewrite N, HS in T. inversion T; subst. auto.
  Qed.
End ConnectorFacts.

(* ---------------------------------------------------------------- uri.rs: Host for http::Uri *)
Lemma str_eqb_eq : forall a b, str_eqb a b = true <-> a = b.
Proof.
  induction a as [|x a IH]; intros [|y b]; cbn; split; intros H; try discriminate; try reflexivity.
  - apply andb_true_iff in H. destruct H as [H1 H2]. apply Z.eqb_eq in H1. apply IH in H2. subst. reflexivity.
  - inversion H; subst. apply andb_true_iff. split; [apply Z.eqb_refl | apply IH; reflexivity].
Qed.

Lemma scheme_keys_nodup : NoDup (map fst scheme_ports).
Proof.
  unfold scheme_ports. cbn [map fst].
  repeat (constructor; [cbn; intros H; repeat (destruct H as [H|H]; [discriminate|]); exact H|]).
  constructor.
Qed.

Lemma find_scheme_spec : forall (l : list (str * Z)) sc p, NoDup (map fst l) ->
  (find (fun e => str_eqb (fst e) sc) l = Some (sc, p) <-> In (sc, p) l).
Proof.
  induction l as [|[k v] t IH]; intros sc p ND; cbn [find fst]; [split; [discriminate | intros []]|].
  inversion ND as [|? ? NI ND']; subst. destruct (str_eqb k sc) eqn:E.
  - apply str_eqb_eq in E. subst. split.
    + intros H. inversion H; subst. left. reflexivity.
    + intros [H|H]; [inversion H; reflexivity|]. exfalso. apply NI. apply (in_map fst) in H. exact H.
  - rewrite IH by exact ND'. split; [intros H; right; exact H|].
    intros [H|H]; [|exact H]. inversion H; subst. rewrite (proj2 (str_eqb_eq sc sc) eq_refl) in E. discriminate.
Qed.

Lemma find_scheme_key : forall (l : list (str * Z)) sc e, find (fun e => str_eqb (fst e) sc) l = Some e -> fst e = sc.
Proof.
  induction l as [|[k v] t IH]; intros sc e H; cbn [find fst] in H; [discriminate|].
  destruct (str_eqb k sc) eqn:E; [inversion H; subst; apply str_eqb_eq, E | eapply IH, H].
Qed.

(* an explicit port wins; otherwise the port is exactly the table's entry for the scheme; no scheme or an unknown one: none *)
Theorem uri_port_explicit : forall p sc, uri_port (Some p) sc = Some p.
Proof. reflexivity. Qed.

Theorem uri_port_default : forall sc p, uri_port None (Some sc) = Some p <-> In (sc, p) scheme_ports.
Proof.
  intros sc p. unfold uri_port, scheme_to_port. rewrite <- (find_scheme_spec scheme_ports sc p scheme_keys_nodup).
  destruct (find (fun e => str_eqb (fst e) sc) scheme_ports) as [[k v]|] eqn:F.
  - pose proof (find_scheme_key _ _ _ F) as K. cbn in K. subst k. split; intros H; inversion H; reflexivity.
  - split; discriminate.
Qed.

Theorem uri_port_none : uri_port None None = None.
Proof. reflexivity. Qed.

Theorem uri_ci_port_spec : forall e sc, uri_ci_port e sc = match uri_port e sc with Some p => p | None => 0 end.
Proof. reflexivity. Qed.
