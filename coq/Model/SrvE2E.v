(* Model/SrvE2E.v — the oracle of the end-to-end stream `bld` (real ServerBuilder / Server / threads): what the *settled*
   accept-loop model does for one scenario operation, as a script of Model/Srv.v operations.

   A scenario operation is issued, then the system is left alone until nothing moves any more.  The model of that:
   [settle] = a few rounds of { one Turn of the accept loop (no yield schedules); every worker generation picks up its whole
   queue }, and, as the real ServerInner does, a [Respawn idx] for every WorkerFaulted(idx) notice followed by settling again.
   Every function here only PRODUCES Srv operations ([*_ops]); the state is always [run L st ops], so every state the
   oracle computes is a state of an ordinary run and all theorems about runs apply to it (Proofs/SrvE2EFacts.v).
   No proofs here. *)
From AN Require Export Model.Srv.

Inductive e2e_op :=
| XConnect (tok : nat)                 (* c<tok>: a client connects *)
| XFinish (cid : N)                    (* f<cid>: the client closes, its service call ends *)
| XPause | XResume                     (* ServerHandle::pause / resume *)
| XBurst (resumes : list bool)         (* Q<cmds>: pause()/resume() calls issued back to back (true = resume): all of them are in
                                          the server's command channel, then in the accept thread's queue, before anything runs *)
| XEmfile (tok : nat)                  (* E<tok>: a client connects while accept() fails with EMFILE (one-shot) *)
| XAdvance (ms : N)                    (* +<ms> *)
| XKill (tok : nat)                    (* K<tok>: the service call of this connection panics: its worker dies *)
| XKillConnect (t1 t2 : nat)           (* J<t1>:<t2>: the same, and a client connects to t2 during the teardown *)
| XDie.                                (* D: the worker of the first handle panics in a readiness check — it dies as it is, idle,
                                          partially loaded or saturated, and its arbiter drops the connections in progress *)

Section E.
Variable L : Z.

Section B.
(* back-pressure: while the services of the workers answer Pending to their readiness checks, no worker picks anything up from its
   queue (ServerWorker::poll stays in state Unavailable); the accept loop goes on dispatching until the counters say 'full' *)
Variable blk : bool.

(* every generation picks up everything that is queued for it (picking does not touch other queues) *)
Definition picks_ops (st : state) : list op :=
  flat_map (fun g => match nth_error (ws st) g with
                     | Some w => if w_open w then repeat (E (Pick g)) (length (w_queue w)) else []
                     | None => [] end) (seq 0 (length (ws st))).

Definition round_ops (st : state) : list op :=
  let st1 := step L st (Turn []) in Turn [] :: (if blk then [] else picks_ops st1).

Fixpoint settle_ops (k : nat) (st : state) : list op :=
  match k with
  | O => []
  | S k' => let os := round_ops st in os ++ settle_ops k' (run L st os)
  end.

(* WorkerFaulted notices among the events newer than the first [old] ones of the log (oldest first) *)
Definition new_faults (old : nat) (st : state) : list N :=
  flat_map (fun e => match e with EvFaulted idx => [idx] | _ => [] end)
           (rev (firstn (length (trace st) - old) (trace st))).

(* settle; restart every worker reported faulted; settle again; ... *)
Fixpoint settle_faults_ops (k : nat) (handled : nat) (st : state) : list op :=
  match k with
  | O => []
  | S k' =>
      match new_faults handled st with
      | [] => []
      | fs => let os := map (fun i => E (Respawn i)) fs in
              let st1 := run L st os in
              let os2 := settle_ops 4 st1 in
              os ++ os2 ++ settle_faults_ops k' (length (trace st)) (run L st1 os2)
      end
  end.

Definition settled_ops (st : state) (first : list op) : list op :=
  let nev := length (trace st) in
  let st1 := run L st first in
  let os1 := settle_ops 4 st1 in
  first ++ os1 ++ settle_faults_ops 4 nev (run L st1 os1).

(* the generation that has connection cid in progress *)
Fixpoint holder (cid : N) (g : nat) (l : list worker) : option nat :=
  match l with
  | [] => None
  | w :: t => if existsb (fun c => N.eqb (c_id c) cid) (w_picked w) then Some g else holder cid (S g) t
  end.

(* the poisoned connection cid reaches a service call on generation g, which panics: the (guard, io) argument is dropped by
   the unwinding, the worker's connection queue closes, its arbiter goes down and drops the other connections in progress *)
Definition kill_ops (st : state) (tok : nat) (cid : N) : list op :=
  let first := E (Connect tok cid) :: settle_ops 4 (step L st (E (Connect tok cid))) in
  let st1 := run L st first in
  match holder cid 0 (ws st1) with
  | None => first                       (* not dispatched (the generator never asks for this) *)
  | Some g =>
      match nth_error (ws st1) g with
      | None => first
      | Some w =>
          first ++ E (Finish g cid) :: E (Kill g)
                :: map (fun c => E (Finish g (c_id c))) (filter (fun c => negb (N.eqb (c_id c) cid)) (w_picked w))
      end
  end.

(* the worker of the first handle dies outside any service call: its connection queue closes (what is unread in it is lost), then
   the teardown of its arbiter drops every connection in progress, each releasing its guard *)
Definition die_ops (st : state) : list op :=
  match handles st with
  | g :: _ =>
      match nth_error (ws st) g with
      | Some w => if w_open w then E (Kill g) :: map (fun c => E (Finish g (c_id c))) (w_picked w) else []
      | None => []
      end
  | [] => []
  end.

(* next = the id the next connecting client gets *)
Definition e2e_ops (st : state) (next : N) (o : e2e_op) : list op * N :=
  match o with
  | XConnect tok => (settled_ops st [E (Connect tok next)], (next + 1)%N)
  | XFinish cid =>
      match holder cid 0 (ws st) with
      | Some g => (settled_ops st [E (Finish g cid)], next)
      | None => ([], next)
      end
  | XPause => (settled_ops st [E (Command CPause)], next)
  | XResume => (settled_ops st [E (Command CResume)], next)
  | XBurst rs => (settled_ops st (map (fun r : bool => E (Command (if r then CResume else CPause))) rs), next)
  | XEmfile tok => (settled_ops st [E (Inject tok EOther); E (Connect tok next)], (next + 1)%N)
  | XAdvance ms => (settled_ops st [Advance ms], next)
  | XDie => (settled_ops st (die_ops st), next)
  | XKill tok => (settled_ops st (kill_ops st tok next), (next + 1)%N)
  | XKillConnect t1 t2 => (settled_ops st (kill_ops st t1 next ++ [E (Connect t2 (next + 1)%N)]), (next + 2)%N)
  end.

Definition e2e_step (st : state) (next : N) (o : e2e_op) : state * N :=
  let '(os, n') := e2e_ops st next o in (run L st os, n').

(* abortive clients (scenario op A<tok>: connect, send the id, close with a reset): connection ids in [ab]; the service call of
   such a connection ends by itself as soon as it has started, whenever that is — after every scenario operation each abortive
   connection that is in progress is finished (an ordinary XFinish), until none is *)
Definition in_progress (st : state) (c : N) : bool :=
  match holder c 0 (ws st) with Some _ => true | None => false end.

Fixpoint abortive_ops (fuel : nat) (ab : list N) (st : state) (next : N) : list op :=
  match fuel with
  | O => []
  | S f => match find (in_progress st) ab with
           | Some c => let os := fst (e2e_ops st next (XFinish c)) in os ++ abortive_ops f ab (run L st os) next
           | None => []
           end
  end.

Definition e2e_ops_ab (ab : list N) (st : state) (next : N) (o : e2e_op) : list op * N :=
  let '(os, n') := e2e_ops st next o in
  (os ++ abortive_ops (S (length ab)) ab (run L st os) n', n').

Definition e2e_step_ab (ab : list N) (st : state) (next : N) (o : e2e_op) : state * N :=
  let '(os, n') := e2e_ops_ab ab st next o in (run L st os, n').

End B.

(* a scenario: each operation together with the back-pressure flag in force and the abortive connections known when it is issued *)
Fixpoint e2e_script_ab (st : state) (next : N) (ops : list (bool * list N * e2e_op)) : list op :=
  match ops with
  | [] => []
  | (blk, ab, o) :: t => let '(os, n') := e2e_ops_ab blk ab st next o in os ++ e2e_script_ab (run L st os) n' t
  end.

Fixpoint e2e_script (st : state) (next : N) (ops : list e2e_op) : list op :=
  match ops with
  | [] => []
  | o :: t => let '(os, n') := e2e_ops false st next o in os ++ e2e_script (run L st os) n' t
  end.

End E.
