(* Driver for the extracted actix-tls models.  One case per stdin line, one trace per stdout line.
   usage: driver <mode>     modes: c19host c19info c19conn c19tls c18 c18e2e
   The text formats are described in vp/props/c19.py and vp/props/c18.py; the Rust harness
   (harness/h_tls) prints the same text for the same behaviour. *)
open Gen

let rec pos_of_int n = if n = 1 then XH else if n land 1 = 1 then XI (pos_of_int (n lsr 1)) else XO (pos_of_int (n lsr 1))
let z_of_int n = if n = 0 then Z0 else if n > 0 then Zpos (pos_of_int n) else Zneg (pos_of_int (-n))
let rec int_of_pos = function XH -> 1 | XO p -> 2 * int_of_pos p | XI p -> 2 * int_of_pos p + 1
let int_of_z = function Z0 -> 0 | Zpos p -> int_of_pos p | Zneg p -> - (int_of_pos p)
let rec nat_of_int n = if n <= 0 then O else S (nat_of_int (n - 1))
let rec int_of_nat = function O -> 0 | S n -> 1 + int_of_nat n

let bytes_of_hex s =
  let n = String.length s / 2 in
  List.init n (fun i -> z_of_int (int_of_string ("0x" ^ String.sub s (2*i) 2)))
let hex_of_bytes l = String.concat "" (List.map (fun b -> Printf.sprintf "%02x" (int_of_z b)) l)
let bytes_of_string s = List.init (String.length s) (fun i -> z_of_int (Char.code s.[i]))
let string_of_bytes l = String.concat "" (List.map (fun b -> String.make 1 (Char.chr (int_of_z b))) l)

let split c s = if s = "" then [] else String.split_on_char c s
let field case key =
  let rec go = function
    | [] -> None
    | kv :: t ->
      (match String.index_opt kv '=' with
       | Some i when String.sub kv 0 i = key -> Some (String.sub kv (i+1) (String.length kv - i - 1))
       | _ -> go t) in
  go (String.split_on_char ';' case)
let field_d case key d = match field case key with Some v -> v | None -> d
let digit c = Char.code c - Char.code '0'
let chars s = List.init (String.length s) (String.get s)
let starts_with p s = String.length s >= String.length p && String.sub s 0 (String.length p) = p
let after p s = String.sub s (String.length p) (String.length s - String.length p)

(* ------------------------------------------------------------------ c19host *)
let port_s = function None -> "-" | Some p -> string_of_int (int_of_z p)
let c19host line =
  let s = bytes_of_hex line in
  let ci = build s CNew [] in
  Printf.sprintf "%s|%s|%s|%d" (hex_of_bytes (hostname s)) (port_s (port s))
    (hex_of_bytes (ci_hostname ci)) (int_of_z (ci_get_port ci))

(* ------------------------------------------------------------------ c19uri: "<scheme hex or ->;<host hex or ->;<port or ->" *)
let c19uri line =
  match String.split_on_char ';' line with
  | [sc; h; p] ->
    let opt f x = if x = "-" then None else Some (f x) in
    let scheme = opt bytes_of_hex sc and host = opt bytes_of_hex h and port = opt (fun x -> z_of_int (int_of_string x)) p in
    Printf.sprintf "%s|%s|%d" (hex_of_bytes (uri_hostname host)) (port_s (uri_port port scheme)) (int_of_z (uri_ci_port port scheme))
  | _ -> failwith "c19uri: scheme;host;port"

(* ------------------------------------------------------------------ c19info *)
let taddr i = (z_of_int (10 + i), z_of_int (1000 + i))
let tidx (ip, p) =
  let i = int_of_z ip - 10 in
  if i >= 0 && i < 6 && int_of_z p = 1000 + i then string_of_int i else "x"
let c19info line =
  match String.split_on_char ';' line with
  | host :: ctor :: rest ->
    let ops = match rest with o :: _ -> o | [] -> "" in
    let k = if ctor = "n" then CNew else CWith (taddr (digit ctor.[1])) in
    let op o =
      let r = String.sub o 1 (String.length o - 1) in
      match o.[0] with
      | 'p' -> BPort (z_of_int (int_of_string r))
      | 'a' -> if r = "n" then BAddr None else BAddr (Some (taddr (digit r.[0])))
      | 's' -> BAddrs (List.map (fun c -> taddr (digit c)) (chars r))
      | 'l' -> BLocal (z_of_int (if r = "4" then 1 else 2))
      | _ -> failwith "bad op" in
    let ci = build (bytes_of_hex host) k (List.map op (split ',' ops)) in
    let a = ci_addrs ci in
    let (t, ci') = ci_take_addrs ci in
    Printf.sprintf "h=%s|p=%d|a=%s|n=%d|t=%s|e=%d|d=1" (hex_of_bytes (ci_hostname ci)) (int_of_z (ci_get_port ci))
      (String.concat "" (List.map tidx a)) (List.length a)
      (String.concat "" (List.map tidx t)) (List.length (ci_addrs ci'))
  | _ -> failwith "bad c19info case"

(* ------------------------------------------------------------------ c19conn *)
(* model world: slot k has port 50000+k; ip ids: 1 = 127.0.0.1, 2 = ::1, 3 = 255.255.255.255 *)
let slot_ip kind = match kind with
  | "L4" | "R4" | "Z4" -> 1 | "L6" | "R6" -> 2 | "U4" -> 3 | _ -> failwith "bad slot kind"
let cur_kinds : string array ref = ref [||]
let slot_port k = if (!cur_kinds).(k) = "Z4" then 0 else 50000 + k
let nslots () = Array.length !cur_kinds
let slot_with_port p =
  let rec go k = if k >= nslots () then None else if slot_port k = p then Some k else go (k + 1) in go 0
let subst_ports text =
  let b = Buffer.create 16 in
  let n = String.length text in
  let i = ref 0 in
  while !i < n do
    if text.[!i] = '@' then (Buffer.add_string b (string_of_int (slot_port (digit text.[!i+1]))); i := !i + 2)
    else (Buffer.add_char b text.[!i]; incr i)
  done;
  Buffer.contents b
let show_port p = let p = int_of_z p in match slot_with_port p with Some k -> Printf.sprintf "@%d" k | None -> string_of_int p

let outcomes : string array ref = ref [||]     (* error texts of the dial oracle, DFail i indexes here *)
let intern s =
  let a = !outcomes in
  let rec find i = if i >= Array.length a then None else if a.(i) = s then Some i else find (i+1) in
  match find 0 with
  | Some i -> i
  | None -> outcomes := Array.append a [|s|]; Array.length a

let c19conn line =
  outcomes := [||];
  let host_t = field_d line "host" "" and ctor = field_d line "ctor" "n" and ops = field_d line "ops" ""
  and res = field_d line "res" "err" and svc = field_d line "svc" "c" in
  let kinds = Array.of_list (split ',' (field_d line "slots" "")) in
  cur_kinds := kinds;
  let oracle = split ',' (field_d line "oracle" "") in
  let slot_addr k = (z_of_int (slot_ip kinds.(k)), z_of_int (slot_port k)) in
  let slot_of (ip, p) =
    let rec go k = if k >= nslots () then None
      else if slot_port k = int_of_z p && slot_ip kinds.(k) = int_of_z ip then Some k else go (k + 1) in go 0 in
  let show_addr a = match slot_of a with Some k -> string_of_int k | None -> "x" in
  let otab = List.filter_map (fun e -> match String.index_opt e '=' with
      | Some i -> Some (String.sub e 0 i, String.sub e (i+1) (String.length e - i - 1))
      | None -> None) oracle in
  let sys = List.find_map (fun e -> if starts_with "sys:" e then Some (after "sys:" e) else None) oracle in
  let parse_ip s = match List.assoc_opt ("lit:" ^ hex_of_bytes s) otab with
    | Some id -> Some (z_of_int (int_of_string id)) | None -> None in
  let lookup h p =
    if res = "d" then
      (if string_of_bytes h = "localhost" then
         match sys with
         | None | Some "fail" -> LFail
         | Some ids -> LOk (List.map (fun id -> (z_of_int (int_of_string id), p)) (String.split_on_char '+' ids))
       else LFail)
    else if starts_with "ok" res then LOk (List.map (fun c -> slot_addr (digit c)) (chars (after "ok" res)))
    else LFail in
  let local_tag = function None -> "-" | Some i -> if int_of_z i = 1 then "4" else "6" in
  let dial _n a local =
    match slot_of a with
    | None -> DFail (z_of_int (intern "e-nonslot"))
    | Some k ->
      (match List.assoc_opt (Printf.sprintf "dial:%d/%s" k (local_tag local)) otab with
       | Some "ok" -> DOk (z_of_int k)
       | Some e -> DFail (z_of_int (intern e))
       | None -> DFail (z_of_int (intern "e-oracle-miss"))) in
  let k = if ctor = "n" then CNew else CWith (slot_addr (digit ctor.[1])) in
  let op o =
    let r = String.sub o 1 (String.length o - 1) in
    match o.[0] with
    | 'p' -> BPort (z_of_int (int_of_string (subst_ports r)))
    | 'a' -> if r = "n" then BAddr None else BAddr (Some (slot_addr (digit r.[0])))
    | 's' -> BAddrs (List.map (fun c -> slot_addr (digit c)) (chars r))
    | 'l' -> BLocal (z_of_int (if r = "4" then 1 else 2))
    | _ -> failwith "bad op" in
  let host = bytes_of_string (subst_ports host_t) in
  let ci = build host k (List.map op (split '/' ops)) in
  let show_err = function
    | ErrResolver -> "ERR Resolver(boom)"
    | ErrNoRecords -> "ERR NoRecords"
    | ErrInvalidInput -> "ERR InvalidInput"
    | ErrUnresolved -> "ERR Unresolved"
    | ErrIo e -> Printf.sprintf "ERR Io(%s)" (!outcomes).(int_of_z e) in
  let show_conn local = function
    | ROk (req, s) -> Printf.sprintf "OK peer=%d req=%d bound=%d" (int_of_z s) (if req = host then 1 else 0)
                        (match local with Some _ -> 1 | None -> 0)
    | RErr e -> show_err e
    | RPanic -> "PANIC" in
  let (evs, result) = match svc with
    | "c" -> let (e, r) = connect parse_ip lookup dial ci in (e, show_conn ci.ci_local r)
    | "t" -> let (e, r) = tcp_connect dial ci in (e, show_conn ci.ci_local r)
    | "r" -> let (e, r) = resolve parse_ip lookup ci in
      (e, match r with
        | ROk c -> Printf.sprintf "INFO addrs=%s port=%s req=%d" (String.concat "" (List.map show_addr (ci_addrs c)))
                     (show_port (ci_get_port c)) (if c.ci_req = host then 1 else 0)
        | RErr e -> show_err e
        | RPanic -> "PANIC")
    | _ -> failwith "bad svc" in
  let logs = List.filter_map (function ELookup (h, p) -> Some (hex_of_bytes h ^ ":" ^ show_port p) | _ -> None) evs in
  let acc = List.filter_map (fun k ->
      if kinds.(k) = "L4" || kinds.(k) = "L6" then begin
        let n = List.length (List.filter (function
            | EDial (a, local) -> slot_of a = Some k && (match dial O a local with DOk _ -> true | DFail _ -> false)
            | _ -> false) evs) in
        Some (Printf.sprintf "%d:%d" k n) end
      else None) (List.init (Array.length kinds) (fun i -> i)) in
  Printf.sprintf "log=%s|acc=%s|res=%s" (if res = "d" then "~" else String.concat "," logs) (String.concat "," acc) result

(* ------------------------------------------------------------------- c19tls *)
let c19tls line =
  (* be: r / r22 / r21 / r20 = the rustls 0.23 / 0.22 / 0.21 / 0.20 connectors (same code, each version's ServerName parser is the
     name oracle), o = OpenSSL, n = native-tls (no separate name step: name_ok is constantly true, a name the library rejects
     is a failed handshake) *)
  let bes = field_d line "be" "r" in
  let be = if bes.[0] = 'r' then Rustls else Openssl in
  let io = field_d line "io" "mem" in
  let host = bytes_of_hex (field_d line "host" "") in
  let oracle = split ',' (field_d line "oracle" "") in
  let otab = List.filter_map (fun e -> match String.index_opt e '=' with
      | Some i -> Some (String.sub e 0 i, String.sub e (i+1) (String.length e - i - 1))
      | None -> None) oracle in
  let miss = ref false in
  let tab pre s = match List.assoc_opt (pre ^ hex_of_bytes s) otab with
    | Some "1" -> true | Some _ -> false | None -> miss := true; false in
  let name_ok _ s = if bes = "n" then true else tab "name:" s in
  let handshake_ok _ _ s = tab "hs:" s in
  let show = function
    | TOk _ -> "OK req=1 echo=1"
    | TErrInvalidInput ->
      (* the rustls 0.20 connector reports a rejected name as io::ErrorKind::Other ("can only handle hostname-based connections"),
         which the harness prints like any other non-InvalidInput error *)
      if bes = "r20" then "ERR hs" else "ERR InvalidInput"
    | TErrHandshake -> "ERR hs" in
  let r =
    if io = "mem" then show (snd (tls_connect name_ok handshake_ok be host (z_of_int 0)))
    else begin
      let addr = (z_of_int 1, z_of_int 50000) in
      let ci = build host (CWith addr) [] in
      match snd (connect_tls (fun _ -> None) (fun _ _ -> LFail) (fun _ _ _ -> DOk (z_of_int 0)) name_ok handshake_ok be ci) with
      | FTls t -> show t
      | FTcpErr _ -> "TCP ERR"
      | FTcpPanic -> "TCP PANIC"
    end in
  if !miss then "ORACLE-MISS" else "res=" ^ r

(* --------------------------------------------------------------------- c18 *)
(* case: lim=<L>;tr=<ms>;to=<ms>;conns=<acc><client>,...;ops=<tok>.<tok>...;oracle=hs0=PPD,hs1=PF
   ops: R[o] poll_ready, C<k> call, P<k> poll, D<k> drop, A<ms> advance; S/G/X/E<k> are moves of the client / the
   data exchange: not part of the model (no output).  Waker ids are op positions. *)
let n_of_int n = if n = 0 then N0 else Npos (pos_of_int n)
let int_of_n = function N0 -> 0 | Npos p -> int_of_pos p

(* native-tls acceptor: its two differences from the AcceptFut back-ends (deadline armed at the first poll; slot released inside
   the completing poll) are part of the Gallina model — Model/TlsAccept.v, Section Native: [shift_calls], [native_step] —
   and proved to mean just that in Proofs/TlsNativeFacts.v.  This driver only says which futures are native-tls ones. *)
let c18_parse line =
  let tr = int_of_string (field_d line "tr" "3000") and to_ = int_of_string (field_d line "to" "3000") in
  let conns = Array.of_list (split ',' (field_d line "conns" "")) in
  let oracle = split ',' (field_d line "oracle" "") in
  let script k =
    let key = Printf.sprintf "hs%d=" k in
    match List.find_opt (starts_with key) oracle with
    | None -> []
    | Some e -> List.map (function 'P' -> HPending | 'D' -> HDone | 'F' -> HFailed N0 | _ -> HFailed (n_of_int 99))
                  (chars (after key e)) in
  let native = field_d line "ov" "o" = "n" in
  let is_native id = let k = int_of_nat id in native && k < Array.length conns && conns.(k).[0] = 'o' in
  let toks = List.mapi (fun idx tok ->
      let kind = tok.[0] and arg = String.sub tok 1 (String.length tok - 1) in
      let k = try int_of_string arg with _ -> 0 in
      let mop = match kind with
        | 'R' -> Some (PollReady (nat_of_int idx))
        | 'C' -> Some (Call (nat_of_int k, script k, n_of_int (if conns.(k).[0] = 'r' then tr else to_)))
        | 'P' -> Some (PollFut (nat_of_int k, nat_of_int idx))
        | 'D' -> Some (DropFut (nat_of_int k))
        | 'A' -> Some (Advance (n_of_int k))
        | _ -> None in
      (kind, arg, k, mop)) (split '.' (field_d line "ops" "")) in
  let toks = List.filter (fun (_, _, _, m) -> m <> None) toks in
  let mops = shift_calls is_native (List.filter_map (fun (_, _, _, m) -> m) toks) in
  (is_native, List.map2 (fun (kind, arg, k, _) o -> (kind, arg, k, o)) toks mops)

let c18 line =
  let lim = int_of_string (field_d line "lim" "1") in
  let (is_native, toks) = c18_parse line in
  let st = ref (init (n_of_int lim)) in
  let out = ref [] in
  List.iter (fun (kind, arg, k, o) ->
        let (s', obs) = native_step is_native !st o in
        st := s';
        let wakes = List.sort compare (List.filter_map (function ObsWake w -> Some (int_of_nat w) | _ -> None) obs) in
        let wakes = List.sort_uniq compare wakes in
        let misuse = List.exists (function ObsMisuse _ -> true | _ -> false) obs in
        let body = match kind with
          | 'R' -> Printf.sprintf "R%s:%s" arg (if List.mem (ObsReady true) obs then "1" else "0")
          | 'C' -> if misuse then Printf.sprintf "C%d:misuse" k else Printf.sprintf "C%d" k
          | 'P' ->
            if misuse then Printf.sprintf "P%d:misuse" k
            else begin
              let h = List.exists (function ObsHs _ -> true | _ -> false) obs in
              let r = List.find_map (function
                  | ObsPoll (_, Pending) -> Some "pend"
                  | ObsPoll (_, Ready OOk) -> Some "ok"
                  | ObsPoll (_, Ready (OTls _)) -> Some "tls"
                  | ObsPoll (_, Ready OTimeout) -> Some "to"
                  | _ -> None) obs in
              Printf.sprintf "P%d:%s/h%d" k (match r with Some r -> r | None -> "?") (if h then 1 else 0)
            end
          | 'D' -> Printf.sprintf "D%d" k
          | _ -> Printf.sprintf "A%d" k in
        let body = if wakes = [] then body
          else body ^ "+" ^ String.concat "," (List.map (fun w -> Printf.sprintf "w%d" w) wakes) in
        out := body :: !out) toks;
  String.concat " " (List.rev !out)

(* c18coq: the same case as a Gallina equation `run_from L ops = obs` (guards extraction and this driver's parser) *)
let c18coq line =
  let lim = int_of_string (field_d line "lim" "1") in
  let (is_native, toks) = c18_parse line in
  (* the executed script: a completing poll of a native-tls future is followed by its DropFut (Model: native_expand) *)
  let cst = ref (init (n_of_int lim)) in
  let ops = List.concat_map (fun (_, _, _, o) ->
      let (s1, obs) = step !cst o in
      match o with
      | PollFut (id, _) when is_native id && List.exists (function ObsPoll (_, Ready _) -> true | _ -> false) obs ->
        cst := fst (step s1 (DropFut id)); [o; DropFut id]
      | _ -> cst := s1; [o]) toks in
  let nat n = Printf.sprintf "%d%%nat" (int_of_nat n) and nn n = Printf.sprintf "%d%%N" (int_of_n n) in
  let ans = function HPending -> "HPending" | HDone -> "HDone" | HFailed e -> Printf.sprintf "(HFailed %s)" (nn e) in
  let lst f l = "[" ^ String.concat "; " (List.map f l) ^ "]" in
  let show_op = function
    | PollReady w -> Printf.sprintf "PollReady %s" (nat w)
    | Call (id, sc, t) -> Printf.sprintf "Call %s %s %s" (nat id) (lst ans sc) (nn t)
    | PollFut (id, w) -> Printf.sprintf "PollFut %s %s" (nat id) (nat w)
    | DropFut id -> Printf.sprintf "DropFut %s" (nat id)
    | Advance d -> Printf.sprintf "Advance %s" (nn d) in
  let out = function OOk -> "OOk" | OTls e -> Printf.sprintf "(OTls %s)" (nn e) | OTimeout -> "OTimeout" in
  let show_obs = function
    | ObsReady b -> Printf.sprintf "ObsReady %s" (if b then "true" else "false")
    | ObsParked w -> Printf.sprintf "ObsParked %s" (nat w)
    | ObsCalled (id, d) -> Printf.sprintf "ObsCalled %s %s" (nat id) (nn d)
    | ObsHs (id, a) -> Printf.sprintf "ObsHs %s %s" (nat id) (ans a)
    | ObsTimerReg (id, w, d) -> Printf.sprintf "ObsTimerReg %s %s %s" (nat id) (nat w) (nn d)
    | ObsPoll (id, Pending) -> Printf.sprintf "ObsPoll %s Pending" (nat id)
    | ObsPoll (id, Ready o) -> Printf.sprintf "ObsPoll %s (Ready %s)" (nat id) (out o)
    | ObsMisuse id -> Printf.sprintf "ObsMisuse %s" (nat id)
    | ObsWake w -> Printf.sprintf "ObsWake %s" (nat w) in
  Printf.sprintf "run_from %s %s ### %s" (nn (n_of_int lim)) (lst show_op ops) (lst (lst show_obs) (run_from (n_of_int lim) ops))

let () =
  let f = match Sys.argv.(1) with
    | "c19host" -> c19host | "c19uri" -> c19uri | "c19info" -> c19info | "c19conn" -> c19conn | "c19tls" -> c19tls
    | "c18" -> c18 | "c18coq" -> c18coq
    | m -> failwith ("unknown mode " ^ m) in
  try while true do
    let line = input_line stdin in
    print_string (try f line with e -> "DRIVER-ERROR " ^ Printexc.to_string e); print_char '\n'
  done with End_of_file -> ()
