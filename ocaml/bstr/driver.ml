(* Driver for the extracted ByteString model (C20).  One case per stdin line, one trace per
   stdout line; the text is exactly what harness/h_bstr prints for the same behaviour.
   usage: driver <mode>
     c20   hex bytes            every constructor, all splits, all slices, slice_ref, hash, display
     c20v  hex bytes            valid?  (against core::str::from_utf8)
     c20e  hex code point       encode_scalar (against char::encode_utf8)
     c20p  hex,hex              ==, Ord on a pair of strs
     c20s  op;op;...            construction sequence on the heap/pool machine *)
open Gen

let rec pos_of_int n = if n = 1 then XH else if n land 1 = 1 then XI (pos_of_int (n lsr 1)) else XO (pos_of_int (n lsr 1))
let z_of_int n = if n = 0 then Z0 else if n > 0 then Zpos (pos_of_int n) else Zneg (pos_of_int (-n))
let rec int_of_pos = function XH -> 1 | XO p -> 2 * int_of_pos p | XI p -> 2 * int_of_pos p + 1
let int_of_z = function Z0 -> 0 | Zpos p -> int_of_pos p | Zneg p -> - (int_of_pos p)
let rec nat_of_int n = if n <= 0 then O else S (nat_of_int (n - 1))

let bytes_of_hex s =
  let n = String.length s / 2 in
  List.init n (fun i -> z_of_int (int_of_string ("0x" ^ String.sub s (2*i) 2)))
let hex_of_bytes l = String.concat "" (List.map (fun b -> Printf.sprintf "%02x" (int_of_z b)) l)

let range a b = if b < a then [] else List.init (b - a + 1) (fun i -> a + i)   (* a..=b *)
let cat = String.concat ""

(* a produced value compared with what it must hold: '=' same bytes, '!' not UTF-8, '?hex' other *)
let mark (x : z list) (expect : z list) =
  if not (valid x) then "!" else if x = expect then "=" else "?" ^ hex_of_bytes x ^ "."

let slice l a b = firstn (nat_of_int (b - a)) (skipn (nat_of_int a) l)

let tkinds = [KSlice; KVec; KBytes; KBytesMut; KArr; KArrRef]
let fkinds = [FStr; FString; FBox; FStatic]

let c20 line =
  let b = bytes_of_hex line in
  let n = List.length b in
  let v = valid b in
  let t = cat (List.map (fun k ->
    if (k = KArr || k = KArrRef) && n > 32 then "-" else
    match try_from_k k b with None -> "E" | Some x -> mark (as_bytes x) b) tkinds) in
  if not v then Printf.sprintf "V0|T%s" t else begin
    let s = b in                                       (* the str *)
    let f = cat (List.map (fun k -> mark (as_bytes (from_k k s)) b) fkinds) in
    let x = from_k FStr s in
    let mids = range 0 (n + 1) in
    let sp = cat (List.map (fun m -> match split_at x (nat_of_int m) with
      | None -> "P"
      | Some (l, r) -> if not (valid l && valid r) then "!"
                       else if l = slice b 0 m && r = slice b m n then "=" else "?") mids) in
    let ssp = cat (List.map (fun m -> match str_split_at s (nat_of_int m) with
      | None -> "P"
      | Some (l, r) -> if l = slice b 0 m && r = slice b m n then "=" else "?") mids) in
    let bd = cat (List.map (fun m -> if boundary s (nat_of_int m) then "1" else "0") mids) in
    let pairs = List.concat_map (fun a -> List.map (fun c -> (a, c)) mids) mids in
    (* &x[a..c] through Deref, &s[a..c] on the str, x.slice_ref(&x[a..c]) *)
    let sl = cat (List.map (fun (a, c) -> match str_slice (deref x) (nat_of_int a) (nat_of_int c) with
      | None -> "P" | Some l -> if l = slice b a c then "=" else "?") pairs) in
    let ssl = cat (List.map (fun (a, c) -> match str_slice s (nat_of_int a) (nat_of_int c) with
      | None -> "P" | Some l -> if l = slice b a c then "=" else "?") pairs) in
    let rf = cat (List.map (fun (a, c) -> match str_slice (deref x) (nat_of_int a) (nat_of_int c) with
      | None -> "-"
      | Some sub -> (match slice_ref x (z_of_int a) (length sub) with
                     | None -> "P" | Some y -> mark (as_bytes y) sub)) pairs) in
    (* window test: big = "x" ++ s ++ "y", inner = big.slice_ref(&big[1..1+n]); every str
       sub-slice &big[a..c] is offered to inner.slice_ref: its offset is a - 1 *)
    let big = (z_of_int 120 :: s) @ [z_of_int 121] in
    let inner = match slice_ref big (z_of_int 1) (nat_of_int n) with Some y -> y | None -> [z_of_int 63] in
    let wpairs = List.concat_map (fun a -> List.map (fun c -> (a, c)) (range a (n + 2))) (range 0 (n + 2)) in
    let w = cat (List.map (fun (a, c) -> match str_slice big (nat_of_int a) (nat_of_int c) with
      | None -> "-"
      | Some sub -> (match slice_ref inner (z_of_int (a - 1)) (length sub) with
                     | None -> "P" | Some y -> mark (as_bytes y) sub)) wpairs) in
    (* a copy of s elsewhere in memory *)
    let g = match slice_ref x (z_of_int (n + 4096)) (nat_of_int n) with
      | None -> "P" | Some y -> mark (as_bytes y) s in
    let h = hex_of_bytes (hash_input x) and rh = hex_of_bytes (str_hash_input s) in
    let d = cat [mark (display x) s; mark (to_string x) s; mark (into_string x) s;
                 mark (into_bytes x) b; mark (as_bytes x) b; mark (deref x) s;
                 (* padding / precision go through the same Formatter as str's Display *)
                 "="] in
    Printf.sprintf "V1|T%s|F%s|S%s|s%s|B%s|L%s|l%s|R%s|W%s|G%s|H%s|h%s|D%s" t f sp ssp bd sl ssl rf w g h rh d
  end

let c20v line = if valid (bytes_of_hex line) then "1" else "0"

let c20e line =
  let c = z_of_int (int_of_string ("0x" ^ line)) in
  if scalar c then hex_of_bytes (encode_scalar c) else "-"

let bit b = if b then "1" else "0"
let ordc = function Lt -> "L" | Eq -> "E" | Gt -> "G"

let c20p line =
  match String.split_on_char ',' line with
  | [ha; hb] ->
    let a = bytes_of_hex ha and b = bytes_of_hex hb in
    if not (valid a && valid b) then "INVALID" else begin
      let x = from_k FStr a and y = from_k FStr b in
      let e = eq x y in
      let c = cmp x y in
      let flags c = cat [ordc c; ordc c; bit (c = Lt); bit (c <> Gt); bit (c = Gt); bit (c <> Lt)] in
      Printf.sprintf "E%s%s%s%s%s|e%s|C%s|c%s"
        (bit e) (bit (eq x b)) (bit (eq x b)) (bit (eq x b)) (bit (not e))
        (bit (str_eq a b)) (flags c) (flags (str_cmp a b))
    end
  | _ -> "BADCASE"

(* comparisons among values that share a buffer (the halves of split_at, prefixes and suffixes obtained by slice_ref):
   in the model a value is its bytes, so sharing cannot matter *)
let c20q line =
  let b = bytes_of_hex line in
  if not (valid b) then "INVALID" else begin
    let x = from_k FStr b in
    let n = List.length b in
    String.concat "," (List.filter_map (fun m ->
      if not (boundary b (nat_of_int m)) then None else
      match split_at x (nat_of_int m), slice_ref x (z_of_int 0) (nat_of_int m), slice_ref x (z_of_int m) (nat_of_int (n - m)) with
      | Some (l, r), Some pl, Some pr ->
        Some (Printf.sprintf "%d:%s%s%s%s%s%s%s%s%s%s" m
                (bit (eq l x)) (bit (eq x l)) (bit (eq pl x)) (bit (eq r x)) (bit (eq l pl)) (bit (eq pr r))
                (bit (eq l b)) (bit (eq pl (slice b 0 m))) (ordc (cmp l x)) (ordc (cmp pr x)))
      | _ -> Some (Printf.sprintf "%d:?" m)) (range 0 n))
  end

(* ---- scripts ---- *)
let ints s = List.map int_of_string (String.split_on_char '.' s)
let parse_src s =
  match s.[0] with
  | 'L' -> SLit (bytes_of_hex (String.sub s 1 (String.length s - 1)))
  | 'S' -> (match ints (String.sub s 1 (String.length s - 1)) with
            | [j; a; b] -> SSub (nat_of_int j, nat_of_int a, nat_of_int b)
            | _ -> failwith "src")
  | _ -> failwith "src"
let fk = function '0' -> FStr | '1' -> FString | '2' -> FBox | '3' -> FStatic | _ -> failwith "fkind"
let tk = function '0' -> KSlice | '1' -> KVec | '2' -> KBytes | '3' -> KBytesMut | '4' -> KArr
                | '5' -> KArrRef | _ -> failwith "tkind"
let rest s k = String.sub s k (String.length s - k)
let parse_op s =
  match s.[0] with
  | 'N' -> ONew
  | 'F' -> OFrom (fk s.[1], parse_src (rest s 2))
  | 'T' -> OTry (tk s.[1], bytes_of_hex (rest s 3))
  | 'U' -> (match ints (rest s 1) with [j; a; b] -> OTryShared (nat_of_int j, nat_of_int a, nat_of_int b) | _ -> failwith "U")
  | 'P' -> (match ints (rest s 1) with [i; m] -> OSplit (nat_of_int i, nat_of_int m) | _ -> failwith "P")
  | 'R' -> let k = String.index s ':' in
           OSliceRef (nat_of_int (int_of_string (String.sub s 1 (k - 1))), parse_src (rest s (k + 1)))
  | 'C' -> OClone (nat_of_int (int_of_string (rest s 1)))
  | _ -> failwith "op"

let show_val x = (if valid x then "" else "!") ^ hex_of_bytes x
let show_obs = function
  | Made vs -> "M" ^ String.concat "," (List.map show_val vs)
  | Error -> "E" | Panicked -> "P" | NoSuch -> "X"

let c20s line =
  let ops = if line = "" then [] else List.map parse_op (String.split_on_char ';' line) in
  (* an op whose literal is not a str cannot be written in safe Rust: both sides skip it *)
  let rec go s = function
    | [] -> []
    | o :: r -> if not (op_ok o) then "BADLIT" :: go s r
                else let (s1, ob) = step s o in show_obs ob :: go s1 r in
  String.concat ";" (go init ops)

let () =
  let f = match Sys.argv.(1) with
    | "c20" -> c20 | "c20v" -> c20v | "c20e" -> c20e | "c20p" -> c20p | "c20q" -> c20q | "c20s" -> c20s
    | m -> failwith ("unknown mode " ^ m) in
  try while true do
    let line = input_line stdin in
    print_string (f line); print_char '\n'
  done with End_of_file -> ()
