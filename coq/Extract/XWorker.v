(* Extraction of the worker / server-stop models (ExtrOcamlBasic only; numbers stay positive/Z/N/nat). *)
From Coq Require Import Extraction ExtrOcamlBasic.
From AN Require Import Model.Wrk Model.SrvStop.
Extraction Language OCaml.
Extraction "../ocaml/worker/gen.ml" trace diag init C07_ok C07_car_ok C07_restart_ok C07_fifo_ok
  join_poll join_results set_nth srv_trace map_signal.
