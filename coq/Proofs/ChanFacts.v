(* Proofs/ChanFacts.v — invariant of the channel model, simulation proofs for the five C16
   trace checkers, and what the FIFO checker means for the trace (Model/Chan.v). *)
From Coq Require Import Lia.
From AN Require Import Model.Chan Proofs.CounterFacts.

Definition wakes_of (l : local_waker) : list waker :=
  match l with Some w => [w] | None => [] end.

(* ---------------- the Rust methods, in closed form ---------------- *)
Lemma sender_send_spec : forall s v,
  sender_send s v =
  if has_receiver s then (mkShared (buffer s ++ [v]) None true, true, wakes_of (blocked_recv s))
  else (s, false, []).
Proof.
  intros s v. unfold sender_send. destruct (has_receiver s) eqn:E; cbn [negb]; [|reflexivity].
  rewrite lw_wake_spec. reflexivity.
Qed.

Lemma sender_close_spec : forall s,
  sender_close s = (mkShared (buffer s) None false, wakes_of (blocked_recv s)).
Proof. intros s. unfold sender_close. rewrite lw_wake_spec. reflexivity. Qed.

Lemma sender_drop_spec : forall s n,
  sender_drop s n =
  if has_receiver s && Nat.eqb n 2 then (mkShared (buffer s) None (has_receiver s), wakes_of (blocked_recv s))
  else (s, []).
Proof.
  intros s n. unfold sender_drop. destruct (has_receiver s && Nat.eqb n 2); [|reflexivity].
  rewrite lw_wake_spec. reflexivity.
Qed.

(* ---------------- handle table ---------------- *)
Lemma strong_count_rx : forall h, hr h = true -> strong_count h = S (nsenders h).
Proof. intros h H. unfold strong_count. rewrite H. lia. Qed.

Lemma hr_step_false : forall h o, hr h = false -> valid h o = true -> hr (h_step h o) = false.
Proof.
  intros h o H Hv. destruct o; cbn [valid h_step hr] in *; try assumption; try reflexivity; congruence.
Qed.

(* ---------------- state after a script ---------------- *)
Fixpoint chan_exec (c : chan) (s : list chan_op) : chan :=
  match s with
  | [] => c
  | o :: s' => chan_exec (fst (chan_step c o)) s'
  end.

Lemma chan_step_hd : forall c o,
  valid (hd c) o = true -> hd (fst (chan_step c o)) = h_step (hd c) o.
Proof.
  intros c o Hv. unfold chan_step. rewrite Hv.
  destruct o as [i v|i|i|i|w| |].
  - destruct (sender_send (sh c) v) as [[s ok] ws]. reflexivity.
  - reflexivity.
  - destruct (sender_drop (sh c) (strong_count (hd c))) as [s ws]. reflexivity.
  - destruct (sender_close (sh c)) as [s ws]. reflexivity.
  - destruct (receiver_poll_next (sh c) (strong_count (hd c)) w) as [s r]. reflexivity.
  - reflexivity.
  - reflexivity.
Qed.

Lemma chan_step_invalid : forall c o,
  valid (hd c) o = false -> chan_step c o = (c, Obs RInvalid []).
Proof. intros c o Hv. unfold chan_step. rewrite Hv. reflexivity. Qed.

(* ---------------- the invariant ---------------- *)
(* I1: a dropped receiver leaves the open flag cleared (so every later send fails);
   I2: while a waker is registered and the receiver is alive, the buffer is empty, the channel
       is open and at least one sender is alive — i.e. a registered waker is only ever
       waiting for exactly the three events that wake it. *)
Definition chan_inv (c : chan) : Prop :=
  (hr (hd c) = false -> has_receiver (sh c) = false)
  /\ (forall w, blocked_recv (sh c) = Some w -> hr (hd c) = true ->
        buffer (sh c) = [] /\ has_receiver (sh c) = true /\ (1 <= nsenders (hd c))%nat).

Lemma chan_inv_init : chan_inv chan_init.
Proof. split; cbn; intros; discriminate. Qed.

Lemma chan_inv_step : forall c o, chan_inv c -> chan_inv (fst (chan_step c o)).
Proof.
  intros c o [I1 I2]. unfold chan_step, chan_inv.
  destruct (valid (hd c) o) eqn:Hv; [|cbn [fst]; split; assumption].
  destruct o as [i v|i|i|i|w| |]; cbn [valid h_step] in *.
  - (* Send *)
    rewrite sender_send_spec. destruct (has_receiver (sh c)) eqn:Hr; cbn [fst sh hd].
    + split; cbn [has_receiver blocked_recv]; [intros H; specialize (I1 H); congruence|discriminate].
    + split; [intros _; exact Hr|]. intros w Hw Hrx. destruct (I2 w Hw Hrx) as (_ & Hh & _). discriminate.
  - (* CloneSender *)
    cbn [fst sh hd hr hs]. split; [exact I1|]. intros w Hw Hrx.
    destruct (I2 w Hw Hrx) as (Hb & Hh & Hn). repeat split; try assumption.
    unfold nsenders in *. cbn [hs]. rewrite live_app_true. lia.
  - (* DropSender *)
    rewrite sender_drop_spec.
    destruct (has_receiver (sh c) && Nat.eqb (strong_count (hd c)) 2) eqn:E; cbn [fst sh hd hr hs].
    + split; cbn [has_receiver blocked_recv]; [exact I1|discriminate].
    + split; [exact I1|]. intros w Hw Hrx.
      destruct (I2 w Hw Hrx) as (Hb & Hh & Hn). repeat split; try assumption.
      rewrite Hh, (strong_count_rx _ Hrx) in E. cbn [andb] in E. apply Nat.eqb_neq in E.
      unfold nsenders in *. cbn [hs]. pose proof (live_kill _ _ Hv). lia.
  - (* Close *)
    rewrite sender_close_spec. cbn [fst sh hd]. split; cbn [has_receiver blocked_recv]; [reflexivity|discriminate].
  - (* PollRecv *)
    unfold receiver_poll_next. rewrite (strong_count_rx _ Hv).
    destruct (Nat.eqb (S (nsenders (hd c))) 1 || negb (has_receiver (sh c))) eqn:E.
    + (* ending branch: no waker can be registered here *)
      assert (Hnone : blocked_recv (sh c) = None).
      { destruct (blocked_recv (sh c)) as [w0|] eqn:Hw; [|reflexivity].
        destruct (I2 w0 eq_refl Hv) as (_ & Hh & Hn). rewrite Hh in E. cbn [negb] in E.
        rewrite orb_false_r in E. apply Nat.eqb_eq in E. lia. }
      destruct (buffer (sh c)) as [|x b]; cbn [fst sh hd];
        (split; cbn [has_receiver blocked_recv]; [exact I1|]; rewrite Hnone; discriminate).
    + apply orb_false_iff in E. destruct E as [E1 E2]. apply negb_false_iff in E2.
      apply Nat.eqb_neq in E1.
      destruct (buffer (sh c)) as [|x b] eqn:Hb; cbn [fst sh hd].
      * split; cbn [has_receiver blocked_recv buffer]; [exact I1|].
        intros w0 _ _. repeat split; [exact E2|lia].
      * split; cbn [has_receiver blocked_recv buffer]; [exact I1|].
        intros w0 Hw Hrx. destruct (I2 w0 Hw Hrx) as (Hb' & _). congruence.
  - (* SenderFromReceiver *)
    cbn [fst sh hd hr hs]. split; [exact I1|]. intros w Hw Hrx.
    destruct (I2 w Hw Hrx) as (Hb & Hh & Hn). repeat split; try assumption.
    unfold nsenders in *. cbn [hs]. rewrite live_app_true. lia.
  - (* DropReceiver *)
    cbn [fst sh hd hr]. split; [reflexivity|discriminate].
Qed.

Lemma chan_inv_exec : forall s c, chan_inv c -> chan_inv (chan_exec c s).
Proof.
  induction s as [|o s IH]; intros c H; [exact H|].
  cbn [chan_exec]. apply IH. apply chan_inv_step. exact H.
Qed.

(* ---------------- generic soundness of chan_check by simulation ---------------- *)
Section CheckSound.
  Variable A : Type.
  Variable f : handles -> A -> chan_op -> chan_obs -> option A.
  Variable R : chan -> A -> Prop.
  Hypothesis Hstep : forall c a o c' ob,
    R c a -> valid (hd c) o = true -> chan_step c o = (c', ob) ->
    exists a', f (hd c) a o ob = Some a' /\ R c' a'.

  Lemma chan_check_sound : forall s c a,
    R c a -> chan_check f (hd c) a s (chan_run_from c s) = true.
  Proof.
    induction s as [|o s IH]; intros c a HR; [reflexivity|].
    cbn [chan_run_from]. destruct (chan_step c o) as [c' ob] eqn:Hs.
    cbn [chan_check]. destruct (valid (hd c) o) eqn:Hv.
    - destruct (Hstep _ _ _ _ _ HR Hv Hs) as (a' & Hf & HR'). rewrite Hf.
      pose proof (chan_step_hd c o Hv) as Hh. rewrite Hs in Hh. cbn [fst] in Hh.
      rewrite <- Hh. apply IH. exact HR'.
    - rewrite (chan_step_invalid _ _ Hv) in Hs. inversion Hs. subst c' ob.
      cbn [o_ret]. apply IH. exact HR.
  Qed.
End CheckSound.

Ltac step_inv Hs := inversion Hs; subst; clear Hs.

(* ---------------- (a) FIFO ---------------- *)
Lemma fifo_holds : forall s, fifo_ok s (chan_run s) = true.
Proof.
  intros s. unfold fifo_ok, chan_run.
  apply (chan_check_sound (list Z) fifo_f (fun c q => q = buffer (sh c))) with (c := chan_init);
    [|reflexivity].
  intros c q o c' ob Hq Hv Hs. subst q. unfold chan_step in Hs. rewrite Hv in Hs.
  destruct o as [i v|i|i|i|w| |]; cbn [valid] in Hv.
  - rewrite sender_send_spec in Hs. destruct (has_receiver (sh c)); step_inv Hs;
      cbn [fifo_f o_ret]; eexists; split; reflexivity.
  - step_inv Hs. cbn [fifo_f o_ret]. eexists; split; reflexivity.
  - rewrite sender_drop_spec in Hs.
    destruct (has_receiver (sh c) && Nat.eqb (strong_count (hd c)) 2); step_inv Hs;
      cbn [fifo_f o_ret]; eexists; split; reflexivity.
  - rewrite sender_close_spec in Hs. step_inv Hs. cbn [fifo_f o_ret]. eexists; split; reflexivity.
  - unfold receiver_poll_next in Hs.
    destruct (Nat.eqb (strong_count (hd c)) 1 || negb (has_receiver (sh c)));
      destruct (buffer (sh c)) as [|x b] eqn:Hb; step_inv Hs; cbn [fifo_f o_ret sh buffer];
      rewrite ?Hb, ?Z.eqb_refl; eexists; split; reflexivity.
  - step_inv Hs. cbn [fifo_f o_ret]. eexists; split; reflexivity.
  - step_inv Hs. cbn [fifo_f o_ret]. eexists; split; reflexivity.
Qed.

(* ---------------- (b) send error ---------------- *)
Lemma send_err_holds : forall s, send_err_ok s (chan_run s) = true.
Proof.
  intros s. unfold send_err_ok, chan_run.
  apply (chan_check_sound bool senderr_f (fun c closed => closed = negb (has_receiver (sh c))))
    with (c := chan_init); [|reflexivity].
  intros c closed o c' ob Hc Hv Hs. subst closed. unfold chan_step in Hs. rewrite Hv in Hs.
  destruct o as [i v|i|i|i|w| |]; cbn [valid] in Hv.
  - rewrite sender_send_spec in Hs. destruct (has_receiver (sh c)) eqn:Hr; step_inv Hs;
      cbn [senderr_f o_ret negb Bool.eqb sh has_receiver]; rewrite ?Hr; eexists; split; reflexivity.
  - step_inv Hs. cbn [senderr_f]. eexists; split; reflexivity.
  - rewrite sender_drop_spec in Hs.
    destruct (has_receiver (sh c) && Nat.eqb (strong_count (hd c)) 2); step_inv Hs;
      cbn [senderr_f sh has_receiver]; eexists; split; reflexivity.
  - rewrite sender_close_spec in Hs. step_inv Hs. cbn [senderr_f]. eexists; split; reflexivity.
  - unfold receiver_poll_next in Hs.
    destruct (Nat.eqb (strong_count (hd c)) 1 || negb (has_receiver (sh c)));
      destruct (buffer (sh c)) as [|x b]; step_inv Hs; cbn [senderr_f sh has_receiver];
      eexists; split; reflexivity.
  - step_inv Hs. cbn [senderr_f]. eexists; split; reflexivity.
  - step_inv Hs. cbn [senderr_f]. eexists; split; reflexivity.
Qed.

(* ---------------- (c) wake obligation ---------------- *)
Definition wake_rel (c : chan) (parked : option waker) : Prop :=
  chan_inv c /\ forall w, parked = Some w -> blocked_recv (sh c) = Some w /\ hr (hd c) = true.

Lemma wake_holds : forall s, wake_ok s (chan_run s) = true.
Proof.
  intros s. unfold wake_ok, chan_run.
  apply (chan_check_sound (option waker) wake_f wake_rel) with (c := chan_init);
    [|split; [apply chan_inv_init|discriminate]].
  intros c parked o c' ob [Hinv Hp] Hv Hs.
  assert (Hinv' : chan_inv c').
  { rewrite <- (f_equal fst Hs : fst (chan_step c o) = c'). apply chan_inv_step. exact Hinv. }
  destruct Hinv as [I1 I2].
  unfold chan_step in Hs. rewrite Hv in Hs.
  destruct o as [i v|i|i|i|w| |]; cbn [valid] in Hv.
  - (* Send *)
    rewrite sender_send_spec in Hs.
    destruct parked as [w|].
    + destruct (Hp w eq_refl) as [Hw Hrx]. destruct (I2 w Hw Hrx) as (_ & Hh & _).
      rewrite Hh, Hw in Hs. step_inv Hs. cbn [wake_f o_ret o_wakes wakes_of]. rewrite mem_waker_single.
      eexists. split; [reflexivity|]. split; [exact Hinv'|discriminate].
    + destruct (has_receiver (sh c)); step_inv Hs; cbn [wake_f o_ret];
        (eexists; split; [reflexivity|]; split; [exact Hinv'|discriminate]).
  - (* CloneSender *)
    step_inv Hs. cbn [wake_f o_ret o_wakes]. destruct parked as [w|].
    + cbn [mem_waker]. eexists. split; [reflexivity|]. split; [exact Hinv'|].
      intros w0 H0. inversion H0. subst w0. exact (Hp w eq_refl).
    + eexists. split; [reflexivity|]. split; [exact Hinv'|discriminate].
  - (* DropSender *)
    rewrite sender_drop_spec in Hs.
    destruct parked as [w|].
    + destruct (Hp w eq_refl) as [Hw Hrx]. destruct (I2 w Hw Hrx) as (_ & Hh & _).
      rewrite Hh, (strong_count_rx _ Hrx), Hw in Hs. cbn [andb] in Hs.
      change (Nat.eqb (S (nsenders (hd c))) 2) with (Nat.eqb (nsenders (hd c)) 1) in Hs.
      destruct (Nat.eqb (nsenders (hd c)) 1) eqn:E; step_inv Hs; cbn [wake_f o_ret o_wakes wakes_of].
      * rewrite mem_waker_single. eexists. split; [reflexivity|]. split; [exact Hinv'|discriminate].
      * cbn [mem_waker]. rewrite E. eexists. split; [reflexivity|]. split; [exact Hinv'|].
        intros w0 H0. inversion H0. subst w0. cbn [sh hd h_step hr]. split; assumption.
    + destruct (has_receiver (sh c) && Nat.eqb (strong_count (hd c)) 2); step_inv Hs; cbn [wake_f o_ret];
        (eexists; split; [reflexivity|]; split; [exact Hinv'|discriminate]).
  - (* Close *)
    rewrite sender_close_spec in Hs. step_inv Hs. cbn [wake_f o_ret o_wakes].
    destruct parked as [w|].
    + destruct (Hp w eq_refl) as [Hw Hrx]. rewrite Hw. cbn [wakes_of]. rewrite mem_waker_single.
      eexists. split; [reflexivity|]. split; [exact Hinv'|discriminate].
    + eexists. split; [reflexivity|]. split; [exact Hinv'|discriminate].
  - (* PollRecv *)
    unfold receiver_poll_next in Hs.
    destruct (Nat.eqb (strong_count (hd c)) 1 || negb (has_receiver (sh c)));
      destruct (buffer (sh c)) as [|x b]; step_inv Hs; cbn [wake_f o_ret];
      (eexists; split; [reflexivity|]; split; [exact Hinv'|]); try discriminate.
    intros w0 H0. inversion H0. subst w0. cbn [sh hd blocked_recv lw_register fst h_step]. split; [reflexivity|exact Hv].
  - (* SenderFromReceiver *)
    step_inv Hs. cbn [wake_f o_ret o_wakes]. destruct parked as [w|].
    + cbn [mem_waker]. eexists. split; [reflexivity|]. split; [exact Hinv'|].
      intros w0 H0. inversion H0. subst w0. exact (Hp w eq_refl).
    + eexists. split; [reflexivity|]. split; [exact Hinv'|discriminate].
  - (* DropReceiver *)
    step_inv Hs. cbn [wake_f o_ret]. eexists. split; [reflexivity|]. split; [exact Hinv'|discriminate].
Qed.

(* ---------------- (c') exactly once, nothing else woken ---------------- *)
Lemma wake_once_wakes_of : forall l,
  (if wakers_eqb (wakes_of l) [] then Some l
   else match l with
        | Some w => if wakers_eqb (wakes_of l) [w] then Some None else None
        | None => None
        end) = Some (match l with Some _ => None | None => l end).
Proof. destruct l as [w|]; cbn; [rewrite Nat.eqb_refl|]; reflexivity. Qed.

Lemma wake_once_holds : forall s, wake_once_ok s (chan_run s) = true.
Proof.
  intros s. unfold wake_once_ok, chan_run.
  apply (chan_check_sound (option waker) wake_once_f (fun c reg => reg = blocked_recv (sh c)))
    with (c := chan_init); [|reflexivity].
  intros c reg o c' ob Hr Hv Hs. subst reg. unfold chan_step in Hs. rewrite Hv in Hs.
  destruct o as [i v|i|i|i|w| |]; cbn [valid] in Hv.
  - rewrite sender_send_spec in Hs. destruct (has_receiver (sh c)); step_inv Hs; cbn [wake_once_f o_ret o_wakes].
    + rewrite wake_once_wakes_of. eexists. split; [reflexivity|].
      cbn [sh blocked_recv]. destruct (blocked_recv (sh c)); reflexivity.
    + cbn [wakers_eqb]. eexists. split; reflexivity.
  - step_inv Hs. cbn [wake_once_f o_ret o_wakes wakers_eqb]. eexists. split; reflexivity.
  - rewrite sender_drop_spec in Hs.
    destruct (has_receiver (sh c) && Nat.eqb (strong_count (hd c)) 2); step_inv Hs; cbn [wake_once_f o_ret o_wakes].
    + rewrite wake_once_wakes_of. eexists. split; [reflexivity|].
      cbn [sh blocked_recv]. destruct (blocked_recv (sh c)); reflexivity.
    + cbn [wakers_eqb]. eexists. split; reflexivity.
  - rewrite sender_close_spec in Hs. step_inv Hs. cbn [wake_once_f o_ret o_wakes].
    rewrite wake_once_wakes_of. eexists. split; [reflexivity|].
    cbn [sh blocked_recv]. destruct (blocked_recv (sh c)); reflexivity.
  - unfold receiver_poll_next in Hs.
    destruct (Nat.eqb (strong_count (hd c)) 1 || negb (has_receiver (sh c)));
      destruct (buffer (sh c)) as [|x b]; step_inv Hs; cbn [wake_once_f o_ret o_wakes wakers_eqb];
      eexists; split; reflexivity.
  - step_inv Hs. cbn [wake_once_f o_ret o_wakes wakers_eqb]. eexists. split; reflexivity.
  - step_inv Hs. cbn [wake_once_f o_ret o_wakes wakers_eqb]. eexists. split; reflexivity.
Qed.

(* ---------------- (d) clean closure ---------------- *)
Lemma end_holds : forall s, end_ok s (chan_run s) = true.
Proof.
  intros s. unfold end_ok, chan_run.
  apply (chan_check_sound bool end_f (fun c closed => closed = negb (has_receiver (sh c))))
    with (c := chan_init); [|reflexivity].
  intros c closed o c' ob Hc Hv Hs. subst closed. unfold chan_step in Hs. rewrite Hv in Hs.
  destruct o as [i v|i|i|i|w| |]; cbn [valid] in Hv.
  - rewrite sender_send_spec in Hs. destruct (has_receiver (sh c)) eqn:Hr; step_inv Hs;
      cbn [end_f sh has_receiver]; rewrite ?Hr; eexists; split; reflexivity.
  - step_inv Hs. cbn [end_f]. eexists; split; reflexivity.
  - rewrite sender_drop_spec in Hs.
    destruct (has_receiver (sh c) && Nat.eqb (strong_count (hd c)) 2); step_inv Hs;
      cbn [end_f sh has_receiver]; eexists; split; reflexivity.
  - rewrite sender_close_spec in Hs. step_inv Hs. cbn [end_f]. eexists; split; reflexivity.
  - unfold receiver_poll_next in Hs. rewrite (strong_count_rx _ Hv) in Hs.
    change (Nat.eqb (S (nsenders (hd c))) 1) with (Nat.eqb (nsenders (hd c)) 0) in Hs.
    rewrite orb_comm in Hs.
    destruct (negb (has_receiver (sh c)) || Nat.eqb (nsenders (hd c)) 0) eqn:E;
      destruct (buffer (sh c)) as [|x b]; step_inv Hs; cbn [end_f o_ret sh has_receiver]; rewrite ?E;
      eexists; split; reflexivity.
  - step_inv Hs. cbn [end_f]. eexists; split; reflexivity.
  - step_inv Hs. cbn [end_f]. eexists; split; reflexivity.
Qed.

Lemma C16_ok_run : forall s, C16_ok s (chan_run s) = true.
Proof.
  intros s. unfold C16_ok.
  rewrite fifo_holds, send_err_holds, wake_holds, wake_once_holds, end_holds. reflexivity.
Qed.

Lemma chan_run_length : forall s c, length (chan_run_from c s) = length s.
Proof.
  induction s as [|o s IH]; intros c; [reflexivity|].
  cbn [chan_run_from]. destruct (chan_step c o) as [c' ob]. cbn [length]. rewrite IH. reflexivity.
Qed.

(* ==================================================================================== *)
(* What the FIFO checker means for ANY accepted trace (model run or implementation       *)
(* trace): the received values are a prefix of the successfully sent values (in order,   *)
(* each once), and a poll withholds nothing.                                              *)
(* ==================================================================================== *)
Lemma fifo_f_cases : forall h q o ob q', fifo_f h q o ob = Some q' ->
     (exists i v, o = Send i v /\ o_ret ob = RSent true /\ q' = q ++ [v])
  \/ (exists i v, o = Send i v /\ o_ret ob = RSent false /\ q' = q)
  \/ (exists w v, o = PollRecv w /\ o_ret ob = RPoll (Item v) /\ q = v :: q')
  \/ (exists w r, o = PollRecv w /\ o_ret ob = RPoll r /\ (forall v, r <> Item v) /\ q = [] /\ q' = [])
  \/ (o = DropReceiver /\ o_ret ob = RUnit /\ q' = [])
  \/ ((forall i v, o <> Send i v) /\ (forall w, o <> PollRecv w) /\ o <> DropReceiver
      /\ o_ret ob = RUnit /\ q' = q).
Proof.
  intros h q o ob q' H. destruct ob as [ret ws]. cbn [o_ret].
  destruct o as [i v|i|i|i|w| |]; destruct ret as [| |[|]|[|x|]]; cbn [fifo_f o_ret] in H; try discriminate.
  - left. exists i, v. inversion H. auto.
  - right; left. exists i, v. inversion H. auto.
  - do 5 right. inversion H. repeat split; intros; discriminate.
  - do 5 right. inversion H. repeat split; intros; discriminate.
  - do 5 right. inversion H. repeat split; intros; discriminate.
  - do 3 right; left. exists w, Pending. destruct q; inversion H. repeat split; intros; discriminate.
  - do 2 right; left. exists w, x. destruct q as [|y q0]; [discriminate|].
    destruct (Z.eqb y x) eqn:E; inversion H. apply Z.eqb_eq in E. subst. auto.
  - do 3 right; left. exists w, Finished. destruct q; inversion H. repeat split; intros; discriminate.
  - do 5 right. inversion H. repeat split; intros; discriminate.
  - do 4 right; left. inversion H. auto.
Qed.

(* once the receiver handle is gone no poll is executed, so nothing is received any more *)
Lemma received_no_receiver : forall (A : Type) (f : handles -> A -> chan_op -> chan_obs -> option A) s tr h a,
  hr h = false -> chan_check f h a s tr = true -> received s tr = [].
Proof.
  intros A f. induction s as [|o s IH]; intros tr h a Hh H; [destruct tr; reflexivity|].
  destruct tr as [|ob tr]; [reflexivity|]. cbn [chan_check] in H.
  destruct (valid h o) eqn:Hv.
  - destruct (f h a o ob) as [a'|]; [|discriminate].
    assert (Hrec : received (o :: s) (ob :: tr) = received s tr).
    { destruct o; cbn [received]; try reflexivity. cbn [valid] in Hv. congruence. }
    rewrite Hrec. apply (IH tr (h_step h o) a'); [apply hr_step_false; assumption|exact H].
  - destruct (o_ret ob) eqn:Hr; try discriminate.
    assert (Hrec : received (o :: s) (ob :: tr) = received s tr).
    { destruct o; cbn [received]; rewrite ?Hr; reflexivity. }
    rewrite Hrec. apply (IH tr h a); assumption.
Qed.

Lemma fifo_prefix_gen : forall s tr h q,
  chan_check fifo_f h q s tr = true -> exists rest, q ++ sent_ok s tr = received s tr ++ rest.
Proof.
  induction s as [|o s IH]; intros tr h q H.
  - destruct tr; [|discriminate]. exists q. cbn. apply app_nil_r.
  - destruct tr as [|ob tr]; [discriminate|]. cbn [chan_check] in H.
    destruct (valid h o) eqn:Hv.
    + destruct (fifo_f h q o ob) as [q'|] eqn:Hf; [|discriminate].
      destruct (fifo_f_cases _ _ _ _ _ Hf)
        as [(i & v & -> & Hr & ->)|[(i & v & -> & Hr & ->)|[(w & v & -> & Hr & ->)|
           [(w & r & -> & Hr & Hni & -> & ->)|[(-> & Hr & ->)|(Hns & Hnp & Hnd & Hr & ->)]]]]].
      * destruct (IH _ _ _ H) as [rest E]. exists rest. cbn [sent_ok received]. rewrite ?Hr.
        rewrite <- E, <- app_assoc. reflexivity.
      * destruct (IH _ _ _ H) as [rest E]. exists rest. cbn [sent_ok received]. rewrite ?Hr. exact E.
      * destruct (IH _ _ _ H) as [rest E]. exists rest. cbn [sent_ok received]. rewrite ?Hr.
        cbn [app]. rewrite E. reflexivity.
      * destruct (IH _ _ _ H) as [rest E]. exists rest. cbn [sent_ok received]. rewrite ?Hr.
        destruct r as [|v|]; [exact E|exfalso; exact (Hni v eq_refl)|exact E].
      * exists (q ++ sent_ok s tr). cbn [sent_ok received]. rewrite ?Hr.
        rewrite (received_no_receiver _ _ _ _ _ _ (eq_refl : hr (h_step h DropReceiver) = false) H).
        reflexivity.
      * destruct (IH _ _ _ H) as [rest E]. exists rest.
        destruct o; cbn [sent_ok received]; rewrite ?Hr; exact E.
    + destruct (o_ret ob) eqn:Hr; try discriminate.
      destruct (IH _ _ _ H) as [rest E]. exists rest.
      destruct o; cbn [sent_ok received]; rewrite ?Hr; exact E.
Qed.

Lemma fifo_prefix : forall s tr,
  fifo_ok s tr = true -> exists rest, sent_ok s tr = received s tr ++ rest.
Proof. intros s tr H. exact (fifo_prefix_gen s tr h_init [] H). Qed.

Lemma poll_needs_receiver : forall (A : Type) (f : handles -> A -> chan_op -> chan_obs -> option A) s1 tr1 h a w r ws,
  hr h = false -> length s1 = length tr1 ->
  chan_check f h a (s1 ++ [PollRecv w]) (tr1 ++ [Obs (RPoll r) ws]) = false.
Proof.
  intros A f. induction s1 as [|o s1 IH]; intros tr1 h a w r ws Hh Hl.
  - destruct tr1; [|discriminate]. cbn [app chan_check valid]. rewrite Hh. reflexivity.
  - destruct tr1 as [|ob tr1]; [discriminate|]. cbn [app chan_check].
    destruct (valid h o) eqn:Hv.
    + destruct (f h a o ob) as [a'|]; [|reflexivity].
      apply IH; [apply hr_step_false; assumption|]. cbn [length] in Hl. lia.
    + destruct (o_ret ob); try reflexivity. apply IH; [assumption|]. cbn [length] in Hl. lia.
Qed.

Lemma fifo_complete_gen : forall s1 tr1 h q w r ws,
  length s1 = length tr1 ->
  chan_check fifo_f h q (s1 ++ [PollRecv w]) (tr1 ++ [Obs (RPoll r) ws]) = true ->
  match r with
  | Item v => exists rest, q ++ sent_ok s1 tr1 = received s1 tr1 ++ v :: rest
  | _ => q ++ sent_ok s1 tr1 = received s1 tr1
  end.
Proof.
  induction s1 as [|o s1 IH]; intros tr1 h q w r ws Hl H.
  - destruct tr1; [|discriminate]. cbn [app chan_check] in H.
    destruct (valid h (PollRecv w)); [|discriminate].
    destruct (fifo_f h q (PollRecv w) (Obs (RPoll r) ws)) as [q'|] eqn:Hf; [|discriminate].
    cbn [sent_ok received]. rewrite app_nil_r. cbn [app].
    destruct r as [|v|]; cbn [fifo_f o_ret] in Hf.
    + destruct q; [reflexivity|discriminate].
    + destruct q as [|y q0]; [discriminate|]. destruct (Z.eqb y v) eqn:E; [|discriminate].
      apply Z.eqb_eq in E. subst y. exists q0. reflexivity.
    + destruct q; [reflexivity|discriminate].
  - destruct tr1 as [|ob tr1]; [discriminate|]. cbn [length] in Hl.
    assert (Hl' : length s1 = length tr1) by lia.
    cbn [app chan_check] in H.
    destruct (valid h o) eqn:Hv.
    + destruct (fifo_f h q o ob) as [q'|] eqn:Hf; [|discriminate].
      destruct (fifo_f_cases _ _ _ _ _ Hf)
        as [(i & v & -> & Hr & ->)|[(i & v & -> & Hr & ->)|[(w0 & v & -> & Hr & ->)|
           [(w0 & r0 & -> & Hr & Hni & -> & ->)|[(-> & Hr & ->)|(Hns & Hnp & Hnd & Hr & ->)]]]]].
      * specialize (IH _ _ _ _ _ _ Hl' H). cbn [sent_ok received]. rewrite ?Hr.
        destruct r; [|destruct IH as [rest E]; exists rest|]; rewrite <- ?E, <- ?IH, <- app_assoc; reflexivity.
      * specialize (IH _ _ _ _ _ _ Hl' H). cbn [sent_ok received]. rewrite ?Hr. exact IH.
      * specialize (IH _ _ _ _ _ _ Hl' H). cbn [sent_ok received]. rewrite ?Hr. cbn [app].
        destruct r; [|destruct IH as [rest E]; exists rest|]; rewrite ?E, ?IH; reflexivity.
      * specialize (IH _ _ _ _ _ _ Hl' H). cbn [sent_ok received]. rewrite ?Hr.
        destruct r0 as [|v|]; [exact IH|exfalso; exact (Hni v eq_refl)|exact IH].
      * rewrite (poll_needs_receiver _ fifo_f s1 tr1 (h_step h DropReceiver) [] w r ws eq_refl Hl') in H.
        discriminate.
      * specialize (IH _ _ _ _ _ _ Hl' H).
        destruct o; cbn [sent_ok received]; rewrite ?Hr; exact IH.
    + destruct (o_ret ob) eqn:Hr; try discriminate.
      specialize (IH _ _ _ _ _ _ Hl' H).
      destruct o; cbn [sent_ok received]; rewrite ?Hr; exact IH.
Qed.

Lemma fifo_complete : forall s1 tr1 w r ws,
  length s1 = length tr1 ->
  fifo_ok (s1 ++ [PollRecv w]) (tr1 ++ [Obs (RPoll r) ws]) = true ->
  match r with
  | Item v => exists rest, sent_ok s1 tr1 = received s1 tr1 ++ v :: rest
  | _ => sent_ok s1 tr1 = received s1 tr1
  end.
Proof. intros s1 tr1 w r ws Hl H. exact (fifo_complete_gen s1 tr1 h_init [] w r ws Hl H). Qed.

(* a prefix of an accepted run is accepted: checkers are prefix-closed *)
Lemma chan_check_prefix : forall (A : Type) (f : handles -> A -> chan_op -> chan_obs -> option A) s1 s2 tr1 tr2 h a,
  length s1 = length tr1 ->
  chan_check f h a (s1 ++ s2) (tr1 ++ tr2) = true -> chan_check f h a s1 tr1 = true.
Proof.
  intros A f. induction s1 as [|o s1 IH]; intros s2 tr1 tr2 h a Hl H.
  - destruct tr1; [reflexivity|discriminate].
  - destruct tr1 as [|ob tr1]; [discriminate|]. cbn [length] in Hl. cbn [app chan_check] in *.
    destruct (valid h o).
    + destruct (f h a o ob) as [a'|]; [|discriminate]. eapply IH; [lia|exact H].
    + destruct (o_ret ob); try discriminate. eapply IH; [lia|exact H].
Qed.
