(* Driver for the extracted codec models.  One case per stdin line, one trace per stdout line.
   usage: driver <mode>
   modes: c15    input: hex bytes
          c15enc input: hex strings separated by ,
          c13    input: <codec>;<read script>      codec = lines | lp | lpd | lps | bytes
                        read script = comma separated  c<hex> (chunk) | p (Pending) | z (0-byte read) | e (io error)
          c14    input: <codec>;<write answers>;<flush answers>;<shutdown answers>;<ops>
                        write answers  a<k> | p | z | e     flush/shutdown answers  o | p | e
                        ops  r (poll_ready) | f (poll_flush) | c (poll_close) | s<len>x<seed> (start_send)
   Trace formats: see notes/codec.md. *)
open Gen

let rec pos_of_int n = if n = 1 then XH else if n land 1 = 1 then XI (pos_of_int (n lsr 1)) else XO (pos_of_int (n lsr 1))
let z_of_int n = if n = 0 then Z0 else if n > 0 then Zpos (pos_of_int n) else Zneg (pos_of_int (-n))
let rec int_of_pos = function XH -> 1 | XO p -> 2 * int_of_pos p | XI p -> 2 * int_of_pos p + 1
let int_of_z = function Z0 -> 0 | Zpos p -> int_of_pos p | Zneg p -> - (int_of_pos p)

(* one shared Z per byte value: a buffer costs a cons cell per byte instead of a fresh positive *)
let ztab = Array.init 256 z_of_int
let hexval c = match c with '0'..'9' -> Char.code c - 48 | 'a'..'f' -> Char.code c - 87 | 'A'..'F' -> Char.code c - 55
                          | _ -> failwith "bad hex digit"
let bytes_of_hex s =
  let n = String.length s / 2 in
  List.init n (fun i -> ztab.(16 * hexval s.[2*i] + hexval s.[2*i+1]))
let hex_of_bytes l = String.concat "" (List.map (fun b -> Printf.sprintf "%02x" (int_of_z b)) l)

let show_item = function IOk s -> "O:" ^ hex_of_bytes s | IErr -> "E"
let show_items l = String.concat "," (List.map show_item l)

let c15 line =
  match run_lines (bytes_of_hex line) with
  | None -> "OUT_OF_FUEL"
  | Some ((its, its2), r) -> show_items its ^ "|" ^ show_items its2 ^ "|" ^ hex_of_bytes r

(* decode_eof only, repeated until None, on the whole input (EOF before anything was decoded) *)
let c15eof line =
  match decode_all_eof (bytes_of_hex line) with
  | None -> "OUT_OF_FUEL"
  | Some (its, r) -> show_items its ^ "|" ^ hex_of_bytes r

(* encode every string of the case into one buffer, then run the decoder on it *)
let c15enc line =
  let ss = if line = "" then [] else List.map bytes_of_hex (String.split_on_char ',' line) in
  let buf = List.fold_left (fun dst s -> encode s dst) [] ss in
  hex_of_bytes buf ^ "#" ^ (match run_lines buf with
    | None -> "OUT_OF_FUEL"
    | Some ((its, its2), r) -> show_items its ^ "|" ^ show_items its2 ^ "|" ^ hex_of_bytes r)

(* ------------------------------------------------------------------------------------ *)
(* shared by c13/c14 *)
let rec nat_of_int n = if n <= 0 then O else S (nat_of_int (n - 1))
let nat_of_int n = (* tail recursive *)
  let rec go acc n = if n <= 0 then acc else go (S acc) (n - 1) in go O n
let int_of_nat n = let rec go acc = function O -> acc | S m -> go (acc + 1) m in go 0 n
let n_of_int n = if n = 0 then N0 else Npos (pos_of_int n)

let crc_table = Array.init 256 (fun i ->
  let c = ref i in
  for _ = 0 to 7 do
    if !c land 1 = 1 then c := 0xEDB88320 lxor (!c lsr 1) else c := !c lsr 1
  done; !c)
let crc32 (l : int list) =
  let c = List.fold_left (fun c b -> crc_table.((c lxor b) land 0xff) lxor (c lsr 8)) 0xFFFFFFFF l in
  c lxor 0xFFFFFFFF

(* short byte strings in hex, long ones as #<len>.<crc32> *)
let blob (l : z list) =
  let n = List.length l in
  if n <= 24 then hex_of_bytes l
  else Printf.sprintf "#%d.%08x" n (crc32 (List.map int_of_z l))

let split_nonempty c s = if s = "" then [] else String.split_on_char c s

(* ---- c13 ---- *)
let parse_rd tok =
  match tok.[0] with
  | 'c' -> RChunk (bytes_of_hex (String.sub tok 1 (String.length tok - 1)))
  | 'p' -> RPending
  | 'z' -> REof
  | 'e' -> RErr
  | _ -> failwith ("bad read token " ^ tok)

let show_res show_item (r, calls) =
  (match r with
   | Pending -> "P" | Done -> "N" | IoError -> "X" | Panic -> "!"
   | Item a -> "I" ^ show_item a) ^ "@" ^ string_of_int (int_of_nat calls)

let show_lines_item = function IOk s -> "O:" ^ blob s | IErr -> "E"
let show_lp_item = function LOk p -> "O:" ^ blob p | LBadHdr -> "H" | LTrunc -> "T" | LRemaining -> "R" | LEnd -> "S"
let show_bytes_item = function BOk p -> "O:" ^ blob p | BRemaining -> "R"

let c13 line =
  let i = String.index line ';' in
  let codec = String.sub line 0 i in
  (* "<codec>+x": the harness converts the Framed (into_parts/from_parts, into_map_io, into_map_codec) before every poll;
     the conversions carry buffers and flags over, so the model is the same *)
  let codec = match String.index_opt codec '+' with Some j -> String.sub codec 0 j | None -> codec in
  let toks = split_nonempty ',' (String.sub line (i + 1) (String.length line - i - 1)) in
  (* a leading "b<hex>": the Framed is built from parts with this read buffer (FramedParts::with_read_buf), flags empty *)
  let pre, toks = match toks with
    | t :: r when t.[0] = 'b' -> (bytes_of_hex (String.sub t 1 (String.length t - 1)), r)
    | _ -> ([], toks) in
  let rinit = { rinit with rbuf = pre } in
  let sc = List.map parse_rd toks in
  let nbytes = List.length pre + List.fold_left (fun a t -> if t.[0] = 'c' then a + (String.length t - 1) / 2 else a) 0 toks in
  let fuel = nat_of_int (List.length toks + nbytes + 8) and extra = nat_of_int 2 in
  let go dec dec_eof show =
    let out = run_read dec dec_eof fuel extra sc rinit in
    if List.exists (fun (r, _) -> r = Panic) out then "PANIC"
    else String.concat "," (List.map (show_res show) out) in
  match codec with
  | "lines" -> go decode decode_eof show_lines_item
  | "lp" -> go lp_decode lp_decode_eof show_lp_item
  | "lpd" -> go lp_decode lpd_decode_eof show_lp_item
  | "lps" -> go lp_decode lps_decode_eof show_lp_item
  | "bytes" -> go bytes_decode bytes_decode_eof show_bytes_item
  | c -> failwith ("unknown codec " ^ c)

(* ---- c14 ---- *)
let int_after tok = int_of_string (String.sub tok 1 (String.length tok - 1))
let parse_wans tok =
  match tok.[0] with
  | 'a' -> WAccept (n_of_int (int_after tok))
  | 'p' -> WPending | 'z' -> WZero | 'e' -> WErr
  | _ -> failwith ("bad write answer " ^ tok)
let parse_fans tok =
  match tok with "o" -> FOk | "p" -> FPending | "e" -> FErr | _ -> failwith ("bad flush answer " ^ tok)
(* payload of an item: byte j = 'a' + (seed + j) mod 26 *)
let payload len seed = List.init len (fun j -> ztab.(97 + (seed + j) mod 26))
let parse_op tok =
  match tok.[0] with
  | 'r' -> OReady | 'f' -> OFlush | 'c' -> OClose | 'x' | 'y' -> OConv
  | 's' -> let x = String.index tok 'x' in
           let len = int_of_string (String.sub tok 1 (x - 1)) in
           let seed = int_of_string (String.sub tok (x + 1) (String.length tok - x - 1)) in
           OSend (payload len seed)
  | _ -> failwith ("bad op " ^ tok)

let show_fans = function FOk -> "o" | FPending -> "p" | FErr -> "e"
let show_wev = function
  | EvWrite bs -> "w:" ^ blob bs | EvWPending -> "wp" | EvWErr -> "we" | EvWZero -> "wz"
  | EvFlush a -> "f:" ^ show_fans a | EvShutdown a -> "s:" ^ show_fans a
let show_wres = function ROk -> "ok" | RPend -> "pend" | RIoErr -> "io" | RWriteZero -> "wz" | REncErr -> "enc"

let c14 line =
  match String.split_on_char ';' line with
  | [codec; w; f; s; ops] ->
    let st = { wbuf = []; ws = List.map parse_wans (split_nonempty ',' w);
               fs = List.map parse_fans (split_nonempty ',' f);
               ss = List.map parse_fans (split_nonempty ',' s) } in
    let optoks = split_nonempty ',' ops in
    let codec = match String.index_opt codec '+' with Some j -> String.sub codec 0 j | None -> codec in
    let enc = match codec with
      | "lines" -> lines_encode | "bytes" -> bytes_encode | "lp" -> lp_encode
      | c -> failwith ("unknown codec " ^ c) in
    let (outs, fin) = run_write enc (List.map parse_op optoks) st in
    let one tok (((r, evs), e), f) =
      (* is_write_buf_empty / is_write_buf_full / is_write_ready (= not full: framed.rs:108-117) *)
      Printf.sprintf "%s[%s]=%s/%s%s%s" tok (String.concat "," (List.map show_wev evs)) (show_wres r)
        (if e then "E" else "-") (if f then "F" else "-") (if f then "-" else "R") in
    String.concat ";" (List.map2 one optoks outs) ^ "|B" ^ blob fin.wbuf
  | _ -> failwith "c14: expected 5 fields"

let () =
  (* the models allocate long lists; a large minor heap keeps the major GC out of the way *)
  Gc.set { (Gc.get ()) with Gc.minor_heap_size = 8 * 1024 * 1024; Gc.space_overhead = 400 };
  let f = match Sys.argv.(1) with
    | "c15" -> c15 | "c15enc" -> c15enc | "c15eof" -> c15eof | "c13" -> c13 | "c14" -> c14
    | m -> failwith ("unknown mode " ^ m) in
  try while true do
    let line = input_line stdin in
    print_string (f line); print_char '\n'
  done with End_of_file -> ()
