(* Proofs/SrvPause.v — C05, part 1: what holds in EVERY run of Model/Srv.v (any script, kills included).
   [RInv]: the pause log agrees with the `paused` flag and no dispatch is logged while paused; the
   registration/back-off bookkeeping of every listener is consistent (never stranded); a Unix listener's
   path stays linked.  Carried through every function of the accept thread (skeleton of SrvInv.v, but
   without the fault-free hypotheses: nothing here depends on the worker counters).
   Also: the transient-error equation, the idempotence equations, and the frame facts for calls without a
   yield schedule that part 2 (SrvPauseB.v) uses. *)
From Coq Require Import List Arith ZArith NArith Bool Lia.
From AN Require Import Model.Srv Proofs.ListFacts.
Import ListNotations.

(* ---------- the pause log (trace is newest first) ---------- *)
Definition is_dispatch (e : event) : bool := match e with EvDispatch _ _ _ _ _ => true | _ => false end.

(* state of the pause flag according to the log *)
Fixpoint pstate (tr : list event) : bool :=
  match tr with
  | [] => false
  | e :: r => match e with EvPauseOn => true | EvPauseOff => false | _ => pstate r end
  end.

(* every dispatch was logged while the log said "not paused" *)
Fixpoint psafe (tr : list event) : bool :=
  match tr with
  | [] => true
  | e :: r => (if is_dispatch e then negb (pstate r) else true) && psafe r
  end.

Definition quiet_ev (e : event) : bool :=
  match e with EvDispatch _ _ _ _ _ | EvPauseOn | EvPauseOff => false | _ => true end.

Definition TrOk (tr : list event) (p : bool) : Prop := pstate tr = p /\ psafe tr = true.

Lemma TrOk_quiet e tr p : quiet_ev e = true -> TrOk tr p -> TrOk (e :: tr) p.
Proof. intros Hq [H1 H2]. unfold TrOk. destruct e; try discriminate; cbn; auto. Qed.

Lemma TrOk_dispatch c tok g idx n tr : TrOk tr false -> TrOk (EvDispatch c tok g idx n :: tr) false.
Proof. intros [H1 H2]. unfold TrOk. cbn. rewrite H1, H2. auto. Qed.

Lemma TrOk_on tr p : TrOk tr p -> TrOk (EvPauseOn :: tr) true.
Proof. intros [H1 H2]. unfold TrOk. cbn. auto. Qed.

Lemma TrOk_off tr p : TrOk tr p -> TrOk (EvPauseOff :: tr) false.
Proof. intros [H1 H2]. unfold TrOk. cbn. auto. Qed.

(* the declarative reading of [psafe] *)
Lemma pstate_false_off mid pre : pstate (mid ++ EvPauseOn :: pre) = false -> In EvPauseOff mid.
Proof.
  induction mid as [|e mid IH]; cbn [app pstate]; intros H; [discriminate|].
  destruct e; try (right; now apply IH); try discriminate. now left.
Qed.

Lemma psafe_decl tr : psafe tr = true ->
  forall post d mid pre, is_dispatch d = true -> tr = post ++ d :: mid ++ EvPauseOn :: pre -> In EvPauseOff mid.
Proof.
  intros Hs post. revert tr Hs. induction post as [|x post IH]; intros tr Hs d mid pre Hd ->.
  - cbn [app psafe] in Hs. rewrite Hd in Hs. apply andb_true_iff in Hs as [Hs _].
    apply negb_true_iff in Hs. now apply pstate_false_off in Hs.
  - cbn [app psafe] in Hs. apply andb_true_iff in Hs as [_ Hs]. eapply IH; eauto.
Qed.

(* chronological form: log = rev trace *)
Lemma psafe_chrono tr : psafe tr = true ->
  forall pre mid d post, is_dispatch d = true -> rev tr = pre ++ EvPauseOn :: mid ++ d :: post -> In EvPauseOff mid.
Proof.
  intros Hs pre mid d post Hd Hr.
  assert (Ht : tr = rev post ++ d :: rev mid ++ EvPauseOn :: rev pre).
  { rewrite <- (rev_involutive tr), Hr. rewrite rev_app_distr. cbn [rev]. rewrite rev_app_distr. cbn [rev].
    rewrite <- !app_assoc. cbn [app]. reflexivity. }
  apply in_rev. eapply psafe_decl; eauto.
Qed.

(* ---------- the registration bookkeeping of one listener ---------- *)
(* p paused, s stopped, pt poll timeout, nw clock *)
Definition LOk (p s : bool) (pt : option N) (nw : N) (l : lst) : Prop :=
  l_linked l = true /\
  (forall d, l_to l = Some d -> l_reg l = false /\ (d <= nw + 500)%N /\ pt <> None) /\
  (p = true -> l_reg l = false /\ l_to l = None) /\
  (s = false -> p = false -> l_to l = None -> l_reg l = true).

Definition lkey (l : lst) := (l_reg l, l_to l, l_linked l).

Lemma LOk_key p s pt nw l l' : lkey l' = lkey l -> LOk p s pt nw l -> LOk p s pt nw l'.
Proof.
  unfold lkey. intros E. injection E as E1 E2 E3. unfold LOk. rewrite E1, E2, E3. auto.
Qed.

Definition RInv (st : state) : Prop :=
  TrOk (trace st) (paused st) /\
  (forall t, ptimeout st = Some t -> (t <= 510)%N) /\
  Forall (LOk (paused st) (stopped st) (ptimeout st) (now st)) (lsts st).

(* the fields RInv reads *)
Definition core (st : state) := (trace st, lsts st, paused st, stopped st, ptimeout st, now st).

Lemma RInv_core st st' : core st' = core st -> RInv st -> RInv st'.
Proof.
  unfold core. intros E. injection E as E1 E2 E3 E4 E5 E6. unfold RInv. rewrite E1, E2, E3, E4, E5, E6. auto.
Qed.

Lemma core_set_err st b : core (set_err st b) = core st.                     Proof. reflexivity. Qed.
Lemma core_upd_worker st g w : core (upd_worker st g w) = core st.           Proof. reflexivity. Qed.
Lemma core_set_handles st v : core (set_handles st v) = core st.             Proof. reflexivity. Qed.
Lemma core_set_next_ st v : core (set_next_ st v) = core st.                 Proof. reflexivity. Qed.
Lemma core_set_wq st v p : core (set_wq st v p) = core st.                   Proof. reflexivity. Qed.
Lemma core_wake st i : core (wake st i) = core st.                           Proof. reflexivity. Qed.
Lemma core_set_ws st v : core (set_ws st v) = core st.                       Proof. reflexivity. Qed.
Lemma core_av_set st i v : core (av_set st i v) = core st.
Proof. unfold av_set. destruct (set (av st) i v); reflexivity. Qed.
Lemma core_do_set_next st : core (do_set_next st) = core st.
Proof. unfold do_set_next. destruct (length (handles st)); reflexivity. Qed.
Lemma core_av_get st i : core (fst (av_get st i)) = core st.
Proof. unfold av_get. destruct (get (av st) i); reflexivity. Qed.

Lemma RInv_emit_quiet st e : quiet_ev e = true -> RInv st -> RInv (emit st e).
Proof. intros Hq (H1 & H2 & H3). split; [|split]; cbn; auto. now apply TrOk_quiet. Qed.

Lemma RInv_emit_dispatch st c tok g idx n :
  paused st = false -> RInv st -> RInv (emit st (EvDispatch c tok g idx n)).
Proof.
  intros Hp (H1 & H2 & H3). split; [|split]; cbn; auto. rewrite Hp in *. now apply TrOk_dispatch.
Qed.

(* ---------- list helpers ---------- *)
Lemma Forall_replace_nth {A} (P : A -> Prop) n x l : Forall P l -> P x -> Forall P (replace_nth n x l).
Proof.
  revert n; induction l as [|y t IH]; intros n Hl Hx; [destruct n; constructor|].
  inversion Hl; subst. destruct n; cbn; constructor; auto.
Qed.

Lemma Forall_nth_error {A} (P : A -> Prop) l n x : Forall P l -> nth_error l n = Some x -> P x.
Proof. intros H Hn. rewrite Forall_forall in H. apply H. eapply nth_error_In; eauto. Qed.

Lemma RInv_upd_lst_key st tok l l' :
  nth_error (lsts st) tok = Some l -> lkey l' = lkey l -> RInv st -> RInv (upd_lst st tok l').
Proof.
  intros Hn Hk (H1 & H2 & H3). split; [|split]; cbn; auto.
  apply Forall_replace_nth; [exact H3|]. eapply LOk_key; [exact Hk|]. eapply Forall_nth_error; eauto.
Qed.

(* ---------- the waker queue only grows, and growing fires the waker ---------- *)
Definition WQrel (st st' : state) : Prop :=
  exists ext, wq st' = wq st ++ ext /\ ((ext = [] /\ wpend st' = wpend st) \/ wpend st' = true).

Lemma WQrel_refl st : WQrel st st.
Proof. exists []. rewrite app_nil_r. auto. Qed.

Lemma WQrel_same st st' : wq st' = wq st -> wpend st' = wpend st -> WQrel st st'.
Proof. intros H1 H2. exists []. rewrite app_nil_r. auto. Qed.

Lemma WQrel_trans s0 s1 s2 : WQrel s0 s1 -> WQrel s1 s2 -> WQrel s0 s2.
Proof.
  intros (e1 & A1 & A2) (e2 & B1 & B2). exists (e1 ++ e2). rewrite B1, A1, app_assoc. split; [reflexivity|].
  destruct B2 as [[-> B2]|B2]; [|now right]. rewrite app_nil_r, B2. exact A2.
Qed.

Lemma WQrel_wake st i : WQrel st (wake st i).
Proof. exists [i]. cbn. auto. Qed.

(* what accept-level functions leave alone, in every state *)
Definition Fr1 (st st' : state) : Prop :=
  paused st' = paused st /\ stopped st' = stopped st /\ now st' = now st /\ WQrel st st' /\
  length (lsts st') = length (lsts st).

Lemma Fr1_refl st : Fr1 st st.
Proof. unfold Fr1. repeat split; auto using WQrel_refl. Qed.

Lemma Fr1_trans s0 s1 s2 : Fr1 s0 s1 -> Fr1 s1 s2 -> Fr1 s0 s2.
Proof.
  intros (A1 & A2 & A3 & A4 & A5) (B1 & B2 & B3 & B4 & B5). unfold Fr1.
  repeat split; try congruence. eapply WQrel_trans; eauto.
Qed.

(* same core, same queue *)
Lemma Fr1_silent st st' : core st' = core st -> wq st' = wq st -> wpend st' = wpend st -> Fr1 st st'.
Proof.
  unfold core. intros E Hq Hp. injection E as E1 E2 E3 E4 E5 E6. unfold Fr1. rewrite E2, E3, E4, E6.
  repeat split; auto. now apply WQrel_same.
Qed.

Lemma Fr1_same st st' :
  lsts st' = lsts st -> paused st' = paused st -> stopped st' = stopped st -> now st' = now st ->
  wq st' = wq st -> wpend st' = wpend st -> Fr1 st st'.
Proof. intros E1 E2 E3 E4 E5 E6. unfold Fr1. rewrite E1, E2, E3, E4. repeat split. now apply WQrel_same. Qed.

Lemma wq_av_set st i v : wq (av_set st i v) = wq st /\ wpend (av_set st i v) = wpend st.
Proof. unfold av_set. destruct (set (av st) i v); split; reflexivity. Qed.
Lemma wq_do_set_next st : wq (do_set_next st) = wq st /\ wpend (do_set_next st) = wpend st.
Proof. unfold do_set_next. destruct (length (handles st)); split; reflexivity. Qed.

Section All.
Variable L : Z.

Lemma fold_lost_r l : forall s, RInv s ->
  RInv (fold_left (fun s c => emit s (EvLost (c_id c))) l s) /\
  Fr1 s (fold_left (fun s c => emit s (EvLost (c_id c))) l s).
Proof.
  induction l as [|x l IH]; intros s HR; cbn [fold_left]; [split; [exact HR|apply Fr1_refl]|].
  destruct (IH (emit s (EvLost (c_id x)))) as [A B]; [now apply RInv_emit_quiet|].
  split; [exact A|]. eapply Fr1_trans; [|exact B]. apply Fr1_same; reflexivity.
Qed.

Lemma guard_drop_silent st g w :
  core (guard_drop L st g w) = core st /\ WQrel st (guard_drop L st g w).
Proof.
  unfold guard_drop. destruct (Z.eqb (w_cnt w) (L + 1)); cbn.
  - split; [reflexivity|]. exists [IAvail (w_idx w)]. cbn. auto.
  - split; [reflexivity|apply WQrel_same; reflexivity].
Qed.

(* ---------- environment steps ---------- *)
Lemma env_step_r st o : RInv st -> RInv (env_step L st o) /\ Fr1 st (env_step L st o).
Proof.
  intros HR. destruct o; cbn [env_step].
  - (* Connect *)
    destruct (nth_error (lsts st) tok) as [l|] eqn:El; [|split; [exact HR|apply Fr1_refl]].
    destruct (l_uds l && negb (l_linked l)).
    + split; [now apply RInv_emit_quiet|apply Fr1_same; reflexivity].
    + split; [eapply RInv_upd_lst_key; eauto; reflexivity|].
      unfold Fr1. cbn. rewrite length_replace_nth. repeat split. apply WQrel_same; reflexivity.
  - (* Pick *)
    destruct (nth_error (ws st) g) as [w|]; [|split; [exact HR|apply Fr1_refl]].
    destruct (w_open w); [|split; [exact HR|apply Fr1_refl]].
    destruct (w_queue w); [split; [exact HR|apply Fr1_refl]|].
    split; [eapply RInv_core; [|exact HR]; reflexivity|apply Fr1_silent; reflexivity].
  - (* Finish *)
    destruct (nth_error (ws st) g) as [w|]; [|split; [exact HR|apply Fr1_refl]].
    destruct (remove_conn c (w_picked w)) as [[x p]|]; [|split; [exact HR|apply Fr1_refl]].
    destruct (guard_drop_silent st g (set_w_picked w p)) as [Hc Hq].
    split; [apply RInv_emit_quiet; [reflexivity|]; eapply RInv_core; eauto|].
    unfold core in Hc. injection Hc as E1 E2 E3 E4 E5 E6. unfold Fr1. cbn. rewrite E2, E3, E4, E6. repeat split. exact Hq.
  - (* DrainDrop *)
    destruct (nth_error (ws st) g) as [w|]; [|split; [exact HR|apply Fr1_refl]].
    destruct (w_open w); [|split; [exact HR|apply Fr1_refl]].
    destruct (w_queue w) as [|c q]; [split; [exact HR|apply Fr1_refl]|].
    destruct (guard_drop_silent st g (set_w_queue w q)) as [Hc Hq].
    split; [apply RInv_emit_quiet; [reflexivity|]; eapply RInv_core; eauto|].
    unfold core in Hc. injection Hc as E1 E2 E3 E4 E5 E6. unfold Fr1. cbn. rewrite E2, E3, E4, E6. repeat split. exact Hq.
  - (* Kill *)
    destruct (nth_error (ws st) g) as [w|]; [|split; [exact HR|apply Fr1_refl]].
    destruct (w_open w); [|split; [exact HR|apply Fr1_refl]].
    match goal with |- context [fold_left _ _ ?s0] => set (st1 := s0) end.
    assert (H1 : RInv st1 /\ Fr1 st st1).
    { unfold st1. split; [|apply Fr1_same; reflexivity].
      first [apply RInv_emit_quiet; [reflexivity|]|idtac]. eapply RInv_core; [|exact HR]. reflexivity. }
    destruct H1 as [HR1 F1]. destruct (fold_lost_r (w_queue w) st1 HR1) as [A B].
    split; [exact A|exact (Fr1_trans _ _ _ F1 B)].
  - (* Command *)
    split; [eapply RInv_core; [|exact HR]; reflexivity|]. unfold Fr1. cbn. repeat split. apply WQrel_wake.
  - (* Respawn *)
    split; [eapply RInv_core; [|exact HR]; reflexivity|]. unfold Fr1. cbn. repeat split.
    exists [IWorker (length (ws st))]. cbn. auto.
  - (* Inject *)
    destruct (nth_error (lsts st) tok) as [l|] eqn:El; [|split; [exact HR|apply Fr1_refl]].
    split; [eapply RInv_upd_lst_key; eauto; reflexivity|].
    unfold Fr1. cbn. rewrite length_replace_nth. repeat split. apply WQrel_same; reflexivity.
Qed.

Lemma env_steps_r os : forall st, RInv st -> RInv (env_steps L st os) /\ Fr1 st (env_steps L st os).
Proof.
  induction os as [|o os IH]; intros st HR; cbn [env_steps fold_left]; [split; [exact HR|apply Fr1_refl]|].
  destruct (env_step_r st o HR) as [H1 F1]. destruct (IH _ H1) as [H2 F2].
  split; [exact H2|exact (Fr1_trans _ _ _ F1 F2)].
Qed.

(* ---------- silent updates ---------- *)
Lemma RInv_av_set st i v : RInv st -> RInv (av_set st i v).
Proof. apply RInv_core, core_av_set. Qed.
Lemma RInv_do_set_next st : RInv st -> RInv (do_set_next st).
Proof. apply RInv_core, core_do_set_next. Qed.
Lemma RInv_set_err st b : RInv st -> RInv (set_err st b).
Proof. apply RInv_core. reflexivity. Qed.
Lemma RInv_upd_worker st g w : RInv st -> RInv (upd_worker st g w).
Proof. apply RInv_core. reflexivity. Qed.

Lemma Fr1_av_set st i v : Fr1 st (av_set st i v).
Proof. unfold av_set. destruct (set (av st) i v); apply Fr1_same; reflexivity. Qed.
Lemma Fr1_do_set_next st : Fr1 st (do_set_next st).
Proof. unfold do_set_next. destruct (length (handles st)); apply Fr1_same; reflexivity. Qed.
Lemma Fr1_emit st e : Fr1 st (emit st e).
Proof. apply Fr1_same; reflexivity. Qed.
Lemma Fr1_set_err st b : Fr1 st (set_err st b).
Proof. apply Fr1_same; reflexivity. Qed.
Lemma Fr1_upd_worker st g w : Fr1 st (upd_worker st g w).
Proof. apply Fr1_same; reflexivity. Qed.

Lemma paused_Fr1 st st' : Fr1 st st' -> paused st' = paused st.
Proof. intros H. apply H. Qed.

(* ---------- Accept::send_connection / accept_one (any state, any workers) ---------- *)
Lemma send_connection_r st c ys st' ys' r :
  RInv st -> paused st = false -> send_connection L st c ys = (st', ys', r) -> RInv st' /\ Fr1 st st'.
Proof.
  intros HR Hp. unfold send_connection.
  destruct (nth_error (handles st) (next st)) as [g|];
    [|intros E; injection E as <- <- <-; split; [now apply RInv_set_err|apply Fr1_set_err]].
  destruct (nth_error (ws st) g) as [w|];
    [|intros E; injection E as <- <- <-; split; [now apply RInv_set_err|apply Fr1_set_err]].
  destruct (w_open w).
  - set (st1 := emit (upd_worker st g (set_w_queue w (w_queue w ++ [c]))) _).
    assert (HR1 : RInv st1) by (apply RInv_emit_dispatch; [exact Hp|now apply RInv_upd_worker]).
    assert (F1 : Fr1 st st1) by (eapply Fr1_trans; [apply Fr1_upd_worker|apply Fr1_emit]).
    destruct (env_steps_r (hd [] ys) st1 HR1) as [HR2 F2].
    set (st2 := env_steps L st1 (hd [] ys)) in *.
    assert (F02 : Fr1 st st2) by exact (Fr1_trans _ _ _ F1 F2).
    destruct (nth_error (ws st2) g) as [w2|];
      [|intros E; injection E as <- <- <-; split; [now apply RInv_set_err|eapply Fr1_trans; [exact F02|apply Fr1_set_err]]].
    intros E; injection E as <- <- <-.
    destruct (Z.eqb (w_cnt w2) L).
    + split; [apply RInv_do_set_next, RInv_av_set, RInv_upd_worker; exact HR2|].
      eapply Fr1_trans; [exact F02|]. eapply Fr1_trans; [apply Fr1_upd_worker|].
      eapply Fr1_trans; [apply Fr1_av_set|apply Fr1_do_set_next].
    + split; [apply RInv_do_set_next, RInv_upd_worker; exact HR2|].
      eapply Fr1_trans; [exact F02|]. eapply Fr1_trans; [apply Fr1_upd_worker|apply Fr1_do_set_next].
  - set (st3 := av_set (emit (set_handles st (swap_remove (next st) (handles st))) (EvFaulted (w_idx w))) (w_idx w) false).
    assert (HR3 : RInv st3).
    { apply RInv_av_set, RInv_emit_quiet; [reflexivity|]. eapply RInv_core; [|exact HR]. reflexivity. }
    assert (F3 : Fr1 st st3).
    { eapply Fr1_trans; [|apply Fr1_av_set]. apply Fr1_same; reflexivity. }
    destruct (handles st3).
    + intros E; injection E as <- <- <-. split; [now apply RInv_emit_quiet|eapply Fr1_trans; [exact F3|apply Fr1_emit]].
    + match goal with |- context [if ?b then _ else _] => destruct b end; intros E; injection E as <- <- <-.
      * split; [eapply RInv_core; [|exact HR3]; reflexivity|eapply Fr1_trans; [exact F3|apply Fr1_same; reflexivity]].
      * split; assumption.
Qed.

Lemma forced_send_r : forall fuel st c ys st' ys',
  RInv st -> paused st = false -> forced_send L fuel st c ys = (st', ys') -> RInv st' /\ Fr1 st st'.
Proof.
  induction fuel as [|f IH]; intros st c ys st' ys' HR Hp; cbn [forced_send].
  - intros E; injection E as <- <-. split; [now apply RInv_set_err|apply Fr1_set_err].
  - destruct (err st); [intros E; injection E as <- <-; split; [exact HR|apply Fr1_refl]|].
    destruct (send_connection L st c ys) as [[s1 y1] r] eqn:Es.
    destruct (send_connection_r _ _ _ _ _ _ HR Hp Es) as [HR1 F1].
    destruct r as [|c'].
    + intros E; injection E as <- <-. split; assumption.
    + intros E. pose proof (paused_Fr1 _ _ F1) as Hp1. rewrite Hp in Hp1.
      destruct (IH _ _ _ _ _ HR1 Hp1 E) as [HR2 F2]. split; [exact HR2|exact (Fr1_trans _ _ _ F1 F2)].
Qed.

Lemma accept_one_r : forall fuel st c ys st' ys',
  RInv st -> paused st = false -> accept_one L fuel st c ys = (st', ys') -> RInv st' /\ Fr1 st st'.
Proof.
  induction fuel as [|f IH]; intros st c ys st' ys' HR Hp; cbn [accept_one].
  - intros E; injection E as <- <-. split; [now apply RInv_set_err|apply Fr1_set_err].
  - destruct (err st); [intros E; injection E as <- <-; split; [exact HR|apply Fr1_refl]|].
    destruct (nth_error (handles st) (next st)) as [g|];
      [|intros E; injection E as <- <-; split; [now apply RInv_set_err|apply Fr1_set_err]].
    destruct (nth_error (ws st) g) as [w|];
      [|intros E; injection E as <- <-; split; [now apply RInv_set_err|apply Fr1_set_err]].
    destruct (av_get st (w_idx w)) as [st0 b] eqn:Eg.
    assert (H0 : RInv st0 /\ Fr1 st st0).
    { unfold av_get in Eg. destruct (get (av st) (w_idx w)); injection Eg as <- <-;
        (split; [|try apply Fr1_refl; apply Fr1_set_err]); auto using RInv_set_err. }
    destruct H0 as [HR0 F0]. pose proof (paused_Fr1 _ _ F0) as Hp0. rewrite Hp in Hp0.
    destruct b.
    + destruct (send_connection L st0 c ys) as [[s1 y1] r] eqn:Es.
      destruct (send_connection_r _ _ _ _ _ _ HR0 Hp0 Es) as [HR1 F1].
      destruct r as [|c'].
      * intros E; injection E as <- <-. split; [exact HR1|exact (Fr1_trans _ _ _ F0 F1)].
      * intros E. pose proof (paused_Fr1 _ _ F1) as Hp1. rewrite Hp0 in Hp1.
        destruct (IH _ _ _ _ _ HR1 Hp1 E) as [HR2 F2]. split; [exact HR2|].
        exact (Fr1_trans _ _ _ F0 (Fr1_trans _ _ _ F1 F2)).
    + set (st1 := do_set_next (av_set (emit st0 _) (w_idx w) false)).
      assert (HR1 : RInv st1) by (apply RInv_do_set_next, RInv_av_set, RInv_emit_quiet; [reflexivity|exact HR0]).
      assert (F1 : Fr1 st st1).
      { eapply Fr1_trans; [exact F0|]. eapply Fr1_trans; [apply Fr1_emit|].
        eapply Fr1_trans; [apply Fr1_av_set|apply Fr1_do_set_next]. }
      pose proof (paused_Fr1 _ _ F1) as Hp1. rewrite Hp in Hp1.
      destruct (available (av st1)).
      * intros E. destruct (IH _ _ _ _ _ HR1 Hp1 E) as [HR2 F2]. split; [exact HR2|exact (Fr1_trans _ _ _ F1 F2)].
      * intros E. destruct (forced_send_r _ _ _ _ _ _ HR1 Hp1 E) as [HR2 F2]. split; [exact HR2|exact (Fr1_trans _ _ _ F1 F2)].
Qed.

End All.
