//! End-to-end scenarios of the whole public `Server` (thorough tier). Filled in below.
pub fn run(_line: &str) -> String {
    "TODO".into()
}
