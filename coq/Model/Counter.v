(* Model/Counter.v — executable models of
     local-waker/src/lib.rs        (LocalWaker: register / wake / take)
     actix-utils/src/counter.rs    (Counter, CounterInner, CounterGuard)
   and the observable-trace predicates of property C17.
   No proofs here (Proofs/CounterFacts.v).  Self-contained: Coq standard library only.

   Wakers are numbers (identities of counting wakers in the harness); "woke w" is an
   observable event.  `usize` is N (the 2^64 wrap of `count + 1` is out of reach; the
   `num - 1` of `dec` is shown never to be executed at 0, see CounterFacts.no_underflow). *)
From Coq Require Export List NArith Bool Arith.
Export ListNotations.

Definition waker := nat.

(* ------------------------------------------------------------------------------------ *)
(* Handle tables of the script layer: slot i is true while handle number i is alive.     *)
(* (Handles are an artefact of scripts: Rust ownership makes a dropped handle unusable;  *)
(* an op that names a dead handle is not executed and is reported as "invalid".)         *)
(* ------------------------------------------------------------------------------------ *)
Definition alive (l : list bool) (i : nat) : bool := nth i l false.

Fixpoint kill (i : nat) (l : list bool) : list bool :=
  match l, i with
  | [], _ => []
  | _ :: t, O => false :: t
  | b :: t, S j => b :: kill j t
  end.

Fixpoint live (l : list bool) : nat :=
  match l with
  | [] => O
  | b :: t => ((if b then 1 else 0) + live t)%nat
  end.

Fixpoint mem_waker (w : waker) (l : list waker) : bool :=
  match l with
  | [] => false
  | x :: t => Nat.eqb x w || mem_waker w t
  end.

Fixpoint wakers_eqb (a b : list waker) : bool :=
  match a, b with
  | [], [] => true
  | x :: a', y :: b' => Nat.eqb x y && wakers_eqb a' b'
  | _, _ => false
  end.

(* ------------------------------------------------------------------------------------ *)
(* local_waker::LocalWaker  — a Cell<Option<Waker>>                                      *)
(* ------------------------------------------------------------------------------------ *)
Definition local_waker := option waker.

Definition lw_new : local_waker := None.

(* register: `let last = self.waker.replace(Some(waker.clone())); last.is_some()` *)
Definition lw_register (l : local_waker) (w : waker) : local_waker * bool :=
  (Some w, match l with Some _ => true | None => false end).

(* take: `self.waker.take()` *)
Definition lw_take (l : local_waker) : local_waker * option waker := (None, l).

(* wake: `if let Some(waker) = self.take() { waker.wake() }` ; second component = wakers woken *)
Definition lw_wake (l : local_waker) : local_waker * list waker :=
  match lw_take l with
  | (l', Some w) => (l', [w])
  | (l', None) => (l', [])
  end.

Inductive lw_op := Register (w : waker) | Wake | Take.
Inductive lw_obs :=
| ORegister (was : bool)            (* return value of register *)
| OWake (woken : list waker)        (* wakers whose wake() ran during the call *)
| OTake (t : option waker).         (* identity of the waker returned by take *)

Definition lw_step (l : local_waker) (o : lw_op) : local_waker * lw_obs :=
  match o with
  | Register w => let '(l', was) := lw_register l w in (l', ORegister was)
  | Wake => let '(l', ws) := lw_wake l in (l', OWake ws)
  | Take => let '(l', t) := lw_take l in (l', OTake t)
  end.

Fixpoint lw_run_from (l : local_waker) (s : list lw_op) : list lw_obs :=
  match s with
  | [] => []
  | o :: s' => let '(l', ob) := lw_step l o in ob :: lw_run_from l' s'
  end.

Definition lw_run (s : list lw_op) : list lw_obs := lw_run_from lw_new s.

(* ------------------------------------------------------------------------------------ *)
(* actix_utils::counter  — CounterInner { count, capacity, task }                        *)
(* ------------------------------------------------------------------------------------ *)
Record counter := mkCounter { count : N; capacity : N; task : local_waker }.

(* Counter::new *)
Definition counter_new (cap : N) : counter := mkCounter 0 cap lw_new.

(* CounterInner::inc  (Counter::get -> CounterGuard::new) *)
Definition counter_inc (c : counter) : counter :=
  mkCounter (count c + 1) (capacity c) (task c).

(* CounterInner::dec  (Drop for CounterGuard):
     let num = count.get(); count.set(num - 1); if num == capacity { task.wake() } *)
Definition counter_dec (c : counter) : counter * list waker :=
  let num := count c in
  if (num =? capacity c)%N
  then let '(t, ws) := lw_wake (task c) in (mkCounter (num - 1) (capacity c) t, ws)
  else (mkCounter (num - 1) (capacity c) (task c), []).

(* CounterInner::available:
     if count.get() < capacity { true } else { task.register(cx.waker()); false } *)
Definition counter_available (c : counter) (w : waker) : counter * bool :=
  if (count c <? capacity c)%N then (c, true)
  else (mkCounter (count c) (capacity c) (fst (lw_register (task c) w)), false).

(* Counter::total *)
Definition counter_total (c : counter) : N := count c.

(* ---- scripts over one counter: guards are handles, `Clone` clones the Counter (Rc) ---- *)
Inductive ctr_op := Acquire | DropGuard (g : nat) | Available (w : waker) | Clone | DropClone.   (* DropClone: drop one of the cloned Counter handles (never the last one) *)
Inductive ctr_ret := CUnit | CInvalid | CAvail (b : bool).
(* per op: return value, wakers woken during the op, total() read right after the op *)
Record ctr_obs := CObs { c_ret : ctr_ret; c_wakes : list waker; c_total : N }.

Record ctr_state := mkCtr { inner : counter; guards : list bool; clones : nat }.

Definition ctr_init (cap : N) : ctr_state := mkCtr (counter_new cap) [] 1.

Definition ctr_valid (gs : list bool) (o : ctr_op) : bool :=
  match o with DropGuard g => alive gs g | _ => true end.

Definition ctr_step (st : ctr_state) (o : ctr_op) : ctr_state * ctr_obs :=
  match o with
  | Acquire =>
      let c := counter_inc (inner st) in
      (mkCtr c (guards st ++ [true]) (clones st), CObs CUnit [] (counter_total c))
  | DropGuard g =>
      if alive (guards st) g then
        let '(c, ws) := counter_dec (inner st) in
        (mkCtr c (kill g (guards st)) (clones st), CObs CUnit ws (counter_total c))
      else (st, CObs CInvalid [] (counter_total (inner st)))
  | Available w =>
      let '(c, b) := counter_available (inner st) w in
      (mkCtr c (guards st) (clones st), CObs (CAvail b) [] (counter_total c))
  | Clone =>
      (mkCtr (inner st) (guards st) (S (clones st)), CObs CUnit [] (counter_total (inner st)))
  | DropClone =>
      (* a Counter handle is an Rc: dropping one touches neither the count nor the parked waker *)
      (mkCtr (inner st) (guards st) (Nat.pred (clones st)), CObs CUnit [] (counter_total (inner st)))
  end.

Fixpoint ctr_run_from (st : ctr_state) (s : list ctr_op) : list ctr_obs :=
  match s with
  | [] => []
  | o :: s' => let '(st', ob) := ctr_step st o in ob :: ctr_run_from st' s'
  end.

Definition ctr_run (cap : N) (s : list ctr_op) : list ctr_obs := ctr_run_from (ctr_init cap) s.

(* ==================================================================================== *)
(* Property C17 as predicates over (script, observed trace).  They look only at the      *)
(* script, the capacity and the observations; they are run as monitors on the traces of  *)
(* the real code and proved to hold on every model run.                                  *)
(* ==================================================================================== *)

Definition guards_after (gs : list bool) (o : ctr_op) : list bool :=
  match o with Acquire => gs ++ [true] | DropGuard g => kill g gs | _ => gs end.

(* Generic checker: tracks the guard table from the script alone; an op on a dead guard
   must be reported invalid and is otherwise ignored; a valid op is judged by [f], which
   sees the guard table BEFORE the op. *)
Fixpoint ctr_check {A : Type} (f : list bool -> A -> ctr_op -> ctr_obs -> option A)
         (gs : list bool) (a : A) (s : list ctr_op) (tr : list ctr_obs) : bool :=
  match s, tr with
  | [], [] => true
  | o :: s', ob :: tr' =>
      if ctr_valid gs o then
        match f gs a o ob with
        | Some a' => ctr_check f (guards_after gs o) a' s' tr'
        | None => false
        end
      else match c_ret ob with CInvalid => ctr_check f gs a s' tr' | _ => false end
  | _, _ => false
  end.

(* C17 (a): `available` answers (live guards < capacity); `total` = live guards after
   every op; return values have the right shape. *)
Definition avail_f (cap : N) (gs : list bool) (_ : unit) (o : ctr_op) (ob : ctr_obs) : option unit :=
  let ret_ok :=
    match o, c_ret ob with
    | Available _, CAvail b => Bool.eqb b (N.of_nat (live gs) <? cap)%N
    | Available _, _ => false
    | _, CUnit => true
    | _, _ => false
    end in
  if ret_ok && (c_total ob =? N.of_nat (live (guards_after gs o)))%N then Some tt else None.

Definition available_ok (cap : N) (s : list ctr_op) (tr : list ctr_obs) : bool :=
  ctr_check (avail_f cap) [] tt s tr.

(* C17 (b): the wake obligation.  State = the task most recently answered 'unavailable'
   that has not been woken since.  A guard drop that takes the number of live guards from
   `capacity` to `capacity - 1` must wake it.  (Any wake of that task discharges it.) *)
Definition discharge (waiting : option waker) (ws : list waker) : option waker :=
  match waiting with
  | Some w => if mem_waker w ws then None else Some w
  | None => None
  end.

Definition cwake_f (cap : N) (gs : list bool) (waiting : option waker) (o : ctr_op) (ob : ctr_obs)
  : option (option waker) :=
  match o with
  | DropGuard _ =>
      if (N.of_nat (live gs) =? cap)%N then
        match waiting with
        | Some w => if mem_waker w (c_wakes ob) then Some None else None
        | None => Some None
        end
      else Some (discharge waiting (c_wakes ob))
  | Available w =>
      match c_ret ob with
      | CAvail false => Some (Some w)
      | _ => Some (discharge waiting (c_wakes ob))
      end
  | _ => Some (discharge waiting (c_wakes ob))
  end.

Definition cwake_ok (cap : N) (s : list ctr_op) (tr : list ctr_obs) : bool :=
  ctr_check (cwake_f cap) [] None s tr.

(* C17 (c): no other wake.  State = the waker handed over by the most recent `available`
   call that answered false and not woken since.  An op wakes nothing, unless it is a guard
   drop at exactly `capacity` live guards, which wakes exactly that waker, once. *)
Definition cwake_only_f (cap : N) (gs : list bool) (reg : option waker) (o : ctr_op) (ob : ctr_obs)
  : option (option waker) :=
  match o with
  | DropGuard _ =>
      if (N.of_nat (live gs) =? cap)%N then
        if wakers_eqb (c_wakes ob) (match reg with Some w => [w] | None => [] end)
        then Some None else None
      else if wakers_eqb (c_wakes ob) [] then Some reg else None
  | Available w =>
      if wakers_eqb (c_wakes ob) [] then
        match c_ret ob with CAvail false => Some (Some w) | _ => Some reg end
      else None
  | _ => if wakers_eqb (c_wakes ob) [] then Some reg else None
  end.

Definition cwake_only_ok (cap : N) (s : list ctr_op) (tr : list ctr_obs) : bool :=
  ctr_check (cwake_only_f cap) [] None s tr.

Definition C17_counter_ok (cap : N) (s : list ctr_op) (tr : list ctr_obs) : bool :=
  available_ok cap s tr && cwake_ok cap s tr && cwake_only_ok cap s tr.

(* C17 (d): LocalWaker.  State = the most recently registered waker not yet woken/taken.
   `register` reports whether one was registered; `wake` wakes exactly it, once; `take`
   returns it; both leave nothing registered. *)
Definition opt_waker_eqb (a b : option waker) : bool :=
  match a, b with
  | Some x, Some y => Nat.eqb x y
  | None, None => true
  | _, _ => false
  end.

Fixpoint lw_check (reg : option waker) (s : list lw_op) (tr : list lw_obs) : bool :=
  match s, tr with
  | [], [] => true
  | Register w :: s', ORegister was :: tr' =>
      Bool.eqb was (match reg with Some _ => true | None => false end) && lw_check (Some w) s' tr'
  | Wake :: s', OWake ws :: tr' =>
      wakers_eqb ws (match reg with Some w => [w] | None => [] end) && lw_check None s' tr'
  | Take :: s', OTake t :: tr' =>
      opt_waker_eqb t reg && lw_check None s' tr'
  | _, _ => false
  end.

Definition C17_local_waker_ok (s : list lw_op) (tr : list lw_obs) : bool := lw_check None s tr.
