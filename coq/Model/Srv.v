(* Model/Srv.v — executable model of the actix-server accept loop and its environment.
   Code modelled: accept.rs (Accept::{accept, accept_one, send_connection, handle_waker,
   process_timeout, set_timeout, deregister_all, accept_all, set_next, remove_next}),
   availability.rs (through Model/Avail.v, bit exact), waker_queue.rs (FIFO of interests + mio waker
   edge), worker.rs lines 82-153 (Counter / WorkerCounterGuard), socket.rs register/deregister/accept
   (incl. what deregistration does to a Unix listener's path), server.rs WorkerFaulted handling.
   Environment modelled: kernel backlog (FIFO), epoll edge semantics, the worker side of each handle
   pair (queue receiver, guards) as explicit operations, a virtual clock.
   No proofs here. *)
From Coq Require Export List NArith ZArith Bool Arith.
From AN Require Export Model.Avail.
Export ListNotations.
Open Scope nat_scope.

Record conn := { c_id : N; c_tok : nat }.

(* one worker *generation*: the worker-side ends of a handle pair *)
Record worker := {
  w_idx : N;               (* worker index (stable across respawns) *)
  w_open : bool;           (* connection queue receiver still alive *)
  w_queue : list conn;     (* sent by the accept thread, not yet picked up *)
  w_picked : list conn;    (* picked up: a guard is alive for each *)
  w_cnt : Z                (* the shared AtomicUsize (biased by 1) *)
}.

Inductive interest := IAvail (i : N) | IWorker (g : nat) | IPause | IResume | IStop.

Inductive ekind := EWouldBlock | ETransient | EOther.

Record lst := {
  l_uds : bool;
  l_reg : bool;               (* registered with the poll instance *)
  l_edge : bool;              (* a readiness edge is waiting to be reported *)
  l_to : option N;            (* ServerSocketInfo::timeout (deadline, ms) *)
  l_backlog : list N;         (* kernel accept queue: connection ids, oldest first *)
  l_inject : list ekind;      (* injected results of the next accept() calls *)
  l_linked : bool             (* Unix listener: socket path still exists *)
}.

Inductive bad := Panic | Spin.

Inductive event :=
| EvDispatch (c : N) (tok : nat) (g : nat) (idx : N) (n : nat)
    (* connection sent to worker generation g; ghost n = connections that worker had in progress before *)
| EvSkip (g : nat) (n : nat) (pend : bool)
    (* ghost: accept_one passed over worker g (flag clear); n = its connections in progress, pend = a
       WorkerAvailable notice of it is waiting in the waker queue *)
| EvDropNoWorker (c : N)                               (* "no workers": connection dropped *)
| EvFaulted (idx : N)                                  (* ServerCommand::WorkerFaulted(idx) *)
| EvConnFail (c : N) (tok : nat)                       (* client could not connect (path gone) *)
| EvLost (c : N)                                       (* dropped with a dead worker's queue *)
| EvReleased (c : N)                                   (* guard dropped (connection finished/torn down) *)
| EvReady (toks : list nat) (waker : bool)             (* what poll returned in a Turn *)
| EvKilled (g : nat)                                   (* ghost: worker generation g died (Kill) *)
| EvPauseOn                                            (* ghost: a Pause took effect (paused false -> true) *)
| EvPauseOff                                           (* ghost: a Resume took effect (paused true -> false) *)
| EvExit.                                              (* accept loop exits (Stop) *)

Record state := {
  ws : list worker;          (* every worker generation ever created; position = generation id *)
  handles : list nat;        (* Accept::handles, as generation ids *)
  next : nat;
  av : avail;
  paused : bool;
  ptimeout : option N;       (* Accept::timeout, ms *)
  lsts : list lst;           (* position = token *)
  wq : list interest;        (* waker queue *)
  wpend : bool;              (* waker readiness edge *)
  now : N;                   (* virtual clock, ms *)
  stopped : bool;            (* accept loop has exited *)
  err : option bad;
  trace : list event         (* newest first *)
}.

(* ---------- small helpers ---------- *)
Fixpoint replace_nth {A} (n : nat) (x : A) (l : list A) : list A :=
  match l, n with
  | [], _ => []
  | _ :: t, O => x :: t
  | h :: t, S n' => h :: replace_nth n' x t
  end.

(* Vec::swap_remove *)
Definition swap_remove {A} (n : nat) (l : list A) : list A :=
  match rev l with
  | [] => []
  | lastx :: _ =>
      let l' := removelast l in
      if Nat.eqb n (length l') then l' else replace_nth n lastx l'
  end.

Definition set_ws st v := {| ws := v; handles := handles st; next := next st; av := av st; paused := paused st;
  ptimeout := ptimeout st; lsts := lsts st; wq := wq st; wpend := wpend st; now := now st; stopped := stopped st;
  err := err st; trace := trace st |}.
Definition set_handles st v := {| ws := ws st; handles := v; next := next st; av := av st; paused := paused st;
  ptimeout := ptimeout st; lsts := lsts st; wq := wq st; wpend := wpend st; now := now st; stopped := stopped st;
  err := err st; trace := trace st |}.
Definition set_next_ st v := {| ws := ws st; handles := handles st; next := v; av := av st; paused := paused st;
  ptimeout := ptimeout st; lsts := lsts st; wq := wq st; wpend := wpend st; now := now st; stopped := stopped st;
  err := err st; trace := trace st |}.
Definition set_av st v := {| ws := ws st; handles := handles st; next := next st; av := v; paused := paused st;
  ptimeout := ptimeout st; lsts := lsts st; wq := wq st; wpend := wpend st; now := now st; stopped := stopped st;
  err := err st; trace := trace st |}.
Definition set_paused st v := {| ws := ws st; handles := handles st; next := next st; av := av st; paused := v;
  ptimeout := ptimeout st; lsts := lsts st; wq := wq st; wpend := wpend st; now := now st; stopped := stopped st;
  err := err st; trace := trace st |}.
Definition set_ptimeout st v := {| ws := ws st; handles := handles st; next := next st; av := av st; paused := paused st;
  ptimeout := v; lsts := lsts st; wq := wq st; wpend := wpend st; now := now st; stopped := stopped st;
  err := err st; trace := trace st |}.
Definition set_lsts st v := {| ws := ws st; handles := handles st; next := next st; av := av st; paused := paused st;
  ptimeout := ptimeout st; lsts := v; wq := wq st; wpend := wpend st; now := now st; stopped := stopped st;
  err := err st; trace := trace st |}.
Definition set_wq st v p := {| ws := ws st; handles := handles st; next := next st; av := av st; paused := paused st;
  ptimeout := ptimeout st; lsts := lsts st; wq := v; wpend := p; now := now st; stopped := stopped st;
  err := err st; trace := trace st |}.
Definition set_now st v := {| ws := ws st; handles := handles st; next := next st; av := av st; paused := paused st;
  ptimeout := ptimeout st; lsts := lsts st; wq := wq st; wpend := wpend st; now := v; stopped := stopped st;
  err := err st; trace := trace st |}.
Definition set_stopped st v := {| ws := ws st; handles := handles st; next := next st; av := av st; paused := paused st;
  ptimeout := ptimeout st; lsts := lsts st; wq := wq st; wpend := wpend st; now := now st; stopped := v;
  err := err st; trace := trace st |}.
Definition set_err st v := {| ws := ws st; handles := handles st; next := next st; av := av st; paused := paused st;
  ptimeout := ptimeout st; lsts := lsts st; wq := wq st; wpend := wpend st; now := now st; stopped := stopped st;
  err := match err st with Some e => Some e | None => Some v end; trace := trace st |}.
Definition emit st e := {| ws := ws st; handles := handles st; next := next st; av := av st; paused := paused st;
  ptimeout := ptimeout st; lsts := lsts st; wq := wq st; wpend := wpend st; now := now st; stopped := stopped st;
  err := err st; trace := e :: trace st |}.

Definition upd_worker st g w := set_ws st (replace_nth g w (ws st)).
Definition upd_lst st tok l := set_lsts st (replace_nth tok l (lsts st)).

(* WakerQueue::wake: push + mio waker *)
Definition wake st i := set_wq st (wq st ++ [i]) true.

(* Availability accessors; an index >= 512 is the panic of Availability::offset *)
Definition av_get st (i : N) : state * bool :=
  match get (av st) i with Some b => (st, b) | None => (set_err st Panic, false) end.
Definition av_set st (i : N) (v : bool) : state :=
  match set (av st) i v with Some a => set_av st a | None => set_err st Panic end.

Definition set_w_queue w q := {| w_idx := w_idx w; w_open := w_open w; w_queue := q; w_picked := w_picked w; w_cnt := w_cnt w |}.
Definition set_w_picked w p := {| w_idx := w_idx w; w_open := w_open w; w_queue := w_queue w; w_picked := p; w_cnt := w_cnt w |}.
Definition set_w_cnt w c := {| w_idx := w_idx w; w_open := w_open w; w_queue := w_queue w; w_picked := w_picked w; w_cnt := c |}.
Definition set_w_open w o := {| w_idx := w_idx w; w_open := o; w_queue := w_queue w; w_picked := w_picked w; w_cnt := w_cnt w |}.

Fixpoint remove_conn (c : N) (l : list conn) : option (conn * list conn) :=
  match l with
  | [] => None
  | x :: t => if N.eqb (c_id x) c then Some (x, t)
              else match remove_conn c t with Some (y, t') => Some (y, x :: t') | None => None end
  end.

Definition pending_notice (i : N) (q : list interest) : bool :=
  existsb (fun x => match x with IAvail j => N.eqb i j | _ => false end) q.

(* ---------- the environment: everything that is not the accept thread ---------- *)
Inductive cmd := CPause | CResume | CStop.

Inductive eop :=
| Connect (tok : nat) (c : N)      (* a client connects to listener tok *)
| Pick (g : nat)                   (* worker g receives the head of its queue and mints a guard *)
| Finish (g : nat) (c : N)         (* a picked connection ends: guard dropped *)
| DrainDrop (g : nat)              (* shutdown drain: receive + guard + drop at once *)
| Kill (g : nat)                   (* worker dies: queue receiver closes, queued connections are lost *)
| Command (c : cmd)                (* ServerInner::handle_cmd pushes Pause/Resume/Stop *)
| Respawn (idx : N)                (* ServerInner handles WorkerFaulted(idx): new generation + Worker interest *)
| Inject (tok : nat) (k : ekind).  (* the next accept() on listener tok fails with k *)

Section WithLimit.
Variable L : Z.   (* max_concurrent_connections *)

(* WorkerCounterGuard::drop: `if counter.dec() { wake(WorkerAvailable(idx)) }`,
   Counter::dec = `fetch_sub(1) == limit + 1`  (after the fix of D1; the pinned tree compared with `limit`) *)
Definition guard_drop st (g : nat) (w : worker) : state :=
  let prev := w_cnt w in
  let st1 := upd_worker st g (set_w_cnt w (prev - 1)%Z) in
  if (prev =? L + 1)%Z then wake st1 (IAvail (w_idx w)) else st1.

Definition env_step (st : state) (o : eop) : state :=
  match o with
  | Connect tok c =>
      match nth_error (lsts st) tok with
      | None => st
      | Some l =>
          if l_uds l && negb (l_linked l) then emit st (EvConnFail c tok)
          else upd_lst st tok {| l_uds := l_uds l; l_reg := l_reg l; l_edge := l_edge l || l_reg l; l_to := l_to l;
                                 l_backlog := l_backlog l ++ [c]; l_inject := l_inject l; l_linked := l_linked l |}
      end
  | Pick g =>
      match nth_error (ws st) g with
      | Some w => if w_open w then
                    match w_queue w with
                    | c :: q => upd_worker st g (set_w_picked (set_w_queue w q) (w_picked w ++ [c]))
                    | [] => st
                    end
                  else st
      | None => st
      end
  | Finish g c =>
      match nth_error (ws st) g with
      | Some w => match remove_conn c (w_picked w) with
                  | Some (x, p) => emit (guard_drop st g (set_w_picked w p)) (EvReleased c)
                  | None => st
                  end
      | None => st
      end
  | DrainDrop g =>
      match nth_error (ws st) g with
      | Some w => if w_open w then
                    match w_queue w with
                    | c :: q => emit (guard_drop st g (set_w_queue w q)) (EvReleased (c_id c))
                    | [] => st
                    end
                  else st
      | None => st
      end
  | Kill g =>
      match nth_error (ws st) g with
      | Some w => if w_open w then
                    let st1 := emit (upd_worker st g (set_w_open (set_w_queue w []) false)) (EvKilled g) in
                    fold_left (fun s c => emit s (EvLost (c_id c))) (w_queue w) st1
                  else st
      | None => st
      end
  | Command c =>
      wake st (match c with CPause => IPause | CResume => IResume | CStop => IStop end)
  | Respawn idx =>
      let g := length (ws st) in
      let st1 := set_ws st (ws st ++ [{| w_idx := idx; w_open := true; w_queue := []; w_picked := []; w_cnt := 1 |}]) in
      wake st1 (IWorker g)
  | Inject tok k =>
      match nth_error (lsts st) tok with
      | None => st
      | Some l => upd_lst st tok {| l_uds := l_uds l; l_reg := l_reg l; l_edge := l_edge l; l_to := l_to l;
                                    l_backlog := l_backlog l; l_inject := l_inject l ++ [k]; l_linked := l_linked l |}
      end
  end.

Definition env_steps (st : state) (os : list eop) : state := fold_left env_step os st.

(* The schedule of what the other threads do at each yield point (between `send(conn)` and
   `inc_counter()`): one list of environment ops per successful send, consumed in order. *)
Definition ysched := list (list eop).

(* ---------- registration (socket.rs + the epoll environment) ---------- *)
(* Accept::register_logged: AlreadyExists is logged and ignored; success reports readiness if the
   backlog is non-empty *)
Definition register (l : lst) : lst :=
  if l_reg l then l
  else {| l_uds := l_uds l; l_reg := true; l_edge := match l_backlog l with [] => false | _ => true end;
          l_to := l_to l; l_backlog := l_backlog l; l_inject := l_inject l; l_linked := l_linked l |}.

(* Accept::deregister_logged -> MioListener::deregister (Unix listeners keep their socket path:
   after the fix of D3; the pinned tree unlinked it here) *)
Definition deregister (l : lst) : lst :=
  {| l_uds := l_uds l; l_reg := false; l_edge := false; l_to := l_to l; l_backlog := l_backlog l;
     l_inject := l_inject l; l_linked := l_linked l |}.

Definition set_l_to (l : lst) (t : option N) : lst :=
  {| l_uds := l_uds l; l_reg := l_reg l; l_edge := l_edge l; l_to := t; l_backlog := l_backlog l;
     l_inject := l_inject l; l_linked := l_linked l |}.

(* Accept::set_timeout *)
Definition set_timeout st (d : N) : state :=
  match ptimeout st with
  | Some t => if (d <? t)%N then set_ptimeout st (Some d) else st
  | None => set_ptimeout st (Some d)
  end.

(* Accept::deregister_all *)
Definition deregister_all st : state :=
  set_lsts st (map (fun l => match l_to l with
                             | Some _ => set_l_to l None
                             | None => deregister l
                             end) (lsts st)).

(* ---------- dispatch ---------- *)
Inductive sres := SOk | SRetry (c : conn).

(* Accept::set_next *)
Definition do_set_next st : state :=
  match length (handles st) with
  | O => set_err st Panic                      (* `% 0` *)
  | n => set_next_ st ((next st + 1) mod n)
  end.

(* Accept::send_connection *)
Definition send_connection st (c : conn) (ys : ysched) : state * ysched * sres :=
  match nth_error (handles st) (next st) with
  | None => (set_err st Panic, ys, SOk)        (* self.handles[self.next] out of bounds *)
  | Some g =>
      match nth_error (ws st) g with
      | None => (set_err st Panic, ys, SOk)
      | Some w =>
          if w_open w then
            (* next.send(conn) succeeded *)
            let st1 := emit (upd_worker st g (set_w_queue w (w_queue w ++ [c]))) (EvDispatch (c_id c) (c_tok c) g (w_idx w) (length (w_queue w) + length (w_picked w))) in
            (* yield point: other threads run *)
            let st2 := env_steps st1 (hd [] ys) in
            let ys' := tl ys in
            (* next.inc_counter(): fetch_add(1) != limit *)
            match nth_error (ws st2) g with
            | None => (set_err st2 Panic, ys', SOk)
            | Some w2 =>
                let prev := w_cnt w2 in
                let st3 := upd_worker st2 g (set_w_cnt w2 (prev + 1)%Z) in
                let st4 := if (prev =? L)%Z then av_set st3 (w_idx w) false else st3 in
                (do_set_next st4, ys', SOk)
            end
          else
            (* worker is gone: remove_next *)
            let st1 := set_handles st (swap_remove (next st) (handles st)) in
            let st2 := emit st1 (EvFaulted (w_idx w)) in
            let st3 := av_set st2 (w_idx w) false in
            match handles st3 with
            | [] => (emit st3 (EvDropNoWorker (c_id c)), ys, SOk)
            | _ => ((if Nat.leb (length (handles st3)) (next st3) then set_next_ st3 0 else st3), ys, SRetry c)
            end
      end
  end.

(* the inner `while let Err(c) = self.send_connection(conn)` of accept_one *)
Fixpoint forced_send (fuel : nat) st (c : conn) (ys : ysched) : state * ysched :=
  match fuel with
  | O => (set_err st Spin, ys)
  | S f =>
      match err st with
      | Some _ => (st, ys)
      | None =>
          match send_connection st c ys with
          | (st', ys', SOk) => (st', ys')
          | (st', ys', SRetry c') => forced_send f st' c' ys'
          end
      end
  end.

(* Accept::accept_one; fuel bounds the `loop` *)
Fixpoint accept_one (fuel : nat) st (c : conn) (ys : ysched) : state * ysched :=
  match fuel with
  | O => (set_err st Spin, ys)
  | S f =>
      match err st with
      | Some _ => (st, ys)
      | None =>
          match nth_error (handles st) (next st) with
          | None => (set_err st Panic, ys)
          | Some g =>
              match nth_error (ws st) g with
              | None => (set_err st Panic, ys)
              | Some w =>
                  let '(st0, b) := av_get st (w_idx w) in
                  if b then
                    match send_connection st0 c ys with
                    | (st', ys', SOk) => (st', ys')
                    | (st', ys', SRetry c') => accept_one f st' c' ys'
                    end
                  else
                    let st1 := do_set_next (av_set (emit st0 (EvSkip g (length (w_queue w) + length (w_picked w))
                                                                      (pending_notice (w_idx w) (wq st0)))) (w_idx w) false) in
                    if available (av st1) then accept_one f st1 c ys
                    else forced_send (S (length (handles st1))) st1 c ys
              end
          end
      end
  end.

(* enough for every case: between two send attempts at most |handles| - 1 workers are passed over, and every
   failed attempt removes a handle *)
Definition accept_one_fuel st := S (S (length (handles st)) * S (length (handles st))).

(* Accept::accept(sockets, token); fuel bounds the `while` (each iteration consumes a backlog entry
   or an injected error) *)
Fixpoint accept_loop (fuel : nat) st (tok : nat) (ys : ysched) : state * ysched :=
  match fuel with
  | O => (set_err st Spin, ys)
  | S f =>
      match err st with
      | Some _ => (st, ys)
      | None =>
          if available (av st) then
            match nth_error (lsts st) tok with
            | None => (set_err st Panic, ys)            (* sockets[token] out of bounds *)
            | Some l =>
                match l_inject l with
                | k :: rest =>
                    let l1 := {| l_uds := l_uds l; l_reg := l_reg l; l_edge := l_edge l; l_to := l_to l;
                                 l_backlog := l_backlog l; l_inject := rest; l_linked := l_linked l |} in
                    match k with
                    | EWouldBlock => (upd_lst st tok l1, ys)
                    | ETransient => accept_loop f (upd_lst st tok l1) tok ys
                    | EOther =>
                        let l2 := set_l_to (deregister l1) (Some (now st + 500)%N) in
                        (set_timeout (upd_lst st tok l2) 510%N, ys)
                    end
                | [] =>
                    match l_backlog l with
                    | [] => (st, ys)                     (* WouldBlock *)
                    | c :: rest =>
                        let l1 := {| l_uds := l_uds l; l_reg := l_reg l; l_edge := l_edge l; l_to := l_to l;
                                     l_backlog := rest; l_inject := []; l_linked := l_linked l |} in
                        let st1 := upd_lst st tok l1 in
                        let '(st2, ys2) := accept_one (accept_one_fuel st1) st1 {| c_id := c; c_tok := tok |} ys in
                        accept_loop f st2 tok ys2
                    end
                end
            end
          else (st, ys)
      end
  end.

Definition ysize (ys : ysched) : nat := length (concat ys).

(* each yielded operation can add at most one backlog entry or one injected error *)
Definition accept_fuel st tok (ys : ysched) : nat :=
  match nth_error (lsts st) tok with
  | Some l => S (length (l_backlog l) + length (l_inject l) + ysize ys)
  | None => 1
  end.

(* `if self.paused { return; }` (after the fix of D6: a stale listener event behind a processed Pause) *)
Definition accept st tok ys := if paused st then (st, ys) else accept_loop (accept_fuel st tok ys) st tok ys.

(* Accept::accept_all *)
Fixpoint accept_toks st (toks : list nat) ys : state * ysched :=
  match toks with
  | [] => (st, ys)
  | t :: r => let '(st1, ys1) := accept st t ys in accept_toks st1 r ys1
  end.
Definition accept_all st ys := accept_toks st (seq 0 (length (lsts st))) ys.

(* Accept::handle_waker; fuel bounds the drain loop *)
Fixpoint handle_waker (fuel : nat) st (ys : ysched) : state * ysched :=
  match fuel with
  | O => (set_err st Spin, ys)
  | S f =>
      match err st with
      | Some _ => (st, ys)
      | None =>
          match wq st with
          | [] => (st, ys)
          | i :: rest =>
              let st0 := set_wq st rest (wpend st) in
              match i with
              | IAvail idx =>
                  (* after the fix of D2: a notification for an index no handle owns is ignored *)
                  let st1 := if existsb (fun g => match nth_error (ws st0) g with
                                                  | Some w => N.eqb (w_idx w) idx | None => false end) (handles st0)
                             then av_set st0 idx true else st0 in
                  let '(st2, ys2) := if paused st1 then (st1, ys) else accept_all st1 ys in
                  handle_waker f st2 ys2
              | IWorker g =>
                  match nth_error (ws st0) g with
                  | None => (set_err st0 Panic, ys)
                  | Some w =>
                      let st1 := set_handles (av_set st0 (w_idx w) true) (handles st0 ++ [g]) in
                      let '(st2, ys2) := if paused st1 then (st1, ys) else accept_all st1 ys in
                      handle_waker f st2 ys2
                  end
              | IPause =>
                  let st1 := if paused st0 then st0 else emit (deregister_all (set_paused st0 true)) EvPauseOn in
                  handle_waker f st1 ys
              | IResume =>
                  if paused st0 then
                    let st1 := emit (set_lsts (set_paused st0 false) (map register (lsts st0))) EvPauseOff in
                    let '(st2, ys2) := accept_all st1 ys in
                    handle_waker f st2 ys2
                  else handle_waker f st0 ys
              | IStop =>
                  let st1 := if paused st0 then st0 else deregister_all st0 in
                  (emit (set_stopped st1 true) EvExit, ys)
              end
          end
      end
  end.

Definition handle_waker_fuel st ys : nat := S (length (wq st) + ysize ys).

(* Accept::process_timeout *)
Definition process_one_timeout (p : bool) (nw : N) (acc : list lst * option N) (l : lst) : list lst * option N :=
  let '(done, pt) := acc in
  match l_to l with
  | None => (done ++ [l], pt)
  | Some inst =>
      if (nw <? inst)%N then
        let d := (inst - nw)%N in
        (done ++ [l], match pt with Some t => if (d <? t)%N then Some d else Some t | None => Some d end)
      else if p then (done ++ [set_l_to l None], pt)
      else (done ++ [register (set_l_to l None)], pt)
  end.

Definition process_timeout st : state :=
  match ptimeout st with
  | None => st
  | Some _ =>
      let '(ls, pt) := fold_left (process_one_timeout (paused st) (now st)) (lsts st) ([], None) in
      set_ptimeout (set_lsts st ls) pt
  end.

(* ---------- the poll call and one turn of poll_with ---------- *)
(* what epoll reports: listeners that are registered, have an unreported edge and a non-empty
   backlog; every edge is consumed by the poll *)
Fixpoint ready_toks (k : nat) (ls : list lst) : list nat :=
  match ls with
  | [] => []
  | l :: t => (if l_reg l && l_edge l && negb (match l_backlog l with [] => true | _ => false end) then [k] else [])
              ++ ready_toks (S k) t
  end.

Definition clear_edges (ls : list lst) : list lst :=
  map (fun l => {| l_uds := l_uds l; l_reg := l_reg l; l_edge := false; l_to := l_to l; l_backlog := l_backlog l;
                   l_inject := l_inject l; l_linked := l_linked l |}) ls.

(* ---------- accept-thread operations ---------- *)
Inductive op :=
| E (o : eop)
| AcceptTok (tok : nat) (ys : ysched)
| HandleWaker (ys : ysched)
| ProcessTimeout
| Turn (ys : ysched)       (* poll (zero timeout), listener events in token order, waker last, process_timeout *)
| Advance (ms : N).

Definition live st : bool := negb (stopped st) && match err st with None => true | Some _ => false end.

Definition step (st : state) (o : op) : state :=
  match o with
  | E e => env_step st e
  | Advance ms => set_now st (now st + ms)%N
  | AcceptTok tok ys => if live st then fst (accept st tok ys) else st
  | HandleWaker ys => if live st then fst (handle_waker (handle_waker_fuel st ys) st ys) else st
  | ProcessTimeout => if live st then process_timeout st else st
  | Turn ys =>
      if live st then
        let toks := ready_toks 0 (lsts st) in
        let wk := wpend st in
        let st0 := emit (set_wq (set_lsts st (clear_edges (lsts st))) (wq st) false) (EvReady toks wk) in
        let '(st1, ys1) := accept_toks st0 toks ys in
        let '(st2, ys2) := if wk then handle_waker (handle_waker_fuel st1 ys1) st1 ys1 else (st1, ys1) in
        if live st2 then process_timeout st2 else st2
      else st
  end.

Definition run (st : state) (os : list op) : state := fold_left step os st.

(* initial state: W workers with indices 0..W-1, listeners of the given kinds, all registered *)
Definition mk_worker (i : nat) : worker :=
  {| w_idx := N.of_nat i; w_open := true; w_queue := []; w_picked := []; w_cnt := 1 |}.
Definition mk_lst (uds : bool) : lst :=
  {| l_uds := uds; l_reg := true; l_edge := false; l_to := None; l_backlog := []; l_inject := []; l_linked := true |}.

Definition init (W : nat) (kinds : list bool) : state :=
  {| ws := map mk_worker (seq 0 W);
     handles := seq 0 W;
     next := 0;
     av := fold_left (fun a i => setb a (N.of_nat i) true) (seq 0 W) empty;
     paused := false; ptimeout := None;
     lsts := map mk_lst kinds;
     wq := []; wpend := false; now := 0%N; stopped := false; err := None; trace := [] |}.

End WithLimit.
