(* Proofs/AvailFacts.v — the 512 availability bits are independent (C04, bit level). *)
From AN Require Import Model.Avail.
From Coq Require Import Lia.

Lemma testbit_mask x b : negb (N.land x (N.shiftl 1 b) =? 0) = N.testbit x b.
Proof.
  rewrite N.shiftl_1_l.
  destruct (N.testbit x b) eqn:E.
  - apply negb_true_iff, N.eqb_neq. intros H.
    assert (T : N.testbit (N.land x (2 ^ b)) b = true).
    { rewrite N.land_spec, E, N.pow2_bits_true. reflexivity. }
    rewrite H in T. rewrite N.bits_0 in T. discriminate.
  - apply negb_false_iff, N.eqb_eq. apply N.bits_inj_0. intros n.
    rewrite N.land_spec, N.pow2_bits_eqb.
    destruct (N.eqb_spec b n) as [->|Hn]; [now rewrite E|apply andb_false_r].
Qed.

Lemma offset_spec i : i < 512 -> offset i = Some (i / 128, i mod 128).
Proof.
  intros Hi. unfold offset.
  destruct (N.ltb_spec i 128).
  { rewrite N.div_small, N.mod_small by lia. reflexivity. }
  destruct (N.ltb_spec i 256).
  { replace i with ((i - 128) + 1 * 128) at 2 3 by lia.
    rewrite N.div_add, N.mod_add by lia. rewrite N.div_small, N.mod_small by lia. reflexivity. }
  destruct (N.ltb_spec i 384).
  { replace i with ((i - 256) + 2 * 128) at 2 3 by lia.
    rewrite N.div_add, N.mod_add by lia. rewrite N.div_small, N.mod_small by lia. reflexivity. }
  destruct (N.ltb_spec i 512); [|lia].
  replace i with ((i - 384) + 3 * 128) at 2 3 by lia.
  rewrite N.div_add, N.mod_add by lia. rewrite N.div_small, N.mod_small by lia. reflexivity.
Qed.

Lemma offset_none i : 512 <= i -> offset i = None.
Proof.
  intros Hi. unfold offset.
  repeat match goal with |- context [N.ltb ?a ?b] => destruct (N.ltb_spec a b); try lia end.
  reflexivity.
Qed.

Lemma offset_some i k b : offset i = Some (k, b) -> i < 512 /\ k < 4 /\ b < 128 /\ i = k * 128 + b.
Proof.
  unfold offset.
  repeat match goal with |- context [N.ltb ?a ?b] => destruct (N.ltb_spec a b) end;
    intros E; inversion E; subst; lia.
Qed.

Lemma get_spec a i k b : offset i = Some (k, b) -> get a i = Some (N.testbit (word a k) b).
Proof. intros H. unfold get. rewrite H, testbit_mask. reflexivity. Qed.

Lemma word_set_word_same a k w : k < 4 -> word (set_word a k w) k = w.
Proof.
  intros Hk. destruct k as [|p]; [reflexivity|].
  destruct p as [[|p|]|[|p|]|]; try reflexivity; lia.
Qed.

Lemma word_set_word_other a k k' w : k < 4 -> k' < 4 -> k <> k' -> word (set_word a k w) k' = word a k'.
Proof.
  intros Hk Hk' Hne.
  destruct k as [|[[|p|]|[|p|]|]], k' as [|[[|q|]|[|q|]|]]; try reflexivity; try lia; congruence.
Qed.

(* setting bit i leaves every other bit alone and makes bit i equal to v *)
Theorem get_set a i j v a' :
  i < 512 -> j < 512 -> set a i v = Some a' ->
  get a' j = if i =? j then Some v else get a j.
Proof.
  intros Hi Hj Hs. unfold set in Hs.
  destruct (offset i) as [[k b]|] eqn:Oi; [|discriminate]. cbv zeta in Hs.
  assert (Ha' : a' = set_word a k (if v then N.lor (word a k) (N.shiftl 1 b) else N.ldiff (word a k) (N.shiftl 1 b)))
    by congruence.
  subst a'. clear Hs.
  destruct (offset j) as [[k' b']|] eqn:Oj; [|rewrite offset_spec in Oj by lia; discriminate].
  pose proof (offset_some _ _ _ Oi) as (_ & Hk & Hb & Ei).
  pose proof (offset_some _ _ _ Oj) as (_ & Hk' & Hb' & Ej).
  rewrite (get_spec _ _ _ _ Oj), (get_spec a _ _ _ Oj).
  destruct (N.eqb_spec k k') as [<-|Hne].
  - rewrite word_set_word_same by lia. rewrite N.shiftl_1_l.
    destruct (N.eqb_spec i j) as [Heq|Hij].
    + assert (b = b') by lia. subst b'. destruct v.
      * now rewrite N.lor_spec, N.pow2_bits_true, orb_true_r.
      * now rewrite N.ldiff_spec, N.pow2_bits_true, andb_false_r.
    + assert (b <> b') by lia. destruct v.
      * rewrite N.lor_spec, N.pow2_bits_false by assumption. now rewrite orb_false_r.
      * rewrite N.ldiff_spec, N.pow2_bits_false by assumption. now rewrite andb_true_r.
  - rewrite word_set_word_other by assumption.
    destruct (N.eqb_spec i j) as [Heq|Hij]; [|reflexivity].
    exfalso. congruence.
Qed.

Theorem set_total a i v : i < 512 -> exists a', set a i v = Some a'.
Proof. intros Hi. unfold set. rewrite offset_spec by assumption. eauto. Qed.

Theorem set_panics a i v : 512 <= i -> set a i v = None.
Proof. intros Hi. unfold set. now rewrite offset_none. Qed.

Theorem get_panics a i : 512 <= i -> get a i = None.
Proof. intros Hi. unfold get. now rewrite offset_none. Qed.

Lemma lor_bound w b : w < 2 ^ 128 -> b < 128 -> N.lor w (N.shiftl 1 b) < 2 ^ 128.
Proof.
  intros Hw Hb. rewrite N.shiftl_1_l.
  destruct (N.eq_dec (N.lor w (2 ^ b)) 0) as [->|Hnz]; [reflexivity|].
  apply N.log2_lt_pow2; [lia|]. rewrite N.log2_lor.
  apply N.max_lub_lt.
  - destruct (N.eq_dec w 0) as [->|Hw0]; [cbn; lia|]. apply N.log2_lt_pow2; lia.
  - rewrite N.log2_pow2 by lia. exact Hb.
Qed.

Lemma ldiff_bound w m : w < 2 ^ 128 -> N.ldiff w m < 2 ^ 128.
Proof.
  intros Hw.
  destruct (N.eq_dec (N.ldiff w m) 0) as [->|Hnz]; [reflexivity|].
  apply N.log2_lt_pow2; [lia|].
  pose proof (N.bit_log2 _ Hnz) as Hb. rewrite N.ldiff_spec in Hb.
  apply andb_true_iff in Hb as [Hb _].
  destruct (N.lt_ge_cases (N.log2 (N.ldiff w m)) 128) as [Hlt|Hge]; [exact Hlt|].
  exfalso. rewrite N.bits_above_log2 in Hb; [discriminate|].
  destruct (N.eq_dec w 0) as [->|Hw0]; [rewrite N.ldiff_0_l in Hnz; congruence|].
  assert (N.log2 w < 128) by (apply N.log2_lt_pow2; lia). lia.
Qed.

Theorem wf_set a i v a' : wf a -> set a i v = Some a' -> wf a'.
Proof.
  intros (H0 & H1 & H2 & H3) Hs. unfold set in Hs.
  destruct (offset i) as [[k b]|] eqn:Oi; [|discriminate]. cbv zeta in Hs.
  assert (Ha' : a' = set_word a k (if v then N.lor (word a k) (N.shiftl 1 b) else N.ldiff (word a k) (N.shiftl 1 b)))
    by congruence.
  subst a'. clear Hs.
  pose proof (offset_some _ _ _ Oi) as (_ & Hk & Hb & _).
  assert (Hw : word a k < 2 ^ 128).
  { destruct k as [|[[|p|]|[|p|]|]]; cbn [word]; try assumption; lia. }
  assert (Hn : (if v then N.lor (word a k) (N.shiftl 1 b) else N.ldiff (word a k) (N.shiftl 1 b)) < 2 ^ 128).
  { destruct v; [apply lor_bound; assumption|apply ldiff_bound; assumption]. }
  destruct k as [|[[|p|]|[|p|]|]]; cbn [set_word]; unfold wf; cbn [w0 w1 w2 w3]; repeat split; try assumption; lia.
Qed.

Lemma wf_empty : wf empty.
Proof. unfold wf, empty; cbn; repeat split; reflexivity. Qed.

Lemma nonzero_bit w : w < 2 ^ 128 -> w <> 0 -> exists b, b < 128 /\ N.testbit w b = true.
Proof.
  intros Hw Hnz. exists (N.log2 w). split.
  - apply N.log2_lt_pow2; lia.
  - apply N.bit_log2. exact Hnz.
Qed.

(* `available` is true exactly when some bit among the 512 is set *)
Theorem available_iff a : wf a ->
  (available a = true <-> exists i, i < 512 /\ get a i = Some true).
Proof.
  intros (H0 & H1 & H2 & H3). split.
  - unfold available. intros H.
    assert (exists k, k < 4 /\ word a k <> 0) as (k & Hk & Hnz).
    { apply orb_true_iff in H as [H|H]; [apply orb_true_iff in H as [H|H]; [apply orb_true_iff in H as [H|H]|]|];
        apply negb_true_iff, N.eqb_neq in H;
        [exists 0|exists 1|exists 2|exists 3]; (split; [lia|exact H]). }
    assert (Hw : word a k < 2 ^ 128).
    { destruct k as [|[[|p|]|[|p|]|]]; cbn [word]; try assumption; lia. }
    destruct (nonzero_bit _ Hw Hnz) as (b & Hb & Hbit).
    exists (k * 128 + b). split; [lia|].
    assert (O : offset (k * 128 + b) = Some (k, b)).
    { rewrite offset_spec by lia. f_equal. f_equal.
      - rewrite N.add_comm, N.div_add by lia. rewrite N.div_small by lia. reflexivity.
      - rewrite N.add_comm, N.mod_add by lia. apply N.mod_small. lia. }
    rewrite (get_spec _ _ _ _ O). now rewrite Hbit.
  - intros (i & Hi & Hg0).
    destruct (offset i) as [[k b]|] eqn:O; [|unfold get in Hg0; rewrite O in Hg0; discriminate].
    pose proof (offset_some _ _ _ O) as (_ & Hk & _).
    rewrite (get_spec _ _ _ _ O) in Hg0.
    assert (Hg : N.testbit (word a k) b = true) by congruence.
    assert (Hnz : word a k <> 0) by (intros E; rewrite E, N.bits_0 in Hg; discriminate).
    unfold available.
    destruct k as [|[[|p|]|[|p|]|]]; cbn [word] in Hnz; try lia;
      apply N.eqb_neq in Hnz; rewrite Hnz; cbn; rewrite ?orb_true_r; reflexivity.
Qed.

(* the total wrappers used by the server model *)
Lemma getb_setb a i j v : i < 512 -> j < 512 -> getb (setb a i v) j = if i =? j then v else getb a j.
Proof.
  intros Hi Hj. unfold getb, setb.
  destruct (set_total a i v Hi) as [a' Ha]. rewrite Ha.
  rewrite (get_set _ _ _ _ _ Hi Hj Ha). destruct (i =? j); reflexivity.
Qed.

Lemma wf_setb a i v : wf a -> wf (setb a i v).
Proof.
  intros H. unfold setb. destruct (set a i v) eqn:E; [eapply wf_set; eassumption|exact H].
Qed.

Lemma available_getb a : wf a -> (available a = true <-> exists i, i < 512 /\ getb a i = true).
Proof.
  intros H. rewrite (available_iff a H). split; intros (i & Hi & Hg); exists i; (split; [exact Hi|]).
  - unfold getb. now rewrite Hg.
  - unfold getb in Hg. destruct (get a i) as [[|]|] eqn:E; try discriminate. reflexivity.
Qed.
