(* Props/C07.v — workers call services only when ready; a failed readiness check rebuilds it.
   ONLY statements, each closed by `exact <lemma>`, non-vacuity Examples, Print Assumptions.

   Model: Model/Wrk.v (ServerWorker::poll and friends, faithful to worker.rs).  A configuration
   `c` carries, for every service slot, an arbitrary readiness script (Pending / Ready(Ok) /
   Ready(Err) answers, one per poll_ready) and the create script of its factory; `ops` is an
   arbitrary history of connection pushes (any listener token), accept-side incs, stops, polls,
   connection completions and clock advances.  `trace c ops` is the list of observation lists,
   one per executed op.  All theorems are for ALL `c` and `ops`. *)
From AN Require Import Model.Wrk Proofs.WrkFacts.

(* --- C07_call_after_ready ---------------------------------------------------------------- *)
(* In every poll, every `Call` is directly preceded by a complete readiness round in which
   every service answered Ready(Ok) (boolean scan `car`, run on the service/factory events). *)
Theorem C07_call_after_ready : forall c ops,
  C07_car_ok (length (c_svcs c)) (trace c ops) = true.
Proof. exact car_holds. Qed.

(* what the scan means *)
Theorem C07_call_after_ready_meaning : forall n l, car n None l = true ->
  forall pre k cid post, l = pre ++ Call k cid :: post ->
  exists pre', pre = pre' ++ map (fun j => PollReady j ROk) (seq 0 n).
Proof. exact car_sound. Qed.

(* `check_readiness` never skips a service when it runs: in the states Available/Unavailable all
   statuses are Available/Unavailable (the `Failed/Restarting/Stopping/Stopped` filter of
   check_readiness is unreachable), so "a complete round" really is every service of the worker *)
Theorem C07_all_services_checked : forall c ops,
  let s := exec c (init c) ops in
  match ws s with
  | WAvailable | WUnavailable => Forall (fun v => polled (s_status v) = true) (svcs s)
  | _ => True
  end.
Proof. exact all_services_checked. Qed.

(* --- C07_fifo ----------------------------------------------------------------------------- *)
(* The calls of a run, in order, are a prefix of the pushed connections, in order, and each call
   goes to the service of the connection's listener token. *)
Theorem C07_fifo : forall c ops, C07_fifo_ok ops (trace c ops) = true.
Proof. exact fifo_holds. Qed.

(* None lost, queue unchanged while waiting: as long as the worker is serving (not shutting
   down / finished), every connection pushed so far was called, in order, or is still queued, in
   order.  (A poll that ends with some service Pending or a factory Pending calls nothing more
   and leaves the rest of the queue as it is.) *)
Theorem C07_none_lost : forall c ops, live (exec c (init c) ops) ->
  pushes_of ops = calls_of (concat (trace c ops)) ++ cq (exec c (init c) ops).
Proof. exact none_lost. Qed.

(* --- served once readiness returns ------------------------------------------------------- *)
(* From every reachable serving state with no stop pending: one poll ends in exactly one of
   (1) Available with an empty queue, (2) Unavailable after some service answered Pending,
   (3) Restarting k after factory k answered Pending, (4) the restart panic; every queued
   connection was called in order or is still queued in order. *)
Theorem C07_poll_outcome : forall c ops,
  let s := exec c (init c) ops in
  live s -> sq s = [] -> cq_open s = true -> tokens_ok c s ->
  let s2 := fst (poll c s) in let o := snd (poll c s) in
  poll_outcome s2 o /\ (live s2 -> cq s = calls_of o ++ cq s2)
  /\ (ws s2 = WAvailable -> calls_of o = cq s).
Proof. intros c ops. exact (poll_serves c _ (reachable_inv c ops)). Qed.

(* ... so once every service answers Ready(Ok) from now on (and factories succeed), the next
   poll calls ALL queued connections, in order, also right after a restart. *)
Theorem C07_served : forall c ops,
  let s := exec c (init c) ops in
  live s -> sq s = [] -> cq_open s = true -> tokens_ok c s -> benign (svcs s) ->
  ws (fst (poll c s)) = WAvailable /\ cq (fst (poll c s)) = []
  /\ calls_of (snd (poll c s)) = cq s.
Proof. intros c ops. exact (poll_serves_all c _ (reachable_inv c ops)). Qed.

(* --- C07_restart / C07_restart_fail ------------------------------------------------------- *)
(* Adjacency discipline of the service/factory events of every poll. *)
Theorem C07_restart : forall c ops, C07_restart_ok (trace c ops) = true.
Proof. exact restart_holds. Qed.

(* what it means: a Ready(Err) of service k is directly followed by exactly one Create k ... *)
Theorem C07_restart_meaning_err : forall l, seg_adj_ok l = true ->
  forall pre k post, l = pre ++ PollReady k RErr :: post -> exists post', post = Create k :: post'.
Proof. exact adj_sound_err. Qed.

(* ... no service is re-created for any other reason, and the new factory future is polled next *)
Theorem C07_restart_meaning_create : forall l, seg_adj_ok l = true ->
  forall pre k post, l = pre ++ Create k :: post ->
  (exists pre', pre = pre' ++ [PollReady k RErr]) /\ (exists a post', post = PollCreate k a :: post').
Proof. exact adj_sound_create. Qed.

(* a failing re-creation is the worker's panic, and that panic has no other cause *)
Theorem C07_restart_fail : forall l, seg_adj_ok l = true ->
  forall pre k post, l = pre ++ PollCreate k CErr :: post -> exists post', post = Panic PRestart :: post'.
Proof. exact adj_sound_fail. Qed.

Theorem C07_restart_fail_only : forall l, seg_adj_ok l = true ->
  forall pre post, l = pre ++ Panic PRestart :: post -> exists pre' k, pre = pre' ++ [PollCreate k CErr].
Proof. exact adj_sound_panic. Qed.

(* --- the model's fuel never runs out ------------------------------------------------------ *)
Theorem C07_fuel : forall c ops, Forall (fun seg => ~ In (Panic PFuel) seg) (trace c ops).
Proof. exact trace_nofuel. Qed.

(* --- non-vacuity -------------------------------------------------------------------------- *)
(* the design-phase prototype run (DESIGN A.3): two services, readiness [Ok] and
   [P,Ok,Ok,Err,Ok..]; the failing service alone is re-created between two connections *)
Example C07_example_a3 :
  let c := mkCfg 3 5000 [([], []); ([RPend; ROk; ROk; RErr; ROk], [])] in
  trace c [PollW; PushConn 0 0; AcceptInc; PushConn 1 1; AcceptInc; PollW]
  = [ [PollReady 0 ROk; PollReady 1 RPend]; []; []; []; [];
      [PollReady 0 ROk; PollReady 1 ROk; PollReady 0 ROk; PollReady 1 ROk; Call 0 0;
       PollReady 0 ROk; PollReady 1 RErr; Create 1; PollCreate 1 COk;
       PollReady 0 ROk; PollReady 1 ROk; PollReady 0 ROk; PollReady 1 ROk; Call 1 1;
       PollReady 0 ROk; PollReady 1 ROk] ].
Proof. vm_compute. reflexivity. Qed.

(* two services failing in the same round: re-created one after the other, connection survives *)
Example C07_example_two_failures :
  let c := mkCfg 3 5000 [([RErr], [CPend]); ([RErr], [])] in
  trace c [PushConn 1 7; AcceptInc; PollW; PollW]
  = [ []; [];
      [PollReady 0 RErr; Create 0; PollCreate 0 CPend];
      [PollCreate 0 COk; PollReady 0 ROk; PollReady 1 RErr; Create 1; PollCreate 1 COk;
       PollReady 0 ROk; PollReady 1 ROk; PollReady 0 ROk; PollReady 1 ROk; Call 1 7;
       PollReady 0 ROk; PollReady 1 ROk] ].
Proof. vm_compute. reflexivity. Qed.

(* a Pending service in front of a failing one; a failing factory is the panic *)
Example C07_example_pending_then_fail :
  let c := mkCfg 3 5000 [([RPend], []); ([ROk; RErr], [CErr])] in
  trace c [PushConn 0 0; AcceptInc; PollW; PollW]
  = [ []; []; [PollReady 0 RPend; PollReady 1 ROk];
      [PollReady 0 ROk; PollReady 1 RErr; Create 1; PollCreate 1 CErr; Panic PRestart] ].
Proof. vm_compute. reflexivity. Qed.

(* the hypotheses of C07_served / C07_poll_outcome are satisfiable on a non-trivial state:
   after a restart, two connections queued *)
Example C07_served_example :
  let c := mkCfg 3 5000 [([RErr], [CPend])] in
  let s := exec c (init c) [PushConn 0 0; AcceptInc; PushConn 0 1; AcceptInc; PollW] in
  live s /\ sq s = [] /\ cq_open s = true /\ tokens_ok c s /\ benign (svcs s)
  /\ ws s = WRestarting 0 /\ calls_of (snd (poll c s)) = [(0, 0); (0, 1)].
Proof.
  vm_compute. repeat split; auto; repeat constructor.
Qed.

Print Assumptions C07_call_after_ready.
Print Assumptions C07_call_after_ready_meaning.
Print Assumptions C07_all_services_checked.
Print Assumptions C07_fifo.
Print Assumptions C07_none_lost.
Print Assumptions C07_poll_outcome.
Print Assumptions C07_served.
Print Assumptions C07_restart.
Print Assumptions C07_restart_meaning_err.
Print Assumptions C07_restart_meaning_create.
Print Assumptions C07_restart_fail.
Print Assumptions C07_restart_fail_only.
Print Assumptions C07_fuel.
