(* Proofs/SrvRotation.v — C08, second half: a dead worker receives nothing further (bypass), a worker is
   taken out of the rotation only if it is dead, and every live worker generation is in the rotation or its
   handle is on its way through the waker queue (so it has rejoined once the queue is drained).
   One invariant [RK] over (workers' liveness, handles, waker queue, log), preserved by every function of
   Model/Srv.v for ALL scripts — no hypothesis on the script at all. *)
From Coq Require Import List Arith ZArith NArith Bool Lia.
From AN Require Import Model.Srv Proofs.ListFacts Proofs.SrvInv Proofs.SrvFault.
Import ListNotations.

Definition is_open (wsl : list worker) (g : nat) : Prop := exists w, nth_error wsl g = Some w /\ w_open w = true.
Definition is_closed (wsl : list worker) (g : nat) : Prop := exists w, nth_error wsl g = Some w /\ w_open w = false.

(* the log is newest first: [post] are the events before the dispatch *)
Definition bypass_ok (tr : list event) : Prop :=
  forall pre c tok g idx n post, tr = pre ++ EvDispatch c tok g idx n :: post -> ~ In (EvKilled g) post.

Definition RKC (wsl : list worker) (hs : list nat) (q : list interest) (tr : list event) : Prop :=
  (forall g, is_open wsl g -> In g hs \/ In (IWorker g) q) /\
  (forall g, In (EvKilled g) tr -> is_closed wsl g) /\
  bypass_ok tr.

Definition RK (st : state) : Prop := RKC (ws st) (handles st) (wq st) (trace st).

Lemma bypass_cons_other e tr :
  match e with EvDispatch _ _ _ _ _ => False | _ => True end -> bypass_ok tr -> bypass_ok (e :: tr).
Proof.
  intros He H pre c tok g idx n post E. destruct pre as [|x pre]; cbn in E.
  - injection E as -> _. contradiction.
  - injection E as _ E. eapply H; eassumption.
Qed.

Lemma bypass_cons_dispatch c tok g idx n tr :
  ~ In (EvKilled g) tr -> bypass_ok tr -> bypass_ok (EvDispatch c tok g idx n :: tr).
Proof.
  intros Hk H pre c' tok' g' idx' n' post E. destruct pre as [|x pre]; cbn in E.
  - injection E as -> -> -> -> -> <-. exact Hk.
  - injection E as _ E. eapply H; eassumption.
Qed.

Lemma open_not_closed wsl g : is_open wsl g -> is_closed wsl g -> False.
Proof. intros (w & H1 & H2) (w' & H1' & H2'). congruence. Qed.

Lemma RKC_emit_other wsl hs q tr e :
  match e with EvDispatch _ _ _ _ _ | EvKilled _ => False | _ => True end ->
  RKC wsl hs q tr -> RKC wsl hs q (e :: tr).
Proof.
  intros He (R & K1 & K2). split; [exact R|]. split.
  - intros g [->|Hin]; [contradiction|now apply K1].
  - apply bypass_cons_other; [destruct e; auto|exact K2].
Qed.

Lemma RKC_emit_dispatch wsl hs q tr c tok g idx n :
  is_open wsl g -> RKC wsl hs q tr -> RKC wsl hs q (EvDispatch c tok g idx n :: tr).
Proof.
  intros Ho (R & K1 & K2). split; [exact R|]. split.
  - intros g' [H|Hin]; [discriminate|now apply K1].
  - apply bypass_cons_dispatch; [|exact K2]. intros Hk. eapply open_not_closed; [exact Ho|now apply K1].
Qed.

(* in-place update of a worker that keeps its liveness *)
Lemma RKC_upd_worker wsl hs q tr g w w' :
  nth_error wsl g = Some w -> w_open w' = w_open w -> RKC wsl hs q tr -> RKC (replace_nth g w' wsl) hs q tr.
Proof.
  intros Hg Ho (R & K1 & K2).
  assert (Hlt : g < length wsl) by (apply nth_error_Some; rewrite Hg; discriminate).
  assert (Hiff : forall g0 b, (exists w0, nth_error (replace_nth g w' wsl) g0 = Some w0 /\ w_open w0 = b) <->
                              (exists w0, nth_error wsl g0 = Some w0 /\ w_open w0 = b)).
  { intros g0 b. rewrite nth_error_replace_nth. destruct (Nat.eqb_spec g g0) as [<-|Hne]; [|reflexivity].
    apply Nat.ltb_lt in Hlt. rewrite Hlt. split; intros (w0 & H1 & H2).
    - injection H1 as <-. exists w. split; [exact Hg|congruence].
    - exists w'. split; [reflexivity|]. rewrite Hg in H1. injection H1 as <-. congruence. }
  split; [|split; [|exact K2]].
  - intros g0 Hop. apply R. apply (Hiff g0 true). exact Hop.
  - intros g0 Hin. apply (Hiff g0 false). now apply K1.
Qed.

Lemma RKC_wq_snoc wsl hs q tr x : RKC wsl hs q tr -> RKC wsl hs (q ++ [x]) tr.
Proof.
  intros (R & K1 & K2). split; [|split; assumption].
  intros g Ho. destruct (R g Ho) as [H|H]; [now left|right; apply in_or_app; now left].
Qed.

Lemma RKC_wq_pop wsl hs q tr x :
  (forall g, x <> IWorker g) -> RKC wsl hs (x :: q) tr -> RKC wsl hs q tr.
Proof.
  intros Hx (R & K1 & K2). split; [|split; assumption].
  intros g Ho. destruct (R g Ho) as [H|[H|H]]; [now left|exfalso; eapply Hx; exact H|now right].
Qed.

Lemma RKC_join wsl hs q tr g : RKC wsl hs (IWorker g :: q) tr -> RKC wsl (hs ++ [g]) q tr.
Proof.
  intros (R & K1 & K2). split; [|split; assumption].
  intros g0 Ho. destruct (R g0 Ho) as [H|[H|H]].
  - left. apply in_or_app. now left.
  - injection H as <-. left. apply in_or_app. right. now left.
  - now right.
Qed.

(* a handle is removed only when its worker is dead *)
Lemma RKC_remove wsl hs q tr n g :
  nth_error hs n = Some g -> is_closed wsl g -> RKC wsl hs q tr -> RKC wsl (swap_remove n hs) q tr.
Proof.
  intros Hn Hc (R & K1 & K2). split; [|split; assumption].
  intros g0 Ho. destruct (R g0 Ho) as [H|H]; [|now right].
  left. eapply swap_remove_keeps; [exact Hn|exact H|]. intros ->. eapply open_not_closed; eassumption.
Qed.

Lemma RKC_hs_ext wsl hs hs' q tr : (forall g, In g hs -> In g hs') -> RKC wsl hs q tr -> RKC wsl hs' q tr.
Proof.
  intros Hsub (R & K1 & K2). split; [|split; assumption].
  intros g Ho. destruct (R g Ho); [left; auto|now right].
Qed.

Lemma RKC_kill wsl hs q tr g w :
  nth_error wsl g = Some w -> RKC wsl hs q tr ->
  RKC (replace_nth g (set_w_open (set_w_queue w []) false) wsl) hs q (EvKilled g :: tr).
Proof.
  intros Hg (R & K1 & K2).
  assert (Hlt : g < length wsl) by (apply nth_error_Some; rewrite Hg; discriminate).
  pose proof Hlt as Hltb. apply Nat.ltb_lt in Hltb.
  split; [|split].
  - intros g0 (w0 & H1 & H2). apply R. rewrite nth_error_replace_nth in H1.
    destruct (Nat.eqb_spec g g0) as [<-|Hne].
    + rewrite Hltb in H1. injection H1 as <-. discriminate.
    + exists w0. auto.
  - intros g0 [H|Hin].
    + injection H as <-. exists (set_w_open (set_w_queue w []) false). split; [now apply nth_error_replace_nth_same|reflexivity].
    + destruct (K1 g0 Hin) as (w0 & H1 & H2). unfold is_closed. rewrite nth_error_replace_nth.
      destruct (Nat.eqb_spec g g0) as [<-|Hne]; [|exists w0; auto].
      rewrite Hltb. eexists. split; reflexivity.
  - apply bypass_cons_other; [exact I|exact K2].
Qed.

Lemma RKC_respawn wsl hs q tr w :
  w_open w = true -> RKC wsl hs q tr -> RKC (wsl ++ [w]) hs (q ++ [IWorker (length wsl)]) tr.
Proof.
  intros Ho (R & K1 & K2). split; [|split; [|exact K2]].
  - intros g (w0 & H1 & H2). destruct (Nat.lt_ge_cases g (length wsl)) as [Hlt|Hge].
    + rewrite nth_error_app1 in H1 by exact Hlt.
      destruct (R g (ex_intro _ w0 (conj H1 H2))) as [H|H]; [now left|right; apply in_or_app; now left].
    + rewrite nth_error_app2 in H1 by exact Hge. destruct (g - length wsl) as [|k] eqn:E; cbn in H1.
      * right. apply in_or_app. right. left. f_equal. lia.
      * destruct k; discriminate.
  - intros g Hin. destruct (K1 g Hin) as (w0 & H1 & H2). exists w0. split; [|exact H2].
    rewrite nth_error_app1; [exact H1|]. apply nth_error_Some. rewrite H1. discriminate.
Qed.

Section Rot.
Variable L : Z.

Lemma guard_drop_rk st g w w' :
  nth_error (ws st) g = Some w -> w_open w' = w_open w -> RK st -> RK (guard_drop L st g w').
Proof.
  intros Hg Ho H. unfold guard_drop.
  assert (H1 : RKC (replace_nth g (set_w_cnt w' (w_cnt w' - 1)) (ws st)) (handles st) (wq st) (trace st)).
  { eapply RKC_upd_worker; [exact Hg|exact Ho|exact H]. }
  destruct (Z.eqb _ _); unfold RK, wake, upd_worker; cbn; [now apply RKC_wq_snoc|exact H1].
Qed.

Lemma fold_lost_rk l : forall s, RK s -> RK (fold_left (fun s c => emit s (EvLost (c_id c))) l s).
Proof.
  induction l as [|x l IH]; intros s H; cbn [fold_left]; [exact H|]. apply IH.
  unfold RK. cbn. apply RKC_emit_other; [exact I|exact H].
Qed.

Lemma env_step_rk st o : RK st -> RK (env_step L st o).
Proof.
  intros H. destruct o as [tok c|g|g c|g|g|c|idx|tok k]; cbn [env_step].
  - destruct (nth_error (lsts st) tok) as [l|]; [|exact H]. destruct (l_uds l && negb (l_linked l)).
    + unfold RK. cbn. apply RKC_emit_other; [exact I|exact H].
    + exact H.
  - destruct (nth_error (ws st) g) as [w|] eqn:Eg; [|exact H]. destruct (w_open w); [|exact H].
    destruct (w_queue w); [exact H|]. unfold RK, upd_worker. cbn.
    eapply RKC_upd_worker; [exact Eg|reflexivity|exact H].
  - destruct (nth_error (ws st) g) as [w|] eqn:Eg; [|exact H].
    destruct (remove_conn c (w_picked w)) as [[x p]|]; [|exact H].
    unfold RK. cbn [trace emit ws handles wq]. apply RKC_emit_other; [exact I|].
    apply (guard_drop_rk st g w (set_w_picked w p) Eg eq_refl H).
  - destruct (nth_error (ws st) g) as [w|] eqn:Eg; [|exact H]. destruct (w_open w); [|exact H].
    destruct (w_queue w) as [|c q]; [exact H|].
    unfold RK. cbn [trace emit ws handles wq]. apply RKC_emit_other; [exact I|].
    apply (guard_drop_rk st g w (set_w_queue w q) Eg eq_refl H).
  - destruct (nth_error (ws st) g) as [w|] eqn:Eg; [|exact H]. destruct (w_open w); [|exact H].
    apply fold_lost_rk. unfold RK, upd_worker. cbn. now apply RKC_kill.
  - unfold RK, wake. cbn. now apply RKC_wq_snoc.
  - unfold RK, wake. cbn. now apply RKC_respawn.
  - destruct (nth_error (lsts st) tok); exact H.
Qed.

Lemma env_steps_rk os : forall st, RK st -> RK (env_steps L st os).
Proof. induction os as [|o os IH]; intros st H; cbn [env_steps fold_left]; [exact H|]. apply IH. now apply env_step_rk. Qed.

(* fields RK does not look at *)
Lemma RK_same st st' :
  ws st' = ws st -> handles st' = handles st -> wq st' = wq st -> trace st' = trace st -> RK st -> RK st'.
Proof. intros A B C D H. unfold RK. now rewrite A, B, C, D. Qed.

Lemma av_set_rk st i v : RK st -> RK (av_set st i v).
Proof. intros H. unfold av_set. destruct (set (av st) i v); exact H. Qed.

Lemma do_set_next_rk st : RK st -> RK (do_set_next st).
Proof. intros H. unfold do_set_next. destruct (length (handles st)); exact H. Qed.

Lemma send_connection_rk st c ys st' ys' r :
  send_connection L st c ys = (st', ys', r) -> RK st -> RK st'.
Proof.
  unfold send_connection. intros Hs H.
  destruct (nth_error (handles st) (next st)) as [g|] eqn:Eg; [|injection Hs as <- _ _; exact H].
  destruct (nth_error (ws st) g) as [w|] eqn:Ew; [|injection Hs as <- _ _; exact H].
  destruct (w_open w) eqn:Eo.
  - set (st1 := emit (upd_worker st g (set_w_queue w (w_queue w ++ [c]))) _) in Hs.
    assert (H1 : RK st1).
    { unfold RK, st1, upd_worker. cbn. apply RKC_emit_dispatch.
      - exists (set_w_queue w (w_queue w ++ [c])). split; [|exact Eo].
        apply nth_error_replace_nth_same. apply nth_error_Some. rewrite Ew. discriminate.
      - eapply RKC_upd_worker; [exact Ew|reflexivity|exact H]. }
    pose proof (env_steps_rk (hd [] ys) st1 H1) as H2. set (st2 := env_steps L st1 (hd [] ys)) in *.
    destruct (nth_error (ws st2) g) as [w2|] eqn:Ew2; [|injection Hs as <- _ _; exact H2].
    injection Hs as <- _ _. apply do_set_next_rk.
    assert (H3 : RK (upd_worker st2 g (set_w_cnt w2 (w_cnt w2 + 1)))).
    { unfold RK, upd_worker. cbn. eapply RKC_upd_worker; [exact Ew2|reflexivity|exact H2]. }
    destruct (Z.eqb _ _); [now apply av_set_rk|exact H3].
  - (* remove_next *)
    set (st1 := set_handles st (swap_remove (next st) (handles st))) in Hs.
    assert (H3 : RK (av_set (emit st1 (EvFaulted (w_idx w))) (w_idx w) false)).
    { apply av_set_rk. unfold RK, st1. cbn. apply RKC_emit_other; [exact I|].
      eapply RKC_remove; [exact Eg|exists w; auto|exact H]. }
    destruct (handles (av_set (emit st1 (EvFaulted (w_idx w))) (w_idx w) false)).
    + injection Hs as <- _ _. unfold RK. cbn [trace emit ws handles wq]. apply RKC_emit_other; [exact I|exact H3].
    + injection Hs as <- _ _. match goal with |- context [if ?b then _ else _] => destruct b end; exact H3.
Qed.

Lemma forced_send_rk : forall fuel st c ys st' ys',
  forced_send L fuel st c ys = (st', ys') -> RK st -> RK st'.
Proof.
  induction fuel as [|f IH]; intros st c ys st' ys' Hs H; cbn [forced_send] in Hs.
  - injection Hs as <- _. exact H.
  - destruct (err st); [injection Hs as <- _; exact H|].
    destruct (send_connection L st c ys) as [[st1 ys1] r] eqn:E.
    pose proof (send_connection_rk _ _ _ _ _ _ E H) as H1.
    destruct r; [injection Hs as <- _; exact H1|eapply IH; eassumption].
Qed.

Lemma accept_one_rk : forall fuel st c ys st' ys',
  accept_one L fuel st c ys = (st', ys') -> RK st -> RK st'.
Proof.
  induction fuel as [|f IH]; intros st c ys st' ys' Hs H; cbn [accept_one] in Hs.
  - injection Hs as <- _. exact H.
  - destruct (err st); [injection Hs as <- _; exact H|].
    destruct (nth_error (handles st) (next st)) as [g|]; [|injection Hs as <- _; exact H].
    destruct (nth_error (ws st) g) as [w|]; [|injection Hs as <- _; exact H].
    destruct (av_get st (w_idx w)) as [st0 b] eqn:Eav.
    assert (H0 : RK st0).
    { unfold av_get in Eav. destruct (get (av st) (w_idx w)); injection Eav as <- _; exact H. }
    destruct b.
    + destruct (send_connection L st0 c ys) as [[st1 ys1] r] eqn:E.
      pose proof (send_connection_rk _ _ _ _ _ _ E H0) as H1.
      destruct r; [injection Hs as <- _; exact H1|eapply IH; eassumption].
    + set (st1 := do_set_next _) in Hs.
      assert (H1 : RK st1).
      { unfold st1. apply do_set_next_rk, av_set_rk. unfold RK. cbn. apply RKC_emit_other; [exact I|exact H0]. }
      destruct (available (av st1)); [eapply IH; eassumption|eapply forced_send_rk; eassumption].
Qed.

Lemma set_timeout_rk st d : RK st -> RK (set_timeout st d).
Proof. intros H. unfold set_timeout. destruct (ptimeout st); [destruct (N.ltb d n)|]; exact H. Qed.

Lemma accept_loop_rk : forall fuel st tok ys st' ys',
  accept_loop L fuel st tok ys = (st', ys') -> RK st -> RK st'.
Proof.
  induction fuel as [|f IH]; intros st tok ys st' ys' Hs H; cbn [accept_loop] in Hs.
  - injection Hs as <- _. exact H.
  - destruct (err st); [injection Hs as <- _; exact H|].
    destruct (available (av st)); [|injection Hs as <- _; exact H].
    destruct (nth_error (lsts st) tok) as [l|]; [|injection Hs as <- _; exact H].
    destruct (l_inject l) as [|k rest].
    + destruct (l_backlog l) as [|c rest]; [injection Hs as <- _; exact H|].
      destruct (accept_one L _ _ _ ys) as [st2 ys2] eqn:E.
      eapply IH; [exact Hs|]. eapply accept_one_rk; [exact E|]. exact H.
    + destruct k.
      * injection Hs as <- _. exact H.
      * eapply IH; [exact Hs|]. exact H.
      * injection Hs as <- _. apply set_timeout_rk. exact H.
Qed.

Lemma accept_rk st tok ys st' ys' : accept L st tok ys = (st', ys') -> RK st -> RK st'.
Proof.
  unfold accept. destruct (paused st); [intros E; injection E as <- _; auto|]. apply accept_loop_rk.
Qed.

Lemma accept_toks_rk toks : forall st ys st' ys', accept_toks L st toks ys = (st', ys') -> RK st -> RK st'.
Proof.
  induction toks as [|t r IH]; intros st ys st' ys' Hs H; cbn [accept_toks] in Hs.
  - injection Hs as <- _. exact H.
  - destruct (accept L st t ys) as [st1 ys1] eqn:E. eapply IH; [exact Hs|]. eapply accept_rk; eassumption.
Qed.

Lemma handle_waker_rk : forall fuel st ys st' ys',
  handle_waker L fuel st ys = (st', ys') -> RK st -> RK st'.
Proof.
  induction fuel as [|f IH]; intros st ys st' ys' Hs H; cbn [handle_waker] in Hs.
  - injection Hs as <- _. exact H.
  - destruct (err st); [injection Hs as <- _; exact H|].
    destruct (wq st) as [|i rest] eqn:Eq; [injection Hs as <- _; exact H|].
    set (st0 := set_wq st rest (wpend st)) in *.
    assert (Hpop : (forall g, i <> IWorker g) -> RK st0).
    { intros Hi. unfold RK, st0. cbn. eapply RKC_wq_pop; [exact Hi|]. unfold RK in H. rewrite Eq in H. exact H. }
    destruct i as [idx|g| | |].
    + set (st1 := if existsb _ (handles st0) then av_set st0 idx true else st0) in Hs.
      assert (H1 : RK st1).
      { unfold st1. destruct (existsb _ _); [apply av_set_rk|]; apply Hpop; discriminate. }
      destruct (paused st1).
      * eapply IH; eassumption.
      * destruct (accept_all L st1 ys) as [st2 ys2] eqn:E. eapply IH; [exact Hs|].
        unfold accept_all in E. eapply accept_toks_rk; eassumption.
    + destruct (nth_error (ws st0) g) as [w|] eqn:Ew0; [|injection Hs as <- _].
      * set (st1 := set_handles _ _) in Hs.
        assert (H1 : RK st1).
        { unfold st1. assert (Hj : RK (set_handles st0 (handles st0 ++ [g]))).
          { unfold RK, st0. cbn. apply RKC_join. unfold RK in H. rewrite Eq in H. exact H. }
          unfold av_set. destruct (set (av st0) (w_idx w) true); exact Hj. }
        destruct (paused st1).
        -- eapply IH; eassumption.
        -- destruct (accept_all L st1 ys) as [st2 ys2] eqn:E. eapply IH; [exact Hs|].
           unfold accept_all in E. eapply accept_toks_rk; eassumption.
      * (* unknown generation: Panic, the handle is dropped with the interest *)
        unfold RK, st0. cbn. unfold RK in H. rewrite Eq in H. destruct H as (R & K1 & K2).
        split; [|split; assumption]. intros g0 Ho. destruct (R g0 Ho) as [Hh|[Hh|Hh]]; [now left| |now right].
        injection Hh as <-. destruct Ho as (w0 & Hw0 & _). unfold st0 in *. cbn in *. congruence.
    + set (st1 := if paused st0 then st0 else emit (deregister_all (set_paused st0 true)) EvPauseOn) in Hs.
      assert (H1 : RK st1).
      { unfold st1. destruct (paused st0); [apply Hpop; discriminate|].
        unfold RK. cbn. apply RKC_emit_other; [exact I|]. apply Hpop. discriminate. }
      eapply IH; eassumption.
    + destruct (paused st0).
      * set (st1 := emit _ EvPauseOff) in Hs.
        assert (H1 : RK st1).
        { unfold st1, RK. cbn. apply RKC_emit_other; [exact I|]. apply Hpop. discriminate. }
        destruct (accept_all L st1 ys) as [st2 ys2] eqn:E. eapply IH; [exact Hs|].
        unfold accept_all in E. eapply accept_toks_rk; eassumption.
      * eapply IH; [exact Hs|]. apply Hpop. discriminate.
    + injection Hs as <- _. unfold RK. cbn [trace emit ws handles wq]. apply RKC_emit_other; [exact I|].
      assert (H0 : RK st0) by (apply Hpop; discriminate).
      destruct (paused st); exact H0.
Qed.

Lemma process_timeout_rk st : RK st -> RK (process_timeout st).
Proof.
  intros H. unfold process_timeout. destruct (ptimeout st); [|exact H]. destruct (fold_left _ _ _). exact H.
Qed.

Lemma step_rk st o : RK st -> RK (step L st o).
Proof.
  intros H. destruct o as [e|tok ys|ys| |ys|ms]; cbn [step].
  - now apply env_step_rk.
  - destruct (live st); [|exact H]. destruct (accept L st tok ys) as [st' ys'] eqn:E. cbn. eapply accept_rk; eassumption.
  - destruct (live st); [|exact H]. destruct (handle_waker L _ st ys) as [st' ys'] eqn:E. cbn. eapply handle_waker_rk; eassumption.
  - destruct (live st); [|exact H]. now apply process_timeout_rk.
  - destruct (live st); [|exact H].
    set (st0 := emit _ _).
    assert (H0 : RK st0) by (unfold RK, st0; cbn; apply RKC_emit_other; [exact I|exact H]).
    destruct (accept_toks L st0 _ ys) as [st1 ys1] eqn:E1.
    pose proof (accept_toks_rk _ _ _ _ _ E1 H0) as H1.
    destruct (wpend st).
    + destruct (handle_waker L _ st1 ys1) as [st2 ys2] eqn:E2.
      pose proof (handle_waker_rk _ _ _ _ _ E2 H1) as H2.
      destruct (live st2); [now apply process_timeout_rk|exact H2].
    + destruct (live st1); [now apply process_timeout_rk|exact H1].
  - exact H.
Qed.

Lemma run_rk os : forall st, RK st -> RK (run L st os).
Proof. induction os as [|o os IH]; intros st H; cbn [run fold_left]; [exact H|]. apply IH. now apply step_rk. Qed.

Lemma init_rk W kinds : RK (init W kinds).
Proof.
  unfold RK, init. cbn. split; [|split].
  - intros g (w & Hg & _). left. apply in_seq.
    assert (g < length (map mk_worker (seq 0 W))) by (apply nth_error_Some; rewrite Hg; discriminate).
    rewrite map_length, seq_length in H. lia.
  - intros g [].
  - intros pre c tok g idx n post E. destruct pre; discriminate.
Qed.

Theorem reachable_rk W kinds os : RK (run L (init W kinds) os).
Proof. apply run_rk, init_rk. Qed.

End Rot.

(* ---------- detection and re-routing (function level) ---------- *)
Section Reroute.
Variable L : Z.

(* the log only grows *)
Definition grows (st st' : state) : Prop := exists pre, trace st' = pre ++ trace st.

Lemma grows_refl st : grows st st.
Proof. exists []. reflexivity. Qed.

Lemma grows_trans a b c : grows a b -> grows b c -> grows a c.
Proof. intros [p1 H1] [p2 H2]. exists (p2 ++ p1). rewrite H2, H1. now rewrite app_assoc. Qed.

Lemma grows_same a b : trace b = trace a -> grows a b.
Proof. intros H. exists []. exact H. Qed.

Lemma grows_emit a e : grows a (emit a e).
Proof. exists [e]. reflexivity. Qed.

Lemma env_step_grows st o : grows st (env_step L st o).
Proof.
  assert (G : forall l s, grows s (fold_left (fun s c => emit s (EvLost (c_id c))) l s)).
  { induction l as [|x l IH]; intros s; cbn [fold_left]; [apply grows_refl|].
    eapply grows_trans; [apply grows_emit|apply IH]. }
  destruct o as [tok c|g|g c|g|g|c|idx|tok k]; cbn [env_step].
  - destruct (nth_error (lsts st) tok) as [l|]; [|apply grows_refl].
    destruct (l_uds l && negb (l_linked l)); [apply grows_emit|now apply grows_same].
  - destruct (nth_error (ws st) g) as [w|]; [|apply grows_refl]. destruct (w_open w); [|apply grows_refl].
    destruct (w_queue w); [apply grows_refl|now apply grows_same].
  - destruct (nth_error (ws st) g) as [w|]; [|apply grows_refl].
    destruct (remove_conn c (w_picked w)) as [[x p]|]; [|apply grows_refl].
    eapply grows_trans; [|apply grows_emit]. unfold guard_drop. destruct (Z.eqb _ _); now apply grows_same.
  - destruct (nth_error (ws st) g) as [w|]; [|apply grows_refl]. destruct (w_open w); [|apply grows_refl].
    destruct (w_queue w); [apply grows_refl|].
    eapply grows_trans; [|apply grows_emit]. unfold guard_drop. destruct (Z.eqb _ _); now apply grows_same.
  - destruct (nth_error (ws st) g) as [w|]; [|apply grows_refl]. destruct (w_open w); [|apply grows_refl].
    eapply grows_trans; [|apply G]. eapply grows_trans; [|apply grows_emit]. now apply grows_same.
  - now apply grows_same.
  - now apply grows_same.
  - destruct (nth_error (lsts st) tok); now apply grows_same.
Qed.

Lemma env_steps_grows os : forall st, grows st (env_steps L st os).
Proof.
  induction os as [|o os IH]; intros st; cbn [env_steps fold_left]; [apply grows_refl|].
  eapply grows_trans; [apply env_step_grows|apply IH].
Qed.

(* what one send attempt does to the connection it was given *)
Definition delivered (c : conn) (st st' : state) : Prop :=
  exists pre, trace st' = pre ++ trace st /\ exists g idx n, In (EvDispatch (c_id c) (c_tok c) g idx n) pre.
Definition dropped_no_worker (c : conn) (st st' : state) : Prop :=
  (exists pre, trace st' = pre ++ trace st /\ In (EvDropNoWorker (c_id c)) pre) /\ handles st' = [].

Lemma delivered_mono c a b d : grows a b -> delivered c b d -> delivered c a d.
Proof.
  intros [p1 H1] (p2 & H2 & g & idx & n & Hin). exists (p2 ++ p1). split; [rewrite H2, H1; now rewrite app_assoc|].
  exists g, idx, n. apply in_or_app. now left.
Qed.

Lemma dropped_mono c a b d : grows a b -> dropped_no_worker c b d -> dropped_no_worker c a d.
Proof.
  intros [p1 H1] [(p2 & H2 & Hin) Hh]. split; [|exact Hh]. exists (p2 ++ p1).
  split; [rewrite H2, H1; now rewrite app_assoc|apply in_or_app; now left].
Qed.

Lemma av_set_trace st i v : trace (av_set st i v) = trace st /\ handles (av_set st i v) = handles st /\
                            (err st = None -> err (av_set st i v) = None -> True).
Proof. unfold av_set. destruct (set (av st) i v); cbn; auto. Qed.

Lemma do_set_next_trace st : trace (do_set_next st) = trace st.
Proof. unfold do_set_next. destruct (length (handles st)); reflexivity. Qed.

(* Accept::send_connection: a live target receives the connection; a dead target is reported exactly once
   (one WorkerFaulted with its index), taken out of the rotation, and the connection is handed back for
   another attempt — or dropped if that was the last handle *)
Lemma send_connection_outcome st c ys st' ys' r :
  send_connection L st c ys = (st', ys', r) -> err st' = None ->
  grows st st' /\
  match r with
  | SOk => delivered c st st' \/ dropped_no_worker c st st'
  | SRetry c' => c' = c /\ length (handles st') < length (handles st)
  end.
Proof.
  unfold send_connection. intros Hs He.
  destruct (nth_error (handles st) (next st)) as [g|] eqn:Eg;
    [|injection Hs as <- _ _; cbn in He; destruct (err st); discriminate].
  destruct (nth_error (ws st) g) as [w|] eqn:Ew;
    [|injection Hs as <- _ _; cbn in He; destruct (err st); discriminate].
  destruct (w_open w) eqn:Eo.
  - set (st1 := emit (upd_worker st g (set_w_queue w (w_queue w ++ [c]))) _) in Hs.
    pose proof (env_steps_grows (hd [] ys) st1) as G2. set (st2 := env_steps L st1 (hd [] ys)) in *.
    destruct (nth_error (ws st2) g) as [w2|];
      [|injection Hs as <- _ _; cbn in He; destruct (err st2); discriminate].
    injection Hs as <- _ <-.
    assert (Ht : trace (do_set_next (if (w_cnt w2 =? L)%Z then av_set (upd_worker st2 g (set_w_cnt w2 (w_cnt w2 + 1))) (w_idx w) false
                                     else upd_worker st2 g (set_w_cnt w2 (w_cnt w2 + 1)))) = trace st2).
    { rewrite do_set_next_trace. destruct (Z.eqb _ _); [rewrite (proj1 (av_set_trace _ _ _))|]; reflexivity. }
    destruct G2 as [p2 H2].
    assert (G : exists pre, trace st2 = pre ++ trace st /\
                            In (EvDispatch (c_id c) (c_tok c) g (w_idx w) (length (w_queue w) + length (w_picked w))) pre).
    { exists (p2 ++ [EvDispatch (c_id c) (c_tok c) g (w_idx w) (length (w_queue w) + length (w_picked w))]).
      split; [rewrite H2; unfold st1; cbn; now rewrite <- app_assoc|apply in_or_app; right; now left]. }
    destruct G as (pre & Hp & Hin). split; [exists pre; congruence|].
    left. exists pre. split; [congruence|eauto].
  - set (st1 := set_handles st (swap_remove (next st) (handles st))) in Hs.
    set (st3 := av_set (emit st1 (EvFaulted (w_idx w))) (w_idx w) false) in Hs.
    destruct (av_set_trace (emit st1 (EvFaulted (w_idx w))) (w_idx w) false) as (T3 & H3 & _). fold st3 in T3, H3.
    assert (G3 : grows st st3) by (exists [EvFaulted (w_idx w)]; rewrite T3; reflexivity).
    assert (Hlt : next st < length (handles st)) by (apply nth_error_Some; rewrite Eg; discriminate).
    destruct (handles st3) as [|h0 hr] eqn:Eh.
    + injection Hs as <- _ <-. split; [eapply grows_trans; [exact G3|apply grows_emit]|].
      right. split; [|exact Eh]. exists [EvDropNoWorker (c_id c); EvFaulted (w_idx w)].
      split; [cbn; rewrite T3; reflexivity|now left].
    + assert (Hlen : length (h0 :: hr) < length (handles st)).
      { rewrite H3. unfold st1. cbn. rewrite swap_remove_length by exact Hlt. lia. }
      injection Hs as <- _ <-.
      match goal with |- context [if ?b then _ else _] => destruct b end.
      * split; [eapply grows_trans; [exact G3|apply grows_same; reflexivity]|]. split; [reflexivity|]. cbn [handles set_next_]. rewrite Eh. exact Hlen.
      * split; [exact G3|]. split; [reflexivity|]. rewrite Eh. exact Hlen.
Qed.

(* one failed attempt emits exactly one fault notice, for the dead worker's index, and removes its handle *)
Lemma send_connection_detects st c ys g w :
  nth_error (handles st) (next st) = Some g -> nth_error (ws st) g = Some w -> w_open w = false ->
  (w_idx w < 512)%N ->
  exists st' r, send_connection L st c ys = (st', ys, r) /\
    handles st' = swap_remove (next st) (handles st) /\
    (exists post, trace st' = post ++ EvFaulted (w_idx w) :: trace st /\
                  forall e, In e post -> match e with EvFaulted _ | EvDispatch _ _ _ _ _ => False | _ => True end) /\
    match r with SOk => handles st' = [] | SRetry c' => c' = c /\ handles st' <> [] end.
Proof.
  intros Eg Ew Eo H512. unfold send_connection. rewrite Eg, Ew, Eo.
  rewrite av_set_ok by exact H512. cbn [handles set_av emit set_handles].
  destruct (swap_remove (next st) (handles st)) as [|h0 hr] eqn:Es.
  - eexists _, SOk. split; [reflexivity|]. cbn. split; [reflexivity|]. split; [|reflexivity].
    exists [EvDropNoWorker (c_id c)]. split; [reflexivity|]. intros e [<-|[]]. exact I.
  - match goal with |- context [if ?b then _ else _] => destruct b end.
    + eexists _, (SRetry c). split; [reflexivity|]. cbn. split; [reflexivity|].
      split; [exists []; split; [reflexivity|intros e []]|]. split; [reflexivity|discriminate].
    + eexists _, (SRetry c). split; [reflexivity|]. cbn. split; [reflexivity|].
      split; [exists []; split; [reflexivity|intros e []]|]. split; [reflexivity|discriminate].
Qed.

Lemma forced_send_outcome : forall fuel st c ys st' ys',
  forced_send L fuel st c ys = (st', ys') -> err st = None -> err st' = None ->
  delivered c st st' \/ dropped_no_worker c st st'.
Proof.
  induction fuel as [|f IH]; intros st c ys st' ys' Hs He He'; cbn [forced_send] in Hs.
  - injection Hs as <- _. cbn in He'. rewrite He in He'. discriminate.
  - rewrite He in Hs. destruct (send_connection L st c ys) as [[st1 ys1] r] eqn:E.
    destruct r as [|c'].
    + injection Hs as <- _. exact (proj2 (send_connection_outcome _ _ _ _ _ _ E He')).
    + assert (He1 : err st1 = None).
      { destruct (err st1) eqn:X; [|reflexivity]. destruct f; cbn [forced_send] in Hs.
        - injection Hs as <- _. cbn in He'. rewrite X in He'. discriminate.
        - rewrite X in Hs. injection Hs as <- _. congruence. }
      destruct (send_connection_outcome _ _ _ _ _ _ E He1) as (G1 & -> & _).
      destruct (IH _ _ _ _ _ Hs He1 He') as [D|D]; [left; eapply delivered_mono; eassumption|right; eapply dropped_mono; eassumption].
Qed.

(* C08 re-routing: whatever happens to the workers, accept_one either delivers the connection to a worker that
   was alive when it was sent, or drops it because no worker handle is left *)
Lemma accept_one_outcome : forall fuel st c ys st' ys',
  accept_one L fuel st c ys = (st', ys') -> err st = None -> err st' = None ->
  delivered c st st' \/ dropped_no_worker c st st'.
Proof.
  induction fuel as [|f IH]; intros st c ys st' ys' Hs He He'; cbn [accept_one] in Hs.
  - injection Hs as <- _. cbn in He'. rewrite He in He'. discriminate.
  - rewrite He in Hs.
    destruct (nth_error (handles st) (next st)) as [g|]; [|injection Hs as <- _; cbn in He'; rewrite He in He'; discriminate].
    destruct (nth_error (ws st) g) as [w|]; [|injection Hs as <- _; cbn in He'; rewrite He in He'; discriminate].
    destruct (av_get st (w_idx w)) as [st0 b] eqn:Eav.
    assert (H0 : (trace st0 = trace st /\ handles st0 = handles st) /\ (err st0 = None -> st0 = st)).
    { unfold av_get in Eav. destruct (get (av st) (w_idx w)); injection Eav as <- _; [auto|].
      split; [auto|]. cbn. rewrite He. discriminate. }
    assert (Hnext : forall st1 : state, err st1 = None \/ True -> True) by auto.
    destruct b.
    + destruct (send_connection L st0 c ys) as [[st1 ys1] r] eqn:E.
      assert (He1 : err st1 = None).
      { destruct r; [injection Hs as <- _; exact He'|].
        destruct (err st1) eqn:X; [|reflexivity]. destruct f; cbn [accept_one] in Hs.
        - injection Hs as <- _. cbn in He'. rewrite X in He'. discriminate.
        - rewrite X in Hs. injection Hs as <- _. congruence. }
      destruct (send_connection_outcome _ _ _ _ _ _ E He1) as (G1 & Hr).
      assert (G0 : grows st st0) by (apply grows_same; apply H0).
      destruct r as [|c'].
      * injection Hs as <- _. destruct Hr as [D|D]; [left; eapply delivered_mono; eassumption|right; eapply dropped_mono; eassumption].
      * destruct Hr as [-> _].
        destruct (IH _ _ _ _ _ Hs He1 He') as [D|D];
          [left; eapply delivered_mono; [eapply grows_trans; eassumption|exact D]
          |right; eapply dropped_mono; [eapply grows_trans; eassumption|exact D]].
    + set (st1 := do_set_next _) in Hs.
      assert (G1 : grows st st1).
      { unfold st1. eexists [_]. rewrite do_set_next_trace, (proj1 (av_set_trace _ _ _)). cbn. rewrite (proj1 (proj1 H0)). reflexivity. }
      assert (He1 : err st1 = None).
      { destruct (err st1) eqn:X; [|reflexivity]. destruct (available (av st1)).
        - destruct f; cbn [accept_one] in Hs; [injection Hs as <- _; cbn in He'; rewrite X in He'; discriminate|].
          rewrite X in Hs. injection Hs as <- _. congruence.
        - cbn [forced_send] in Hs. rewrite X in Hs. injection Hs as <- _. congruence. }
      destruct (available (av st1)).
      * destruct (IH _ _ _ _ _ Hs He1 He') as [D|D]; [left; eapply delivered_mono; eassumption|right; eapply dropped_mono; eassumption].
      * destruct (forced_send_outcome _ _ _ _ _ _ Hs He1 He') as [D|D]; [left; eapply delivered_mono; eassumption|right; eapply dropped_mono; eassumption].
Qed.

End Reroute.

(* ---------- the waker queue is drained ---------- *)
Section Drain.
Variable L : Z.

Lemma handle_waker_drains : forall fuel st ys st' ys',
  handle_waker L fuel st ys = (st', ys') -> err st' = None -> wq st' = [] \/ stopped st' = true.
Proof.
  induction fuel as [|f IH]; intros st ys st' ys' Hs He'; cbn [handle_waker] in Hs.
  - injection Hs as <- _. cbn in He'. destruct (err st); discriminate.
  - destruct (err st) eqn:He; [injection Hs as <- _; congruence|].
    destruct (wq st) as [|i rest] eqn:Eq; [injection Hs as <- _; now left|].
    destruct i as [idx|g| | |].
    + match type of Hs with context [if paused ?s then _ else _] => destruct (paused s) end.
      * eapply IH; eassumption.
      * match type of Hs with context [accept_all L ?s ys] => destruct (accept_all L s ys) as [st2 ys2] end.
        eapply IH; eassumption.
    + match type of Hs with context [nth_error ?a ?b] => destruct (nth_error a b) as [w|] end;
        [|injection Hs as <- _; cbn in He'; rewrite He in He'; discriminate].
      match type of Hs with context [if paused ?s then _ else _] => destruct (paused s) end.
      * eapply IH; eassumption.
      * match type of Hs with context [accept_all L ?s ys] => destruct (accept_all L s ys) as [st2 ys2] end.
        eapply IH; eassumption.
    + eapply IH; eassumption.
    + match type of Hs with context [if paused ?s then _ else _] => destruct (paused s) end.
      * match type of Hs with context [accept_all L ?s ys] => destruct (accept_all L s ys) as [st2 ys2] end.
        eapply IH; eassumption.
      * eapply IH; eassumption.
    + injection Hs as <- _. now right.
Qed.

(* C08, replacement: after the accept loop has processed its waker queue (and has not been told to stop),
   every worker generation that is alive — the survivors and every replacement the server has started —
   is in the rotation *)
Theorem rejoined W kinds os ys :
  1 <= W <= 512 -> forallb wf_op (os ++ [HandleWaker ys]) = true ->
  forallb (tok_ok (length kinds)) (os ++ [HandleWaker ys]) = true ->
  let st := run L (init W kinds) os in
  let st' := run L (init W kinds) (os ++ [HandleWaker ys]) in
  live st = true -> stopped st' = false ->
  wq st' = [] /\ forall g w, nth_error (ws st') g = Some w -> w_open w = true -> In g (handles st').
Proof.
  intros HW Hwf Htok st st' Hlive Hns.
  pose proof (no_panic_no_spin L W kinds _ HW Hwf Htok) as He'. fold st' in He'.
  pose proof (reachable_rk L W kinds (os ++ [HandleWaker ys])) as HR. fold st' in HR.
  assert (Hst' : st' = fst (handle_waker L (handle_waker_fuel st ys) st ys)).
  { unfold st', run. rewrite fold_left_app. cbn [fold_left step]. fold (run L (init W kinds) os). fold st. now rewrite Hlive. }
  destruct (handle_waker L (handle_waker_fuel st ys) st ys) as [s2 y2] eqn:E. cbn [fst] in Hst'. subst s2.
  destruct (handle_waker_drains _ _ _ _ _ E He') as [Hq|Hs]; [|congruence].
  split; [exact Hq|]. intros g w Hg Ho.
  destruct HR as (R & _ & _). destruct (R g (ex_intro _ w (conj Hg Ho))) as [H|H]; [exact H|].
  rewrite Hq in H. destruct H.
Qed.

End Drain.
