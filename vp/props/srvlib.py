"""Shared pieces of the server-group plugins (C01–C05, C08): script generation through the model-guided
generator of ocaml/server/driver, trace parsing, and the property predicates evaluated on IMPLEMENTATION traces."""
import os
import re
import subprocess

from common import OCAML, Stream, shrink_tokens

DRIVER = os.path.join(OCAML, "server", "driver")

COMMON_META = {
    "driver": "server",
    "harness": "h_server",
    "coq_targets": ["Extract/XServer.vo"],
    "level": "proof",
    "trusted_base": [
        "hooks in /repo under cfg(actix_net_verif): stepped Accept driver (calls the real accept/handle_waker/process_timeout), "
        "worker handle ends held by the harness, yield callback between send and inc_counter, one-shot accept-error injection",
        "environment model inside Model/Srv.v: kernel accept queue is FIFO; epoll edge semantics (edge on arrival while registered and "
        "on registration with a non-empty backlog; an edge is consumed by the poll that reports it); mio waker edge; Tokio unbounded mpsc is FIFO; "
        "validated by this run because the harness executes on the real kernel/mio/tokio",
        "atomicity abstraction: accept-thread-local updates are merged with the adjacent shared action; a guard drop (fetch_sub + queue push) is one step",
        "Turn in the harness processes a poll batch in canonical order (listener tokens ascending, waker last); theorems hold for every order of the calls",
    ],
    "assumptions": [
        "how a real worker dies is represented by Kill (queue receiver closes first, as the field order of ServerWorker guarantees) and by Finish on its "
        "picked connections (arbiter teardown dropping in-flight tasks)",
        "per-variable atomicity of AtomicUsize RMW; happens-before through Tokio channels and Mutex (Rust memory model, not modelled)",
    ],
}


def gen_scripts(ctx, n, flags_choices, ws=(1, 2, 3), ls=(1, 2, 3), kinds=("T", "U", "TU", "TT", "UT"), lens=(10, 20, 40)):
    reqs = []
    for _ in range(n):
        reqs.append("seed=%d;W=%d;L=%d;K=%s;len=%d;flags=%s" % (
            ctx.rng.randrange(10 ** 9), ctx.rng.choice(ws), ctx.rng.choice(ls), ctx.rng.choice(kinds),
            ctx.rng.choice(lens), ctx.rng.choice(flags_choices)))
    p = subprocess.run([DRIVER, "gen"], input="\n".join(reqs) + "\n", stdout=subprocess.PIPE, text=True, timeout=600)
    out = [l for l in p.stdout.split("\n") if l]
    assert len(out) == len(reqs), "generator produced %d scripts for %d requests" % (len(out), len(reqs))
    return out


# ---------------------------------------------------------------------------------------------------
# parsing
# ---------------------------------------------------------------------------------------------------
class Snap:
    __slots__ = ("raw", "events", "bits", "handles", "paused", "stopped", "err", "wqlen", "workers", "lsts", "bad")


def parse_conns(s):
    return [tuple(int(x) for x in c.split("/")) for c in s.split(",") if c]


WRE = re.compile(r"w(\d+):(\d+):([ox]):q\[([^\]]*)\]:p\[([^\]]*)\]")


def parse_snap(s):
    sn = Snap()
    sn.raw = s
    sn.bad = None
    s = s.strip()
    if s in ("PANIC", "SPIN", "HARNESS_PANIC") or s.startswith("CRASH") or s in ("HANG", "SKIPPED"):
        sn.bad = s
        sn.events = []
        return sn
    parts = s.split("|")
    if len(parts) < 4:
        sn.bad = "UNPARSABLE"
        sn.events = []
        return sn
    sn.events = [e for e in parts[0].split(" ") if e]
    head = parts[1].split()
    sn.bits = head[0][1:]
    hs = head[1][2:-1]
    sn.handles = [int(x) for x in hs.split(",") if x]
    flags = head[2]
    sn.paused = flags[0] == "P"
    sn.stopped = flags[1] == "S"
    sn.err = None
    for t in head[3:]:
        if t in ("PANIC", "SPIN"):
            sn.err = t
        elif t.startswith("wq"):
            sn.wqlen = int(t[2:])
    sn.workers = []
    for m in WRE.finditer(parts[2]):
        sn.workers.append({"g": int(m.group(1)), "idx": int(m.group(2)), "open": m.group(3) == "o",
                           "q": parse_conns(m.group(4)), "p": parse_conns(m.group(5))})
    sn.lsts = [x.split(":")[1] == "t" for x in parts[3].split()]
    return sn


def parse_case(case):
    f = dict(kv.split("=", 1) for kv in case.split(";"))
    ops = [o for o in f.get("ops", "").split(" ") if o]
    return int(f["W"]), int(f["L"]), f["K"], ops


def parse_trace(trace):
    return [parse_snap(s) for s in trace.split(" ; ")]


def strip_diag(trace):
    """drop the diagnostics field (next, raw counters, poll timeout) of every snapshot: internal values only"""
    out = []
    for s in trace.split(" ; "):
        parts = s.split(" | ")
        out.append(" | ".join(parts[:-1]) if len(parts) >= 4 else s)
    return " ; ".join(out)


def compare(impl, model):
    return strip_diag(impl) == strip_diag(model)


def env_ops_of(op):
    """all environment ops contained in an op token (itself, or inside its yield schedule)"""
    if "{" in op:
        inner = op[op.index("{") + 1:-1]
        return [e for grp in inner.split("|") for e in grp.split(",") if e]
    if op[0] in "AHTO+":
        return []
    return [op]


def first_fault_index(ops):
    for k, o in enumerate(ops):
        for e in env_ops_of(o):
            if e[0] in "kr":
                return k
    return len(ops)


def in_progress(w):
    return len(w["q"]) + len(w["p"])


# ---------------------------------------------------------------------------------------------------
# property predicates on an implementation trace (return None if fine, else a reason string)
# ---------------------------------------------------------------------------------------------------
def bad_marker(snaps):
    for k, sn in enumerate(snaps):
        if sn.bad or getattr(sn, "err", None):
            return k, sn.bad or sn.err
    return None


def c02_pred(case, trace):
    """no worker ever has more than L connections in progress, up to the first fault of the script"""
    W, L, K, ops = parse_case(case)
    snaps = parse_trace(trace)
    nf = first_fault_index(ops)
    for k, sn in enumerate(snaps[:nf]):
        if sn.bad:
            return "op %d: %s" % (k, sn.bad)
        if sn.err:
            return "op %d: accept loop %s" % (k, sn.err)
        for w in sn.workers:
            if in_progress(w) > L:
                return "op %d (%s): worker %d has %d connections in progress, limit %d" % (k, ops[k], w["idx"], in_progress(w), L)
    return None


def c03_pred(case, trace):
    """(a) at every quiescent snapshot (waker queue empty) before the first fault, a worker flagged unavailable has exactly L connections
    in progress and a flagged one has fewer; (b) if the script ends with the settling epilogue and the server is running, not paused and a live
    worker has spare capacity, every connection that could be connected has been dispatched"""
    W, L, K, ops = parse_case(case)
    snaps = parse_trace(trace)
    nf = first_fault_index(ops)
    for k, sn in enumerate(snaps[:nf]):
        if sn.bad or sn.err:
            return "op %d: %s" % (k, sn.bad or sn.err)
        if sn.wqlen != 0:
            continue
        for w in sn.workers:
            flag = sn.bits[w["idx"]] == "1" if w["idx"] < len(sn.bits) else False
            n = in_progress(w)
            if not flag and n != L:
                return "op %d (%s): quiescent, worker %d flagged unavailable with %d/%d in progress (lost wake-up)" % (k, ops[k], w["idx"], n, L)
            if flag and n >= L:
                return "op %d (%s): quiescent, worker %d flagged available with %d/%d in progress" % (k, ops[k], w["idx"], n, L)
    if nf == len(ops) and len(snaps) == len(ops) and settled_epilogue(ops):
        last = snaps[-1]
        # a listener still in back-off at the end (a second injected error fired during the epilogue) has not had its 500 ms yet
        if not last.paused and not last.stopped and not any(last.lsts) and any(in_progress(w) < L for w in last.workers if w["open"]):
            und = undispatched(ops, snaps)
            if und:
                return "after the settling epilogue a live worker has spare capacity but connection(s) %s were never dispatched" % sorted(und)
    return None


EPILOGUE = ["T", "T", "+600", "T", "T", "T"]


def settled_epilogue(ops):
    return len(ops) >= 6 and ops[-6:] == EPILOGUE and "S" not in [e for o in ops for e in env_ops_of(o)]


def undispatched(ops, snaps):
    connected = set()
    failed = set()
    seen = set()
    for k, o in enumerate(ops):
        # only top-level connects are certain to have happened (a yield schedule runs only if its dispatch occurs)
        if o[0] == "c":
            connected.add(int(o.split(":")[1]))
    for sn in snaps:
        if sn.bad:
            continue
        for ev in sn.events:
            if ev[0] == "D":
                seen.add(int(ev[1:].split("/")[0]))
            if ev[0] == "X":
                failed.add(int(ev[1:].split("/")[0]))
    return connected - seen - failed


def no_verdict(trace):
    """a case the harness did not run (several accept loops of that process were already spinning) or that fell behind a crashed/hung
    shard gives no verdict; the spinning cases themselves are reported"""
    return "SKIPPED" in trace


def srv_probe(case, impl_trace, model_trace):
    """continuations of a script on which implementation and model disagree, built from the IMPLEMENTATION's final snapshot:
    every connection in progress is picked and finished (capacity is released, notices flow), the loop turns, one fresh client
    connects to every listener, and the script settles (EPILOGUE).  With a live worker and a running, unpaused server every one
    of those clients must then have been dispatched (c03_pred (b)) and the other predicates get states to judge."""
    W, L, K, ops = parse_case(case)
    snaps = parse_trace(impl_trace)
    if not snaps or len(snaps) != len(ops) or any(sn.bad for sn in snaps):
        return []
    if first_fault_index(ops) != len(ops) or "S" in [e for o in ops for e in env_ops_of(o)]:
        return []
    last = snaps[-1]
    if last.stopped or last.err:
        return []
    ids = [int(e.split(":")[1]) for o in ops for e in env_ops_of(o) if e[0] == "c"]
    nxt = max(ids + [0]) + 1
    rel = []
    for w in last.workers:
        if not w["open"]:
            continue
        rel += ["p%d" % w["g"]] * len(w["q"])
        rel += ["f%d:%d" % (w["g"], c[0]) for c in w["q"] + w["p"]]
    fresh = ["c%d:%d" % (t, nxt + t) for t in range(len(K))]
    head = case.split("ops=", 1)[0]
    out = []
    for pre in ([], ["R"]) if last.paused else ([],):
        out.append(head + "ops=" + " ".join(ops + pre + rel + ["T", "T"] + fresh + EPILOGUE))
        out.append(head + "ops=" + " ".join(ops + pre + rel + ["T", "+600", "T"] + fresh + ["T"] + rel[:0] + EPILOGUE))
    return out


def make_stream(name, cases, pred, describe, nontrivial, guarded=None):
    """guarded: an additional predicate that counts only where the model's own trace satisfies it"""
    def monitor(c, i, m):
        if no_verdict(i):
            return True
        if pred(c, i) is not None:
            return False
        return guarded is None or guarded(c, i) is None or guarded(c, m) is not None
    st = Stream(name, "srv", cases, compare=compare,
                monitor=monitor,
                nontrivial=nontrivial, shrink=shrink_ops, describe=describe, timeout=400)
    st.probe = srv_probe
    return st


def shrink_ops(case):
    head, ops = case.split("ops=", 1)
    toks = ops.split(" ")
    n = len(toks)
    k = n // 2
    while k >= 1:
        for i in range(0, n - k + 1, max(1, k)):
            yield head + "ops=" + " ".join(toks[:i] + toks[i + k:])
        k //= 2
    # drop yield schedules
    for i, t in enumerate(toks):
        if "{" in t:
            yield head + "ops=" + " ".join(toks[:i] + [t[:t.index("{")]] + toks[i + 1:])


def saturates(case, model_trace):
    """non-trivial for the counting properties: some worker reaches its limit at some point"""
    try:
        W, L, K, ops = parse_case(case)
        return any(in_progress(w) >= L for sn in parse_trace(model_trace) if not sn.bad for w in sn.workers)
    except Exception:  # noqa: BLE001
        return False


def c04_pred(case, trace):
    """on the implementation's dispatch log, up to the first fault: (a) no dispatch targets a worker that already has L connections in
    progress (checked for operations without a yield schedule, where the count is exact); (b) in a pure `A<tok>` call the targets are exactly
    the first flagged workers in cyclic order from the rotation position (flags: previous snapshot, cleared when a worker reaches L)"""
    W, L, K, ops = parse_case(case)
    snaps = parse_trace(trace)
    nf = first_fault_index(ops)
    nxt = 0
    prev = None
    received = set()
    for k, sn in enumerate(snaps[:nf]):
        if sn.bad or sn.err:
            return "op %d: %s" % (k, sn.bad or sn.err)
        ds = [(int(e[1:].split("/")[0]), int(e.split(">")[1])) for e in sn.events if e[0] == "D"]
        op = ops[k]
        # (c) a worker that has never been given a connection is not saturated: it is eligible, from start-up on
        received.update(g for _, g in ds)
        for g in range(min(W, len(sn.bits))):
            if g not in received and sn.bits[g] != "1":
                return "op %d (%s): worker %d is marked unavailable although no connection was ever dispatched to it" % (k, op, g)
        if ds and prev is not None or ds:
            counts = {w["g"]: in_progress(w) for w in (prev.workers if prev else [])} if prev else {g: 0 for g in range(W)}
            flags = {g: (prev.bits[g] == "1") for g in range(W)} if prev else {g: True for g in range(W)}
            exact = "{" not in op
            pure_accept = exact and op[0] == "A"
            for cid, g in ds:
                if exact and counts.get(g, 0) >= L:
                    return "op %d (%s): connection %d dispatched to worker %d which already had %d/%d in progress" % (k, op, cid, g, counts[g], L)
                if pure_accept:
                    exp = None
                    for d in range(W):
                        cand = (nxt + d) % W
                        if flags.get(cand):
                            exp = cand
                            break
                    if exp is not None and exp != g:
                        return "op %d (%s): connection %d went to worker %d, round-robin over flagged workers from position %d expects %d" % (k, op, cid, g, nxt, exp)
                counts[g] = counts.get(g, 0) + 1
                if counts[g] >= L:
                    flags[g] = False
                nxt = (g + 1) % W
        prev = sn
    return None


def avail_cases(ctx, bases):
    """exhaustive (i, j, v) sweep of the availability bitset from several base states"""
    cases = []
    for base in bases:
        pre = " ".join("s%d:1" % b for b in base)
        for i in range(512):
            for j in range(512):
                for v in (0, 1):
                    cases.append(("%s s%d:%d g%d a" % (pre, i, v, j)).strip())
    return cases


def c08_pred(case, trace):
    """on the implementation trace of a script WITH faults: (a) the accept thread never panics, spins or hangs; (b) no connection is dispatched to a
    worker generation that was already dead before the operation; (c) fault notices name only dead workers, at most one per dead generation;
    (d) whenever the waker queue is drained and the loop has not exited, every live worker generation (initial, or respawned) is in the rotation"""
    W, L, K, ops = parse_case(case)
    snaps = parse_trace(trace)
    prev = None
    fcount = {}
    for k, sn in enumerate(snaps):
        if sn.bad:
            return "op %d (%s): accept thread %s" % (k, ops[k] if k < len(ops) else "?", sn.bad)
        if sn.err:
            return "op %d (%s): accept thread %s" % (k, ops[k], sn.err)
        openprev = {w["g"]: w["open"] for w in prev.workers} if prev else {g: True for g in range(W)}
        for e in sn.events:
            if e[0] == "D":
                g = int(e.split(">")[1])
                if g in openprev and not openprev[g]:
                    return "op %d (%s): connection dispatched to dead worker generation %d (%s)" % (k, ops[k], g, e)
            if e[0] == "F":
                idx = int(e[1:])
                fcount[idx] = fcount.get(idx, 0) + 1
                dead = sum(1 for w in sn.workers if w["idx"] == idx and not w["open"])
                if fcount[idx] > dead:
                    return "op %d (%s): WorkerFaulted(%d) reported %d times for %d dead generation(s)" % (k, ops[k], idx, fcount[idx], dead)
        if sn.wqlen == 0 and not sn.stopped:
            for w in sn.workers:
                if w["open"] and w["idx"] not in sn.handles:
                    return "op %d (%s): waker queue drained but live worker generation %d (index %d) is not in the rotation %s" % (k, ops[k], w["g"], w["idx"], sn.handles)
        prev = sn
    return None


def c08_resume_pred(case, trace):
    """"service resumes once the replacement is up": right after a plain Turn that leaves the waker queue empty, with the loop running, not paused,
    no listener in back-off and some worker in the rotation flagged available, every connection connected (top level) before that Turn has been
    dispatched, refused or lost with a dead worker — unless the rotation was empty at some point (connections are then dropped by design)
    or the script injects a spurious WouldBlock. Evaluated on both traces; a clause the model itself does not satisfy gives no verdict."""
    W, L, K, ops = parse_case(case)
    if any(e.startswith("i") and e.endswith(":w") for o in ops for e in env_ops_of(o)):
        return None
    snaps = parse_trace(trace)
    for k, sn in enumerate(snaps):
        if sn.bad or sn.err or k >= len(ops):
            return None
        if not sn.handles:
            return None
        if ops[k] != "T" or sn.wqlen != 0 or sn.paused or sn.stopped or any(sn.lsts):
            continue
        flagged = [w for w in sn.workers if w["open"] and w["idx"] in sn.handles and w["idx"] < len(sn.bits) and sn.bits[w["idx"]] == "1"]
        if not flagged:
            continue
        und = undispatched(ops[:k + 1], snaps[:k + 1])
        if und:
            return "op %d (T): waker queue drained, worker(s) %s live, in rotation and flagged available, but connection(s) %s wait in the backlog" % (
                k, sorted(w["idx"] for w in flagged), sorted(und))
    return None


def has_fault(case, model_trace):
    return "F" in [e[0] for sn in parse_trace(model_trace) if not sn.bad for e in sn.events]


def bfs_scripts(configs, depth, maxn, flags):
    """breadth-first enumeration of the MODEL's state space (ocaml/server/driver bfs): one script per transition of the graph explored to
    `depth` operations, for each configuration (W, L, kinds)"""
    out = []
    info = []
    for (W, L, K) in configs:
        req = "W=%d;L=%d;K=%s;depth=%d;max=%d;flags=%s\n" % (W, L, K, depth, maxn, flags)
        p = subprocess.run([DRIVER, "bfs"], input=req, stdout=subprocess.PIPE, stderr=subprocess.PIPE, text=True, timeout=900)
        lines = [l for l in p.stdout.split("\n") if l]
        out += lines
        info.append("%s: %s" % (req.strip(), p.stderr.strip()))
    return out, info


def bfs_stream(ctx, pred, flags, nontrivial, quick_depth=6, thorough_depth=9, guarded=None):
    if ctx.tier == "quick":
        configs = [(1, 1, "T"), (2, 1, "T"), (2, 2, "U"), (1, 2, "TU")]
        depth, maxn = quick_depth, 4000
    else:
        configs = [(w, l, k) for w in (1, 2, 3) for l in (1, 2) for k in ("T", "U")] + [(2, 1, "TU"), (2, 3, "T"), (1, 4, "T")]
        depth, maxn = thorough_depth, 150000
    cases, info = bfs_scripts(configs, depth, maxn, flags)
    st = make_stream("bfs", cases, pred,
                     "model-guided breadth-first enumeration, depth %d, flags '%s': one script per transition of the model's state graph; %s"
                     % (depth, flags, "; ".join(info)), nontrivial, guarded)
    st.exhaustive = all("%d scripts" % maxn not in i for i in info)
    return st


# ---------------------------------------------------------------------------------------------------
# end-to-end stream through the REAL ServerBuilder/Server/accept thread/worker threads ("bld")
#   model side: ocaml/server/driver bld (extracted Model/Srv.v + Model/Builder.v, settled after every op)
#   implementation side: harness/h_server bld (public API only; real threads, real time, real EMFILE)
# ---------------------------------------------------------------------------------------------------
BLD_CHAINS = ["l", "u", "l,u", "b1", "b2", "v,l", "l,b2,u", "u,v", "b2,l", "l,l"]


def bld_cases(ctx, n, flags_choices, ws=(1, 2, 3), ls=(1, 2, 3), lens=(8, 14, 20)):
    reqs = []
    for _ in range(n):
        fl = ctx.rng.choice(flags_choices)
        # K (a service call that panics), X (a service that is built again) and D need the plain-Tokio start-up when there are
        # several workers: only there the worker threads carry their index in their name; with one worker the index is 0 anyway,
        # and the worker runs on an Arbiter half of the time (its teardown after a fault is a different code path)
        seed, W = ctx.rng.randrange(10 ** 9), ctx.rng.choice(ws)
        reqs.append("seed=%d;W=%d;L=%d;B=%s;S=%s;len=%d;flags=%s" % (
            seed, W, ctx.rng.choice(ls), ctx.rng.choice(BLD_CHAINS),
            "t" if (("k" in fl or "x" in fl or "d" in fl) and W > 1) else ctx.rng.choice("at"), ctx.rng.choice(lens), fl))
    p = subprocess.run([DRIVER, "bldgen"], input="\n".join(reqs) + "\n", stdout=subprocess.PIPE, text=True, timeout=600)
    raw = [l for l in p.stdout.split("\n") if l]
    assert len(raw) == len(reqs) and not any(l.startswith("DRIVER_ERROR") for l in raw), "bldgen failed: %s" % raw[:2]
    return bld_annotate(raw)


def bld_annotate(raw):
    """append the model's output as the `exp=` field (the harness waits for the expected number of service calls per op)"""
    raw = [c.split(";exp=")[0] for c in raw]
    p = subprocess.run([DRIVER, "bld"], input="\n".join(raw) + "\n", stdout=subprocess.PIPE, text=True, timeout=600)
    exp = [l for l in p.stdout.split("\n") if l]
    assert len(exp) == len(raw), "model produced %d results for %d scenarios" % (len(exp), len(raw))
    return ["%s;exp=%s" % (c, e) for c, e in zip(raw, exp)]


def bld_strip(t):
    """without the retry count and without the `~new=..;by=..` information about service instances (not part of the model's output)"""
    return re.sub(r"~[^ ]*", "", t.split(" | retries=")[0])


class _Notes(str):
    """the error notes of a step ('!...'); .info = the `~new=<call>:<n>,..;by=<cid>:<0|1>,..` part, parsed"""
    info = None


def bld_parse_case(case):
    head = case.split(";exp=")[0]
    f = dict(kv.split("=", 1) for kv in head.split(";"))
    chain = f["B"].split(",")
    tok_call = []
    for i, it in enumerate(chain):
        tok_call += [i] * (int(it[1:]) if it[0] == "b" else 1)
    return int(f["W"]), int(f["L"]), tok_call, [o for o in f["ops"].split(" ") if o]


def bld_parse_trace(trace):
    """-> list of (op, [(cid, call, widx)], [in-progress per worker], notes) or None when unparsable"""
    out = []
    for s in trace.split(" | retries=")[0].split(" ; "):
        info = None
        if "~" in s:
            s, raw = s.split("~", 1)
            try:
                f = dict(x.split("=", 1) for x in raw.split(";"))
                info = {"new": {int(a): int(b) for a, b in (y.split(":") for y in f.get("new", "").split(",") if y)},
                        "by": {int(a): int(b) for a, b in (y.split(":") for y in f.get("by", "").split(",") if y)}}
            except Exception:  # noqa: BLE001
                return None
        if s.startswith("!"):
            out.append(("", [], [], s))
            continue
        if s.startswith("G=") or s.startswith("H="):
            v = s[2:].split("!")[0]
            rest = s[2 + len(v):]
            bad = {"early": "!graceful-stop-completed-with-connections-in-progress",
                   "never": "!graceful-stop-never-completed (not at shutdown_timeout either)"}.get(v, "")
            out.append(("G", [], [], bad + rest))
            continue
        m = re.match(r"^(\S+?)=([^/]*)/a([\d.]*)(.*)$", s)
        if not m:
            return None
        served = []
        for it in m.group(2).split(","):
            if it:
                if it.startswith("x@") or it.endswith("@drop"):
                    continue
                mm = re.match(r"^(\d+)@(-?\d+)w(\d+)$", it)
                if not mm:
                    return None
                served.append((int(mm.group(1)), int(mm.group(2)), int(mm.group(3))))
        notes = _Notes(m.group(4))
        notes.info = info
        out.append((m.group(1), served, [int(x) for x in m.group(3).split(".") if x], notes))
    return out


def bld_pred(which):
    """property predicates on the IMPLEMENTATION's end-to-end trace; `which` selects the clauses (by property id)"""
    def pred(case, trace, model=False):
        """model=True: the trace is the model's own (it carries no information about service instances)"""
        W, L, tok_call, ops = bld_parse_case(case)
        steps = bld_parse_trace(trace)
        if steps is None:
            return "unparsable trace: %s" % trace[:120]
        cid = 0
        tok_of = {}
        served_at = {}
        finished = set()
        paused = False
        backoff = False
        rr_prev = None
        faulted = False
        blocked = False       # ops B / b: the services answer Pending to their readiness checks (back-pressure)
        armed_call = None     # ops X / Y / x: the service of this builder call fails its next readiness check(s)
        armed_n = 1
        rot = []              # workers of the most recent connections dispatched one at a time with no worker at its limit
        for k, (op, served, act, notes) in enumerate(steps):
            if notes:
                # '!' notes: a service call that did not start/end within 30 s, an unacknowledged command, a connect error, a second
                # delivery of one connection, a server that does not stop
                if "C01" in which or "did-not-start" in notes and ("C03" in which or "C05" in which) or "C05" in which and ("pause" in notes or "resume" in notes):
                    return "step %d (%s): %s" % (k, op or "end", notes)
            if notes and "C08" in which:
                return "step %d (%s): %s" % (k, op or "end", notes)
            if notes and "C06" in which and ("graceful-stop" in notes or "did-not-stop" in notes):
                return "step %d (%s): %s" % (k, op or "end", notes)
            if op == "G":
                continue
            if not op:
                continue
            if op == "D":
                faulted = True
            elif op[0] in "KJ":
                cid += 1
                faulted = True
                tok_of[cid] = int(op[1:].split(":")[0])
                served_at[cid] = k      # its service call panicked
                if op[0] == "J":
                    cid += 1
                    tok_of[cid] = int(op[1:].split(":")[1])
            elif op[0] in "cEAXYS":
                cid += 1
                tok_of[cid] = int(op[1:])
                if op[0] in "XY":
                    armed_call = tok_call[int(op[1:])]
                    armed_n = 2 if op[0] == "Y" else 1
                if op[0] == "A":
                    finished.add(cid)      # an abortive client: its service call ends by itself
                if op[0] == "E":
                    backoff = True
            elif op[0] in "fFz":
                finished.add(int(op[1:]))
            elif op == "P":
                paused = True
            elif op == "R":
                paused = False
            elif op[0] == "Q":
                # commands issued back to back take effect in order: the last one decides; a dispatch during the burst is legitimate
                # iff the burst contains a Resume
                burst_resumes = "R" in op[1:]
                paused = op[-1] == "P"
            elif op[0] == "+":
                backoff = False
            elif op[0] == "x":
                armed_call = tok_call[int(op[1:])]
                armed_n = 1
            elif op == "B":
                blocked = True
            elif op == "b":
                blocked = False
            for (c, call, w) in served:
                if "C01" in which:
                    if c in served_at:
                        return "step %d (%s): connection %d reached a service call twice" % (k, op, c)
                    if c not in tok_of:
                        return "step %d (%s): a service call for unknown connection id %d" % (k, op, c)
                    if tok_call[tok_of[c]] != call:
                        return "step %d (%s): connection %d to listener token %d (builder call %d) was handed to the service of builder call %d" % (
                            k, op, c, tok_of[c], tok_call[tok_of[c]], call)
                    if w >= W:
                        return "step %d (%s): connection %d served by worker %d of %d" % (k, op, c, w, W)
                served_at.setdefault(c, k)
                # (a call that starts at `b` was dispatched before: while the services were not ready the worker left it in its queue)
                if "C05" in which and paused and op not in ("R", "b") and not (op[0] == "Q" and burst_resumes):
                    return "step %d (%s): connection %d dispatched while the server was paused" % (k, op, c)
            # C04/C08, with or without faults: once a replacement has joined, the rotation goes on — any W consecutive connections that
            # are dispatched one at a time while no worker is at its limit go to W distinct workers (the order of the rotation may
            # have changed with the replacement, its period has not)
            if ("C04" in which or "C08" in which) and W >= 2 and L > 1:
                if op and op[0] in "KJED" or blocked or paused or len(served) > 1 or any(a >= L for a in act[:W]) or len(act) < W:
                    rot = []
                elif len(served) == 1 and op[0] in "cS":
                    rot.append(served[0][2])
                    if len(rot) >= W and len(set(rot[-W:])) < W:
                        return "step %d (%s): the last %d connections went to workers %s although no worker was at its limit (%s): not a rotation over %d workers" % (
                            k, op, W, rot[-W:], act, W)
                elif op and op[0] not in "fz+":
                    rot = []
            if faulted:
                continue       # C02/C03/C04 speak about runs without a worker fault
            if "C02" in which and any(a > L for a in act):
                return "step %d (%s): in progress per worker %s, limit %d" % (k, op, act, L)
            pending = [c for c in tok_of if c not in served_at]
            # service instances are created after start-up only to replace a service whose readiness check failed (that service alone,
            # from its own factory, once) or for a replacement worker (ops K / J)
            info = getattr(notes, "info", None)
            if "C07" in which and op and op[0] not in "KJD" and not faulted and not model:
                new = (info or {}).get("new", {})
                if armed_call is not None and (op[0] in "XY" or (op == "b")):
                    if new != {armed_call: armed_n}:
                        return "step %d (%s): the service of builder call %d failed %d readiness check(s); instances created: %s (expected exactly %d of that call)" % (
                            k, op, armed_call, armed_n, new or "none", armed_n)
                    if op[0] in "XY" and (info or {}).get("by", {}).get(cid) != 1:
                        return "step %d (%s): connection %d was not served by the re-created service instance (%s)" % (k, op, cid, (info or {}).get("by"))
                    armed_call = None
                elif new:
                    return "step %d (%s): service instances created although no readiness check failed and no worker was replaced: %s" % (k, op, new)
            if blocked and served and "C07" in which:
                return "step %d (%s): service call(s) %s started while every service answered Pending to its readiness check" % (k, op, served)
            if pending and not paused and not backoff and not blocked and op[0] != "E" and any(a < L for a in act[:W]) and len(act) >= W:
                if "C03" in which or ("C05" in which and (op == "R" or op[0] in "+Q")):
                    return "step %d (%s): connection(s) %s wait although the server runs and in progress per worker is %s with limit %d" % (
                        k, op, pending, act, L)
            if "C04" in which and served:
                # round-robin: while no worker is at its limit before the op, consecutive connections go to consecutive workers
                for (c, call, w) in served:
                    if rr_prev is not None and rr_prev[1] and all(a < L for a in rr_prev[1]) and len(served) == 1 and L > 1:
                        exp_w = (rr_prev[0] + 1) % W
                        if w != exp_w and rr_prev[1][exp_w] < L:
                            return "step %d (%s): connection %d went to worker %d, the previous one to %d (no worker was at its limit: %s)" % (
                                k, op, c, w, rr_prev[0], rr_prev[1])
                    rr_prev = (w, None)
            if rr_prev is not None:
                rr_prev = (rr_prev[0], act)
        return None
    return pred


def bld_probe(case, impl_trace, model_trace):
    """continuation of an end-to-end scenario on which implementation and model disagree, built from the IMPLEMENTATION's trace:
    every client whose service call the implementation reported is closed (F<cid>: lenient finish), the server is resumed if the
    scenario left it paused, a back-off is waited out, and one fresh client connects to every listener.  With capacity free and the
    server running each of them must then be served (clause C03/C05 of bld_pred) by the right service (C01), within the limit (C02)."""
    return _bld_probe(case, impl_trace, False)


def bld_probe_faults(case, impl_trace, model_trace):
    """the same for scenarios in which workers died (C08): everything is closed, and then as many fresh clients connect to the
    first listener as fit below the limit of every worker (W * (L - 1), at most 2 W): if a dead worker was not replaced the
    rotation over W workers is broken (rotation clause of bld_pred)"""
    return _bld_probe(case, impl_trace, True)


def _bld_probe(case, impl_trace, faults):
    W, L, tok_call, ops = bld_parse_case(case)
    steps = bld_parse_trace(impl_trace)
    if not steps or not ops or ops[-1][0] in "GH" or any(o[0] in ("D" if faults else "KJD") for o in ops):
        return []
    served, closed, paused, cid = set(), set(), False, 0
    for o in ops:
        if o[0] in "KJ":
            cid += 1
            closed.add(cid)          # the poisoned client
            if o[0] == "J":
                cid += 1
        elif o[0] in "cEAXYS":
            cid += 1
            if o[0] == "A":
                closed.add(cid)
        elif o[0] in "fFz":
            closed.add(int(o[1:]))
        elif o == "P":
            paused = True
        elif o == "R":
            paused = False
        elif o[0] == "Q":
            paused = o[-1] == "P"
    for (_, sv, _, _) in steps:
        served.update(c for (c, _, _) in sv)
    cont = ["F%d" % c for c in range(1, cid + 1) if c not in closed]
    if paused:
        cont.append("R")
    if any(o[0] == "E" for o in ops):
        cont.append("+600")
    if faults:
        cont += ["c0"] * min(2 * W, W * (L - 1))
    else:
        cont += ["c%d" % t for t in range(len(tok_call))]
    head = case.split(";exp=")[0]
    try:
        return bld_annotate([head + " " + " ".join(cont)])
    except Exception:  # noqa: BLE001
        return []


def bld_stream(ctx, which, flags_choices, n_quick, n_thorough, **kw):
    n = n_quick if ctx.tier == "quick" else n_thorough
    cases = bld_cases(ctx, n, flags_choices, **kw)
    pred = bld_pred(which)

    def monitor(c, i, m):
        return pred(c, i) is None or pred(c, m, True) is not None   # a clause the model itself does not satisfy gives no verdict

    def nontrivial(c, m):
        st = bld_parse_trace(m) or []
        W, L, _, _ = bld_parse_case(c)
        return any(a >= L for (_, _, act, _) in st for a in act) or any(op in ("P",) or op[:1] in ("E", "K", "J") for (op, _, _, _) in st)

    def shrink(case):
        # only PREFIXES of the scenario: the generator's guards (what may follow what) depend on the state the prefix leads to, so
        # every prefix of a generated scenario is one the generator could have produced — dropping operations from the middle is
        # not (seen once: an armed readiness failure left outside its back-pressure episode made the predicate fail for a reason
        # that has nothing to do with the code)
        head0, ops = case.split(";exp=")[0].split("ops=", 1)
        toks = ops.split(" ")
        n = len(toks)
        lens, k = [], n // 2
        while k < n and len(lens) < 8:
            lens.append(max(1, k))
            k += max(1, (n - k) // 2)
        for k in sorted(set(lens)):
            try:
                yield bld_annotate([head0 + "ops=" + " ".join(toks[:k])])[0]
            except Exception:  # noqa: BLE001
                continue

    st = Stream("bld", "bld", cases, compare=lambda i, m: bld_strip(i) == bld_strip(m), monitor=monitor, nontrivial=nontrivial,
                  shrink=shrink, timeout=900,
                  describe="%d end-to-end scenarios through the real ServerBuilder/Server (public API, real accept and worker threads, TCP and Unix "
                           "listeners via listen/bind/bind_uds/listen_uds, actix System and plain Tokio runtimes, pause/resume, real EMFILE via "
                           "RLIMIT_NOFILE); after each op the set of service calls that started (connection id, listener's service, worker index) and "
                           "the in-progress count per worker are compared with the settled model (extracted Srv.v + Builder.v)" % n)
    st.probe = bld_probe_faults if "C08" in which else bld_probe
    st.per_shard = 2   # a scenario takes about a second of real time
    st.prepare = lambda c: bld_annotate([c])[0]
    def stats(cases, impl, model):
        ops, chains, rts = {}, {}, {"a": 0, "t": 0}
        for c in cases:
            head = c.split(";exp=")[0]
            f = dict(kv.split("=", 1) for kv in head.split(";"))
            chains[f["B"]] = chains.get(f["B"], 0) + 1
            rts[f.get("S", "a")] = rts.get(f.get("S", "a"), 0) + 1
            for o in f["ops"].split():
                ops[o[0]] = ops.get(o[0], 0) + 1
        retried = sum(1 for i in impl if " | retries=" in i and not i.endswith("retries=0"))
        served = sum(len(x[1]) for m in model for x in (bld_parse_trace(m) or []))
        return {"ops_by_kind": ops, "builder_chains": chains, "runtime_actix_vs_tokio": rts, "service_calls_in_model_runs": served,
                "scenarios_needing_a_longer_quiet_period": retried}
    st.stats = stats
    st.shrink_budget = 10   # a failing end-to-end scenario can take many seconds
    return st
