(* Props/C11.v — service combinators compute exactly the documented composition.
   ONLY statements, each closed by `exact <lemma>` / `reflexivity`, non-vacuity Examples, and
   Print Assumptions.   Model: Model/Svc.v; proofs: Proofs/SvcFacts.v.

   Reading guide.  [sexpr] is a combinator tree over scripted leaves (ANY readiness script, ANY
   call behaviour Z -> nat * res); [run_call n w e req] is `e.call(req)` driven by the manual
   executor with fresh wakers w, w+1, ... and fuel n; [denote] is the reference composition,
   [delay] the number of Pending polls of the composition, [sem] the sequential reference log
   (leaf calls, leaf completions, closure applications) and [proj] the projection of an
   execution log onto those events (Pending polls and waker ids dropped). *)
From AN Require Import Model.Svc Proofs.SvcFacts.

(* Value: for every tree, request, start waker and sufficient fuel, the driven future resolves
   to the reference composition, after exactly delay+1 polls (never a panic, never stuck). *)
Theorem C11_value : forall e req w n, (delay e req < n)%nat ->
  fst (run_call n w e req) = (PReady (denote e req), S (delay e req)).
Proof. exact run_call_value. Qed.

(* Order / exactly-once: the calls of leaves, the completions of their futures and the closure
   applications occur in the log exactly as in the sequential reference log. *)
Theorem C11_order : forall e req w n, (delay e req < n)%nat ->
  proj (snd (run_call n w e req)) = sem e req.
Proof. exact run_call_order. Qed.

(* What the reference says, spelled out per combinator (all by definition):
   and_then runs b after a's events and only if a succeeded, with a's response ... *)
Theorem C11_ref_and_then : forall a b req,
  denote (AndThen a b) req = match denote a req with Ok v => denote b v | Err x => Err x end
  /\ sem (AndThen a b) req = sem a req ++ match denote a req with Ok v => sem b v | Err _ => [] end.
Proof. exact spec_ref_and_then. Qed.

(* ... map / map_err apply their closure exactly once, after the inner future completed, to the
   matching variant only ... *)
Theorem C11_ref_map : forall m a req,
  denote (Map m a) req = match denote a req with Ok v => Ok (app_m m v) | Err x => Err x end
  /\ sem (Map m a) req = sem a req ++ match denote a req with Ok v => [SMap KOk m v] | Err _ => [] end.
Proof. exact spec_ref_map. Qed.
Theorem C11_ref_map_err : forall m a req,
  denote (MapErr m a) req = match denote a req with Ok v => Ok v | Err x => Err (app_m m x) end
  /\ sem (MapErr m a) req = sem a req ++ match denote a req with Ok _ => [] | Err x => [SMap KErr m x] end.
Proof. exact spec_ref_map_err. Qed.

(* ... apply_fn hands the request and the inner service to the closure; for the harness closure
   "pre-map the request, call the service once, post-map an Ok response" ... *)
Theorem C11_ref_apply_fn : forall pre post a req,
  denote (ApplyFn (WPrePost pre post) a) req
  = match denote a (app_m pre req) with Ok v => Ok (app_m post v) | Err x => Err x end
  /\ sem (ApplyFn (WPrePost pre post) a) req
     = SMap KPre pre req :: sem a (app_m pre req)
       ++ match denote a (app_m pre req) with Ok v => [SMap KPost post v] | Err _ => [] end.
Proof. exact spec_ref_apply_fn. Qed.
Theorem C11_ref_apply_fn_skip : forall r a req,
  denote (ApplyFn (WSkip r) a) req = r /\ sem (ApplyFn (WSkip r) a) req = [].
Proof. exact spec_ref_apply_fn_skip. Qed.

(* ... and Box<dyn>, Rc<dyn>, Rc, Box, &, &mut, RefCell are transparent: same value, same log,
   same readiness. *)
Theorem C11_wrappers_transparent : forall k a,
  (forall n w req, run_call n w (Wrap k a) req = run_call n w a req)
  /\ (forall req, denote (Wrap k a) req = denote a req)
  /\ (forall w, poll_ready (Wrap k a) w = let '(a', r, l) := poll_ready a w in (Wrap k a', r, l)).
Proof. exact spec_wrappers_transparent. Qed.

(* non-vacuity: a depth-3 tree with delayed leaves, an erroring second stage and all closure kinds *)
Definition ex_leaf0 := Leaf 0 [RPending; ROk] (fun r => (2%nat, Ok (r + 5))).
Definition ex_leaf1 := Leaf 1 [] (fun r => (1%nat, if r =? 6 then Err 7 else Ok (r * 2))).
Definition ex_tree := MapErr (MTag 1) (AndThen (Wrap WRc ex_leaf0) (ApplyFn (WPrePost (MAdd 1) (MMul 3)) ex_leaf1)).
Example C11_example_ok :
  run_call 10 0 ex_tree 1
  = (PReady (Ok 42), 4%nat,
     [EvCall 0 1; EvPoll 0 0 PPending; EvPoll 0 1 PPending; EvPoll 0 2 (PReady (Ok 6));
      EvMap KPre (MAdd 1) 6; EvCall 1 7; EvPoll 1 2 PPending; EvPoll 1 3 (PReady (Ok 14));
      EvMap KPost (MMul 3) 14])
  /\ denote ex_tree 1 = Ok 42 /\ delay ex_tree 1 = 3%nat.
Proof. vm_compute. repeat split. Qed.
Example C11_example_err :
  run_call 10 0 ex_tree 0
  = (PReady (Err 71), 4%nat,
     [EvCall 0 0; EvPoll 0 0 PPending; EvPoll 0 1 PPending; EvPoll 0 2 (PReady (Ok 5));
      EvMap KPre (MAdd 1) 5; EvCall 1 6; EvPoll 1 2 PPending; EvPoll 1 3 (PReady (Err 7));
      EvMap KErr (MTag 1) 7])
  /\ sem ex_tree 0 = [SCall 0 0; SDone 0 (Ok 5); SMap KPre (MAdd 1) 5; SCall 1 6; SDone 1 (Err 7); SMap KErr (MTag 1) 7].
Proof. vm_compute. repeat split. Qed.

(* ------------------------------- factory forms ------------------------------------------- *)
(* [run_new n w f c]: `f.new_service(c)` driven by the executor; [fsem f c] = (number of Pending
   rounds, what comes out: the composed service expression or the first init error);
   [fleaves f c]: every leaf factory of f with the config it must be built with;
   [new_events l]: the (leaf factory, config) pairs of the `new_service` calls logged in l. *)

(* Value: the factory future resolves, after exactly fst(fsem)+1 polls, to the reference result:
   the composed SERVICE EXPRESSION (to which C11_value / C12_* apply again) or the init error. *)
Theorem C11_factory_value : forall f c w n, (fst (fsem f c) < n)%nat ->
  fst (run_new n w f c) = (IReady (snd (fsem f c)), S (fst (fsem f c))).
Proof. exact run_new_value. Qed.

(* Each inner leaf factory is invoked exactly once, with the supplied (mapped / unit) config,
   in creation order — for any fuel, whether or not the construction succeeds. *)
Theorem C11_factory_once : forall f c w n, new_events (snd (run_new n w f c)) = fleaves f c.
Proof. exact run_new_once. Qed.

(* The reference, spelled out (all by definition).  and_then joins both inner futures: the
   result is ready when both are, and the first init error in (poll round, position) order wins. *)
Theorem C11_ref_factory_and_then : forall a b c ka kb sa sb ea eb,
  fsem (FAndThen a b) c = fjoin (fsem a c) (fsem b c)
  /\ fjoin (ka, IOk sa) (kb, IOk sb) = (Nat.max ka kb, IOk (AndThen sa sb))
  /\ fjoin (ka, IErr ea) (kb, IOk sb) = (ka, IErr ea)
  /\ fjoin (ka, IOk sa) (kb, IErr eb) = (kb, IErr eb)
  /\ fjoin (ka, IErr ea) (kb, IErr eb) = (if (ka <=? kb)%nat then (ka, IErr ea) else (kb, IErr eb)).
Proof. exact spec_ref_factory_and_then. Qed.

(* map / map_err / apply_fn_factory wrap the built service; map_init_err maps only the init error;
   boxed::factory boxes the service; Rc / Arc factories are transparent. *)
Theorem C11_ref_factory_wrappers : forall sw m k a c,
  fsem (FMapSvc sw a) c = (let '(n, r) := fsem a c in (n, imap (sw_app sw) r))
  /\ fsem (FMapInitErr m a) c = (let '(n, r) := fsem a c in (n, imap_err m r))
  /\ fsem (FWrap FWBoxed a) c = (let '(n, r) := fsem a c in (n, imap (Wrap WBoxed) r))
  /\ (k <> FWBoxed -> fsem (FWrap k a) c = fsem a c).
Proof. exact spec_ref_factory_wrappers. Qed.

(* config routing: map_config maps it (once, see C11_factory_once), unit_config and
   apply_cfg_factory build the inner factory with (), and_then gives the same config to both *)
Theorem C11_ref_factory_config : forall m a b cs c,
  fleaves (FMapConfig m a) c = fleaves a (map_cfg m c)
  /\ fleaves (FUnitConfig a) c = fleaves a None
  /\ fleaves (FApplyCfgFactory a cs) c = fleaves a None
  /\ fleaves (FAndThen a b) c = fleaves a c ++ fleaves b c
  /\ fsem (FMapConfig m a) c = fsem a (map_cfg m c)
  /\ fsem (FUnitConfig a) c = fsem a None.
Proof. exact spec_ref_factory_config. Qed.

(* apply_cfg_factory = create, wait ready, configure (State A -> B -> C): the rounds add up, a
   creation error or a readiness error ends it, and the closure gets the config and the service
   in the state the readiness wait left it in. *)
Theorem C11_ref_apply_cfg_factory : forall a cs c,
  fsem (FApplyCfgFactory a cs) c =
  (let '(ka, ra) := fsem a None in
   match ra with
   | IErr e => (ka, IErr e)
   | IOk s =>
       let '(kr, rr, s') := wait_ready (S (script_len s)) s in
       match rr with
       | RErr e => ((ka + kr)%nat, IErr e)
       | _ => ((ka + kr + c_k cs)%nat, cfg_out cs c s')
       end
   end).
Proof. reflexivity. Qed.
(* the readiness wait always ends (its fuel is never exhausted) *)
Theorem C11_wait_ready_ends : forall n e, (script_len e < n)%nat -> snd (fst (wait_ready n e)) <> RPending.
Proof. exact wait_ready_enough. Qed.

(* Transform application = build the inner service, then new_transform on it (A -> B); the
   factory's init error is passed through untouched, the transform's own init error goes through
   TransformExt::map_init_err when present. *)
Theorem C11_ref_apply_transform : forall t a c,
  fsem (FApplyTransform t a) c =
  (let '(ka, ra) := fsem a c in
   match ra with
   | IErr e => (ka, IErr e)
   | IOk s => ((ka + t_k t)%nat, match t_mie t with Some m => imap_err m (tr_out t s) | None => tr_out t s end)
   end).
Proof. reflexivity. Qed.

(* non-vacuity: concurrent init with a later error on the left, and create/wait/configure *)
Definition ex_lf (id : nat) (k : nat) (r : ires) : fexpr := FLeafF id LDirect (fun _ => (k, r)).
Example C11_example_factory_err :
  run_new 10 0 (FAndThen (ex_lf 0 2 (IErr 5)) (FMapInitErr (MTag 1) (ex_lf 1 1 (IErr 6)))) (Some 3)
  = (IReady (IErr 61), 2%nat,
     [EvNew 0 (Some 3); EvNew 1 (Some 3); EvInit 0 0 true; EvInit 1 0 true; EvInit 0 1 true; EvInit 1 1 false;
      EvMap KInit (MTag 1) 6]).
Proof. vm_compute. reflexivity. Qed.
Example C11_example_cfg_factory :
  let f := FApplyCfgFactory (FUnitConfig (ex_lf 0 1 (IOk ex_leaf0))) {| c_id := 9; c_k := 1; c_fail := None |} in
  run_new 10 0 f (Some 4)
  = (IReady (IOk (Map (MAdd 4) (Wrap WRc (Leaf 0 [] (fun r => (2%nat, Ok (r + 5))))))), 4%nat,
     [EvNew 0 None; EvInit 0 0 true; EvInit 0 1 false; EvReady 0 1 RPending; EvReady 0 2 ROk;
      EvCfgFn 9 (Some 4); EvInit 9 2 true; EvInit 9 3 false])
  /\ fsem f (Some 4) = (3%nat, IOk (Map (MAdd 4) (Wrap WRc (Leaf 0 [] (fun r => (2%nat, Ok (r + 5))))))).
Proof. vm_compute. split; reflexivity. Qed.

Print Assumptions C11_value.
Print Assumptions C11_order.
Print Assumptions C11_ref_and_then.
Print Assumptions C11_ref_map.
Print Assumptions C11_ref_map_err.
Print Assumptions C11_ref_apply_fn.
Print Assumptions C11_ref_apply_fn_skip.
Print Assumptions C11_wrappers_transparent.
Print Assumptions C11_factory_value.
Print Assumptions C11_factory_once.
Print Assumptions C11_ref_factory_and_then.
Print Assumptions C11_ref_factory_wrappers.
Print Assumptions C11_ref_factory_config.
Print Assumptions C11_ref_apply_cfg_factory.
Print Assumptions C11_wait_ready_ends.
Print Assumptions C11_ref_apply_transform.
