(* Proofs/ChanPinned.v — the channel AS PINNED (before /repo 0de8a5f, defect D5) and the
   refutation of C16 on it.  Not a dependency of Props/C16.v; kept as the machine-checked record
   of what failed.  The witnesses are the histories of corpus/C16/c16.cases, replayed on the
   pinned real code with harness/h_local (traces in notes/local.md). *)
From AN Require Import Model.Chan.

(* pinned Sender::close: `self.shared.borrow_mut().has_receiver = false;` *)
Definition pinned_close (s : shared) : shared * list waker :=
  (mkShared (buffer s) (blocked_recv s) false, []).

(* pinned poll_next: `if Rc::strong_count(&self.shared) == 1 { return Ready(pop_front()) }` *)
Definition pinned_poll_next (s : shared) (strong : nat) (w : waker) : shared * pollres :=
  if Nat.eqb strong 1 then
    match buffer s with
    | v :: b => (mkShared b (blocked_recv s) (has_receiver s), Item v)
    | [] => (s, Finished)
    end
  else
    match buffer s with
    | v :: b => (mkShared b (blocked_recv s) (has_receiver s), Item v)
    | [] => (mkShared [] (fst (lw_register (blocked_recv s) w)) (has_receiver s), Pending)
    end.

Definition pinned_step (c : chan) (o : chan_op) : chan * chan_obs :=
  if valid (hd c) o then
    match o with
    | Close _ => let '(s, ws) := pinned_close (sh c) in (mkChan s (h_step (hd c) o), Obs RUnit ws)
    | PollRecv w =>
        let '(s, r) := pinned_poll_next (sh c) (strong_count (hd c)) w in
        (mkChan s (h_step (hd c) o), Obs (RPoll r) [])
    | _ => chan_step c o
    end
  else (c, Obs RInvalid []).

Fixpoint pinned_run_from (c : chan) (s : list chan_op) : list chan_obs :=
  match s with
  | [] => []
  | o :: s' => let '(c', ob) := pinned_step c o in ob :: pinned_run_from c' s'
  end.
Definition pinned_run (s : list chan_op) := pinned_run_from chan_init s.

(* close does not wake the parked receiver *)
Lemma C16_wake_refuted_pinned : exists s, wake_ok s (pinned_run s) = false.
Proof. exists [PollRecv 0; Close 0]. vm_compute. reflexivity. Qed.

(* a closed channel with a live sender never ends: Pending instead of end of stream *)
Lemma C16_end_refuted_pinned : exists s, end_ok s (pinned_run s) = false.
Proof. exists [Close 0; PollRecv 0]. vm_compute. reflexivity. Qed.

(* the traces the pinned real code produced (harness/h_local c16 on /repo e02a036) *)
Example pinned_trace_1 : pinned_run [PollRecv 0; Close 0; DropSender 0; PollRecv 0]
  = [Obs (RPoll Pending) []; Obs RUnit []; Obs RUnit []; Obs (RPoll Finished) []].
Proof. vm_compute. reflexivity. Qed.
Example pinned_trace_2 : pinned_run [Send 0 1; Close 0; PollRecv 0; PollRecv 0; PollRecv 1]
  = [Obs (RSent true) []; Obs RUnit []; Obs (RPoll (Item 1)) []; Obs (RPoll Pending) []; Obs (RPoll Pending) []].
Proof. vm_compute. reflexivity. Qed.
