(* Props/C02.v — per-worker concurrency never exceeds max_concurrent_connections.
   ONLY statements, each closed by `exact <lemma>`, with Print Assumptions. *)
From Coq Require Import List ZArith Bool.
From AN Require Import Model.Srv Proofs.SrvInv Proofs.SrvTheorems.
From AN Require Proofs.SrvPick.
Import ListNotations.

(* For every limit L >= 1, every number of workers (up to the documented 512), every set of listeners and
   every script of accept-thread calls and environment steps in which no worker faults — including any
   worker/client/command activity scheduled at the yield point between `send(conn)` and `inc_counter()`
   of any dispatch —: the accept loop neither panics nor spins, and at every step boundary every worker
   has at most L connections in progress (queued + picked up). *)
Theorem C02_limit : forall (L : Z) W kinds os,
  (1 <= L)%Z -> 1 <= W <= 512 ->
  forallb nf_op os = true -> forallb (tok_ok (length kinds)) os = true ->
  let st := run L (init W kinds) os in
  err st = None /\
  forall g w, nth_error (ws st) g = Some w ->
    (Z.of_nat (length (w_queue w)) + Z.of_nat (length (w_picked w)) <= L)%Z.
Proof. exact limit_all_runs. Qed.

(* The bound also holds inside a dispatch, at the yield point (one worker "in the gap": its connection is
   queued but not yet counted), whatever the other threads do there: the invariant with a gap is preserved
   by every fault-free environment step and implies the bound. *)
Theorem C02_limit_at_yield : forall (L : Z) nl g0 st os g w,
  (1 <= L)%Z -> Inv L nl (Some g0) st -> forallb nf_eop os = true ->
  nth_error (ws (env_steps L st os)) g = Some w ->
  (Z.of_nat (length (w_queue w)) + Z.of_nat (length (w_picked w)) <= L)%Z.
Proof. exact limit_at_yield. Qed.

(* non-vacuity: limit 1, two workers, three clients; worker 0 picks up and finishes its connection
   inside the yield point of the second dispatch (before the accept thread has counted the first). *)
Example C02_example :
  let os := [E (Connect 0 1); E (Connect 0 2); E (Connect 0 3);
             Turn [[Pick 0; Finish 0 1]; []]; Turn []; Turn []] in
  forallb nf_op os = true /\ forallb (tok_ok 1) os = true /\
  map (fun w => (length (w_queue w), length (w_picked w))) (ws (run 1 (init 2 [false]) os)) = [(1, 0); (1, 0)].
Proof. vm_compute. repeat split. Qed.

(* "Connections beyond the limit stay in the listener backlog instead of being dispatched": in every reachable fault-free state in
   which every worker has exactly L connections in progress no worker is flagged available, and an accept call on any
   listener — whatever waits in its backlog, whatever is scheduled — returns the state unchanged: nothing is taken from the
   backlog, nothing is dispatched. *)
Theorem C02_saturated_unavailable : forall (L : Z) W kinds os,
  (1 <= L)%Z -> 1 <= W <= 512 ->
  forallb nf_op os = true -> forallb (tok_ok (length kinds)) os = true ->
  let st := run L (init W kinds) os in
  (forall g w, nth_error (ws st) g = Some w ->
     (Z.of_nat (length (w_queue w)) + Z.of_nat (length (w_picked w)) = L)%Z) ->
  available (av st) = false.
Proof. exact saturated_unavailable. Qed.

Theorem C02_beyond_limit_stays : forall (L : Z) W kinds os tok ys,
  (1 <= L)%Z -> 1 <= W <= 512 ->
  forallb nf_op os = true -> forallb (tok_ok (length kinds)) os = true ->
  let st := run L (init W kinds) os in
  (forall g w, nth_error (ws st) g = Some w ->
     (Z.of_nat (length (w_queue w)) + Z.of_nat (length (w_picked w)) = L)%Z) ->
  accept L st tok ys = (st, ys).
Proof. exact saturated_accept_noop. Qed.

(* non-vacuity: limit 1, two workers, both saturated, a third client waits; the listener event changes nothing *)
Example C02_stays_example :
  let os := [E (Connect 0 1); E (Connect 0 2); Turn []; E (Connect 0 3)] in
  let st := run 1 (init 2 [false]) os in
  forallb nf_op os = true /\ forallb (tok_ok 1) os = true /\
  map (fun w => length (w_queue w) + length (w_picked w)) (ws st) = [1; 1] /\
  map l_backlog (lsts (fst (accept 1 st 0 []))) = [[3%N]].
Proof. vm_compute. repeat split. Qed.

(* A worker picking a connection up from its queue is invisible to the accept side and to the log: it moves the oldest queued
   connection to the picked list of that worker generation and changes nothing else, so WHEN workers pick up (at once, or only
   after a back-pressure episode of their services) does not influence any count the accept thread works with. *)
Theorem C02_pick_invisible : forall (L : Z) st g,
  let st' := env_step L st (Pick g) in
  map SrvPick.wview (ws st') = map SrvPick.wview (ws st) /\
  trace st' = trace st /\ handles st' = handles st /\ next st' = next st /\ av st' = av st /\ paused st' = paused st /\
  ptimeout st' = ptimeout st /\ lsts st' = lsts st /\ wq st' = wq st /\ wpend st' = wpend st /\ now st' = now st /\
  stopped st' = stopped st /\ err st' = err st.
Proof. exact SrvPick.pick_only_moves. Qed.

Print Assumptions C02_limit.
Print Assumptions C02_limit_at_yield.
Print Assumptions C02_saturated_unavailable.
Print Assumptions C02_beyond_limit_stays.
Print Assumptions C02_pick_invisible.
