import subprocess, sys, json, re, os
WT='/tmp/wt_local'
MUTS = {
 # ---- local-channel ----
 'M1_revert_D5_fix': ('C16', 'GITREVERT', None, None),
 'M2_send_wakes_only_if_buffer_was_empty': ('C16', 'local-channel/src/mpsc.rs',
    "        shared.buffer.push_back(item);\n        shared.blocked_recv.wake();\n",
    "        let was_empty = shared.buffer.is_empty();\n        shared.buffer.push_back(item);\n        if was_empty {\n            shared.blocked_recv.wake();\n        }\n"),
 'M3_send_wakes_only_if_buffer_was_nonempty': ('C16', 'local-channel/src/mpsc.rs',
    "        shared.buffer.push_back(item);\n        shared.blocked_recv.wake();\n",
    "        let was_empty = shared.buffer.is_empty();\n        shared.buffer.push_back(item);\n        if !was_empty {\n            shared.blocked_recv.wake();\n        }\n"),
 'M4_sender_drop_count_eq_1': ('C16', 'local-channel/src/mpsc.rs',
    "if shared.has_receiver && count == 2 {", "if shared.has_receiver && count == 1 {"),
 'M5_sender_drop_ignores_has_receiver': ('C16', 'local-channel/src/mpsc.rs',
    "if shared.has_receiver && count == 2 {", "if count == 2 {"),
 'M6_poll_next_ends_with_one_sender': ('C16', 'local-channel/src/mpsc.rs',
    "if Rc::strong_count(&self.shared) == 1 || !shared.has_receiver {", "if Rc::strong_count(&self.shared) <= 2 || !shared.has_receiver {"),
 'M7_send_pushes_before_closed_check': ('C16', 'local-channel/src/mpsc.rs',
    "        if !shared.has_receiver {\n            // receiver was dropped\n            return Err(SendError(item));\n        };\n\n        shared.buffer.push_back(item);\n",
    "        if !shared.has_receiver && !shared.buffer.is_empty() {\n            // receiver was dropped\n            return Err(SendError(item));\n        };\n\n        shared.buffer.push_back(item);\n"),
 'M8_closed_end_without_drain': ('C16', 'local-channel/src/mpsc.rs',
    "            return Poll::Ready(shared.buffer.pop_front());\n", "            if !shared.has_receiver {\n                return Poll::Ready(None);\n            }\n            return Poll::Ready(shared.buffer.pop_front());\n"),
 'M9_close_wakes_only_if_two_handles': ('C16', 'local-channel/src/mpsc.rs',
    "        // Wake up receiver as its stream ends once the buffered messages are drained\n        shared.blocked_recv.wake();\n",
    "        if Rc::strong_count(&self.shared) == 2 {\n            shared.blocked_recv.wake();\n        }\n"),
 'M10_receiver_sender_resets_open_flag': ('C16', 'local-channel/src/mpsc.rs',
    "    pub fn sender(&self) -> Sender<T> {\n", "    pub fn sender(&self) -> Sender<T> {\n        self.shared.borrow_mut().has_receiver = true;\n"),
 'M11_poll_keeps_first_waker': ('C16', 'local-channel/src/mpsc.rs',
    "            shared.blocked_recv.register(cx.waker());\n            Poll::Pending\n",
    "            if let Some(w) = shared.blocked_recv.take() {\n                shared.blocked_recv.register(&w);\n            } else {\n                shared.blocked_recv.register(cx.waker());\n            }\n            Poll::Pending\n"),
 'M12_pop_back_when_three_buffered': ('C16', 'local-channel/src/mpsc.rs',
    "        if let Some(msg) = shared.buffer.pop_front() {", "        if let Some(msg) = if shared.buffer.len() >= 3 { shared.buffer.pop_back() } else { shared.buffer.pop_front() } {"),
 'M13_pop_back_when_seven_buffered': ('C16', 'local-channel/src/mpsc.rs',
    "        if let Some(msg) = shared.buffer.pop_front() {", "        if let Some(msg) = if shared.buffer.len() >= 7 { shared.buffer.pop_back() } else { shared.buffer.pop_front() } {"),
 'M14_last_sender_drop_no_wake_when_created_by_receiver': ('C16', 'local-channel/src/mpsc.rs',
    "    pub fn sender(&self) -> Sender<T> {\n", "    pub fn sender(&self) -> Sender<T> {\n        let _ = self.shared.borrow().blocked_recv.take();\n"),
 'N8_wake_lost_when_over_acquired_twice': ('C17', 'actix-utils/src/counter.rs', "        self.count.set(self.count.get() + 1);\n", "        self.count.set(self.count.get() + 1);\n        if self.count.get() > self.capacity + 2 {\n            let _ = self.task.take();\n        }\n"),
 # ---- local-waker (both properties) ----
 'W1_register_does_not_replace': ('C16,C17', 'local-waker/src/lib.rs',
    "        let last_waker = self.waker.replace(Some(waker.clone()));\n        last_waker.is_some()\n",
    "        let last_waker = self.waker.take();\n        let was = last_waker.is_some();\n        self.waker.set(Some(last_waker.unwrap_or_else(|| waker.clone())));\n        was\n"),
 'W2_wake_by_ref_keeps_waker': ('C16,C17', 'local-waker/src/lib.rs',
    "        if let Some(waker) = self.take() {\n            waker.wake();\n        }\n",
    "        if let Some(waker) = self.take() {\n            waker.wake_by_ref();\n            self.waker.set(Some(waker));\n        }\n"),
 'W3_register_returns_true_only_if_same': ('C17', 'local-waker/src/lib.rs',
    "        last_waker.is_some()\n", "        last_waker.map_or(false, |w| w.will_wake(waker))\n"),
 # ---- actix-utils counter ----
 'N1_available_le': ('C17', 'actix-utils/src/counter.rs', "if self.count.get() < self.capacity {", "if self.count.get() <= self.capacity {"),
 'N2_dec_wakes_at_or_above_capacity': ('C17', 'actix-utils/src/counter.rs', "if num == self.capacity {", "if num >= self.capacity {"),
 'N3_dec_compares_after_decrement': ('C17', 'actix-utils/src/counter.rs', "if num == self.capacity {", "if num - 1 == self.capacity {"),
 'N4_no_wake_at_exactly_capacity_when_one': ('C17', 'actix-utils/src/counter.rs', "if num == self.capacity {", "if num == self.capacity && num > 1 {"),
 'N5_available_registers_only_above_capacity': ('C17', 'actix-utils/src/counter.rs',
    "            self.task.register(cx.waker());\n            false\n", "            if self.count.get() > self.capacity {\n                self.task.register(cx.waker());\n            }\n            false\n"),
 'N6_clone_is_deep': ('C17', 'actix-utils/src/counter.rs',
    "#[derive(Debug, Clone)]\npub struct Counter(Rc<CounterInner>);\n",
    "#[derive(Debug)]\npub struct Counter(Rc<CounterInner>);\n\nimpl Clone for Counter {\n    fn clone(&self) -> Self {\n        let c = Counter::new(self.0.capacity);\n        c.0.count.set(self.0.count.get());\n        c\n    }\n}\n"),
 'N7_available_true_takes_waker_harmless': ('C17', 'actix-utils/src/counter.rs',
    "        if self.count.get() < self.capacity {\n            true\n", "        if self.count.get() < self.capacity {\n            let _ = self.task.take();\n            true\n"),
}
which = sys.argv[1:] or list(MUTS)
results = {}
for name in which:
    props, f, old, new = MUTS[name]
    subprocess.run(['git','-C',WT,'checkout','-q','--','.'],check=True)
    if f == 'GITREVERT':
        d = subprocess.run(['git','-C','/repo','show','0de8a5f','--','local-channel/src/mpsc.rs'],capture_output=True,text=True).stdout
        subprocess.run(['git','-C',WT,'apply','-R','-'],input=d,text=True,check=True)
    else:
        p = os.path.join(WT,f); s = open(p).read()
        assert s.count(old)==1, (name, s.count(old))
        open(p,'w').write(s.replace(old,new))
    for pid in props.split(','):
        r = subprocess.run(['python3','/tmp/mut_check.py',pid],capture_output=True,text=True,cwd='/verif')
        vio = [l for l in r.stdout.split('\n') if l.startswith(('VIOLATION','KNOWN'))]
        summ = []
        for l in vio[:3]:
            m = re.search(r'replay=(\S+)', l)
            j = json.load(open(m.group(1)))
            rep = subprocess.run(['python3','/tmp/mut_check.py',pid,m.group(1)],capture_output=True,text=True,cwd='/verif')
            summ.append({'kind': j.get('kind'), 'key': j.get('finding_key'), 'stream': j.get('stream'), 'case': j.get('case'), 'impl': j.get('impl_trace'), 'model': j.get('model_trace'),
                         'nfi': 'no-failing-input-found' in l, 'replay_exit': rep.returncode})
        results[name+'/'+pid] = {'exit': r.returncode, 'n_violation_lines': len(vio), 'violations': summ, 'stderr_tail': r.stderr.strip().split('\n')[-1]}
        print(name, pid, 'exit', r.returncode, json.dumps(summ)[:900], flush=True)
subprocess.run(['git','-C',WT,'checkout','-q','--','.'],check=True)
json.dump(results, open('/tmp/mut_results_%s.json' % ('all' if not sys.argv[1:] else 'sel'),'w'), indent=1)
