#!/bin/sh
cd "$(dirname "$0")" || exit 2
export CARGO_NET_OFFLINE=true
exec python3 vp/setup.py
