(* Base/Utf8.v — UTF-8 validity exactly as core::str::from_utf8 decides it
   (Unicode Table 3-7 "Well-Formed UTF-8 Byte Sequences").  Bytes are Z in 0..255.
   Executable definitions only; lemmas are in Proofs/Utf8Facts.v. *)
From Coq Require Export List ZArith Bool.
Export ListNotations.
Open Scope Z_scope.

Definition byte := Z.

Definition inr (lo hi b : Z) : bool := (lo <=? b) && (b <=? hi).
Definition cont (b : Z) : bool := inr 128 191 b.

Fixpoint valid (l : list Z) : bool :=
  match l with
  | [] => true
  | b0 :: t0 =>
    if inr 0 127 b0 then valid t0 else
    match t0 with [] => false | b1 :: t1 =>
      if inr 194 223 b0 then cont b1 && valid t1 else
      match t1 with [] => false | b2 :: t2 =>
        if inr 224 239 b0 then
          (if b0 =? 224 then inr 160 191 b1 else if b0 =? 237 then inr 128 159 b1 else cont b1)
          && cont b2 && valid t2
        else
        match t2 with [] => false | b3 :: t3 =>
          if inr 240 244 b0 then
            (if b0 =? 240 then inr 144 191 b1 else if b0 =? 244 then inr 128 143 b1 else cont b1)
            && cont b2 && cont b3 && valid t3
          else false
        end end end end.

(* str::is_char_boundary on the byte list of a str *)
Definition boundary (l : list Z) (i : nat) : bool :=
  match i with
  | O => true
  | _ => if Nat.eqb i (length l) then true
         else match nth_error l i with Some b => negb (cont b) | None => false end
  end.

Definition is_byte (b : Z) : bool := inr 0 255 b.
Definition bytes_ok (l : list Z) : bool := forallb is_byte l.

(* ---- the definition of UTF-8 (Unicode ch. 3, D76/D92, Table 3-6), added for C20 ----
   Unicode scalar values: code points 0..10FFFF except the surrogates D800..DFFF. *)
Definition scalar (c : Z) : bool := inr 0 55295 c || inr 57344 1114111 c.

(* the UTF-8 encoding form of one scalar value (what char::encode_utf8 computes) *)
Definition encode_scalar (c : Z) : list Z :=
  if c <? 128 then [c]
  else if c <? 2048 then [192 + c / 64; 128 + c mod 64]
  else if c <? 65536 then [224 + c / 4096; 128 + (c / 64) mod 64; 128 + c mod 64]
  else [240 + c / 262144; 128 + (c / 4096) mod 64; 128 + (c / 64) mod 64; 128 + c mod 64].

Definition encode_scalars (cs : list Z) : list Z := concat (map encode_scalar cs).
