(* Extraction of the worker / server-stop models (ExtrOcamlBasic only; numbers stay positive/Z/N/nat). *)
From Coq Require Import Extraction ExtrOcamlBasic.
From AN Require Import Model.Wrk.
Extraction Language OCaml.
Extraction "../ocaml/worker/gen.ml" trace diag C07_ok C07_car_ok C07_restart_ok C07_fifo_ok.
