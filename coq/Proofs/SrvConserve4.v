(* Proofs/SrvConserve4.v — C01, part 4: the only way a connection is discarded without reaching a worker.
   "no workers" (EvDropNoWorker) is emitted by send_connection exactly when the send failed and the
   removal of that handle left `handles` empty; accept_one never drops while some handle's worker is
   alive — it then ends with a dispatch (or the accept thread has panicked). *)
From Coq Require Import List Arith ZArith NArith Bool Lia.
From AN Require Import Model.Srv Proofs.ListFacts Proofs.SrvConserve Proofs.SrvConserve2 Proofs.SrvConserve3.
From AN Require Proofs.SrvFault.
Import ListNotations.

Definition ev_drop (e : event) : list N := match e with EvDropNoWorker c => [c] | _ => [] end.
Definition drops_of (tr : list event) : list N := flat_map ev_drop tr.
Definition drops (st : state) : list N := drops_of (trace st).

(* the trace is extended by events none of which is a drop *)
Definition Ext (st st' : state) : Prop := exists evs, trace st' = evs ++ trace st /\ drops_of evs = [].

Lemma Ext_refl st : Ext st st.
Proof. exists []. split; reflexivity. Qed.

Lemma Ext_trans s0 s1 s2 : Ext s0 s1 -> Ext s1 s2 -> Ext s0 s2.
Proof.
  intros (e1 & A1 & A2) (e2 & B1 & B2). exists (e2 ++ e1). split; [rewrite B1, A1; apply app_assoc|].
  unfold drops_of in *. now rewrite flat_map_app, A2, B2.
Qed.

Lemma Ext_drops st st' : Ext st st' -> drops st' = drops st.
Proof. intros (evs & Ht & Hd). unfold drops, drops_of in *. now rewrite Ht, flat_map_app, Hd. Qed.

Lemma Ext_in st st' e : Ext st st' -> In e (trace st) -> In e (trace st').
Proof. intros (evs & Ht & _) H. rewrite Ht. apply in_or_app. now right. Qed.

Lemma Ext_of_Quiet st st' : Quiet st st' -> Ext st st'.
Proof.
  intros (_ & _ & (evs & Ht & Hn) & _). exists evs. split; [exact Ht|].
  unfold drops_of. apply flat_map_nils. intros e He. rewrite forallb_forall in Hn. specialize (Hn e He).
  destruct e; cbn in *; congruence.
Qed.

Lemma Ext_emit st e : ev_drop e = [] -> Ext st (emit st e).
Proof. intros H. exists [e]. split; [reflexivity|]. unfold drops_of. cbn. now rewrite H. Qed.

Section Drop.
Variable L : Z.

Lemma env_step_ext st o : Ext st (env_step L st o).
Proof.
  destruct o as [tok c0|g|g c0|g|g|cm|idx|tok k]; cbn [env_step].
  - destruct (nth_error (lsts st) tok); [|apply Ext_refl].
    destruct (l_uds l && negb (l_linked l)); [apply Ext_emit; reflexivity|exists []; split; reflexivity].
  - destruct (nth_error (ws st) g) as [w|]; [|apply Ext_refl]. destruct (w_open w); [|apply Ext_refl].
    destruct (w_queue w); exists []; split; reflexivity.
  - destruct (nth_error (ws st) g) as [w|]; [|apply Ext_refl].
    destruct (remove_conn c0 (w_picked w)) as [[x p]|]; [|apply Ext_refl].
    destruct (guard_drop_core L st g (set_w_picked w p)) as (_ & _ & G3 & _).
    exists [EvReleased c0]. split; [cbn [trace emit]; now rewrite G3|reflexivity].
  - destruct (nth_error (ws st) g) as [w|]; [|apply Ext_refl]. destruct (w_open w); [|apply Ext_refl].
    destruct (w_queue w) as [|x q]; [apply Ext_refl|].
    destruct (guard_drop_core L st g (set_w_queue w q)) as (_ & _ & G3 & _).
    exists [EvReleased (c_id x)]. split; [cbn [trace emit]; now rewrite G3|reflexivity].
  - destruct (nth_error (ws st) g) as [w|]; [|apply Ext_refl]. destruct (w_open w); [|apply Ext_refl].
    match goal with |- context [fold_left _ _ ?s] => set (st1 := s) end.
    destruct (lost_fold (w_queue w) st1) as (_ & _ & _ & F4). cbn zeta in F4.
    eapply Ext_trans; [apply (Ext_emit _ (EvKilled g)); reflexivity|].
    eexists. split; [exact F4|]. unfold drops_of. apply flat_map_nils.
    intros e He. apply in_rev in He. apply in_map_iff in He as (x & <- & _). reflexivity.
  - apply Ext_of_Quiet, Quiet_wake.
  - exists []. split; reflexivity.
  - destruct (nth_error (lsts st) tok); exists []; split; reflexivity.
Qed.

Lemma env_steps_ext os : forall st, Ext st (env_steps L st os).
Proof.
  induction os as [|o os IH]; intros st; cbn [env_steps fold_left]; [apply Ext_refl|].
  eapply Ext_trans; [apply env_step_ext|apply IH].
Qed.

(* what a send can do *)
Inductive send_outcome (st : state) (x : conn) (st' : state) (r : sres) : Prop :=
| SendPanic : err st' <> None -> r = SOk -> Ext st st' -> send_outcome st x st' r
| SendSent g w n :
    nth_error (handles st) (next st) = Some g -> nth_error (ws st) g = Some w -> w_open w = true ->
    r = SOk -> Ext st st' -> In (EvDispatch (c_id x) (c_tok x) g (w_idx w) n) (trace st') ->
    send_outcome st x st' r
| SendRetry g w :
    nth_error (handles st) (next st) = Some g -> nth_error (ws st) g = Some w -> w_open w = false ->
    r = SRetry x -> Ext st st' -> ws st' = ws st -> handles st' = swap_remove (next st) (handles st) ->
    handles st' <> [] -> send_outcome st x st' r
| SendDrop g w evs :
    nth_error (handles st) (next st) = Some g -> nth_error (ws st) g = Some w -> w_open w = false ->
    r = SOk -> trace st' = EvDropNoWorker (c_id x) :: evs ++ trace st -> drops_of evs = [] ->
    swap_remove (next st) (handles st) = [] -> handles st' = [] ->
    send_outcome st x st' r.

Lemma handles_av_set st i v : handles (av_set st i v) = handles st.
Proof. unfold av_set. destruct (set (av st) i v); reflexivity. Qed.
Lemma handles_av_get st i : handles (fst (av_get st i)) = handles st.
Proof. unfold av_get. destruct (get (av st) i); reflexivity. Qed.
Lemma handles_do_set_next st : handles (do_set_next st) = handles st.
Proof. unfold do_set_next. destruct (length (handles st)); reflexivity. Qed.

Lemma send_connection_outcome st x ys st' ys' r :
  send_connection L st x ys = (st', ys', r) -> send_outcome st x st' r.
Proof.
  unfold send_connection.
  destruct (nth_error (handles st) (next st)) as [g|] eqn:Eh.
  2:{ intros H; injection H as <- <- <-. apply SendPanic; [cbn; destruct (err st); discriminate|reflexivity|apply Ext_of_Quiet, Quiet_set_err]. }
  destruct (nth_error (ws st) g) as [w|] eqn:Eg.
  2:{ intros H; injection H as <- <- <-. apply SendPanic; [cbn; destruct (err st); discriminate|reflexivity|apply Ext_of_Quiet, Quiet_set_err]. }
  destruct (w_open w) eqn:Eo.
  - set (ev := EvDispatch _ _ _ _ _). set (st1 := emit _ ev).
    assert (E1 : Ext st st1) by (exists [ev]; split; reflexivity).
    assert (E2 : Ext st1 (env_steps L st1 (hd [] ys))) by apply env_steps_ext.
    set (st2 := env_steps L st1 (hd [] ys)) in *.
    assert (Hin : In ev (trace st2)) by (eapply Ext_in; [exact E2|now left]).
    destruct (nth_error (ws st2) g) as [w2|].
    + intros H; injection H as <- <- <-.
      match goal with |- send_outcome _ _ (do_set_next ?s) _ => set (st4 := s) end.
      assert (E4 : Ext st2 (do_set_next st4)).
      { eapply Ext_trans; [|apply Ext_of_Quiet, Quiet_do_set_next]. subst st4.
        destruct (Z.eqb _ _); [eapply Ext_trans; [|apply Ext_of_Quiet, Quiet_av_set]|]; exists []; split; reflexivity. }
      eapply SendSent; [exact Eh|exact Eg|exact Eo|reflexivity| |eapply Ext_in; [exact E4|exact Hin]].
      eapply Ext_trans; [exact E1|]. eapply Ext_trans; [exact E2|exact E4].
    + intros H; injection H as <- <- <-.
      apply SendPanic; [cbn; destruct (err st2); discriminate|reflexivity|].
      eapply Ext_trans; [exact E1|]. eapply Ext_trans; [exact E2|apply Ext_of_Quiet, Quiet_set_err].
  - set (st1 := set_handles st _). set (st2 := emit st1 (EvFaulted (w_idx w))). set (st3 := av_set st2 (w_idx w) false).
    assert (Hh3 : handles st3 = swap_remove (next st) (handles st)) by (unfold st3; rewrite handles_av_set; reflexivity).
    assert (E3 : Ext st st3).
    { eapply Ext_trans; [apply (Ext_emit st1 (EvFaulted (w_idx w))); reflexivity|apply Ext_of_Quiet, Quiet_av_set]. }
    assert (Hw3 : ws st3 = ws st) by (destruct (Quiet_av_set st2 (w_idx w) false) as (Hw & _); exact Hw).
    destruct (handles st3) as [|h0 hr] eqn:Eh3.
    + intros H; injection H as <- <- <-. destruct E3 as (evs & Ht & Hd).
      eapply SendDrop with (evs := evs); [exact Eh|exact Eg|exact Eo|reflexivity| |exact Hd|now rewrite <- Hh3|exact Eh3].
      cbn [trace emit]. now rewrite Ht.
    + intros H; injection H as <- <- <-.
      assert (Hq : forall b : bool, let s := (if b then set_next_ st3 0 else st3) in Ext st3 s /\ ws s = ws st3 /\ handles s = handles st3).
      { intros [|]; cbn; (split; [exists []; split; reflexivity|split; reflexivity]). }
      match goal with |- send_outcome _ _ (if ?b then _ else _) _ => destruct (Hq b) as (Q1 & Q2 & Q3) end. cbn zeta in *.
      eapply SendRetry; [exact Eh|exact Eg|exact Eo|reflexivity|eapply Ext_trans; [exact E3|exact Q1]|congruence|congruence|].
      rewrite Q3, Eh3. discriminate.
Qed.

(* C01_no_silent_drop, the atomic statement: a drop happens only after a failed send that left no handle *)
Theorem drop_only_without_handles st x ys st' ys' r :
  send_connection L st x ys = (st', ys', r) ->
  drops st' = drops st \/
  (drops st' = c_id x :: drops st /\ handles st' = [] /\ r = SOk /\
   exists g w, nth_error (handles st) (next st) = Some g /\ nth_error (ws st) g = Some w /\ w_open w = false).
Proof.
  intros H. destruct (send_connection_outcome _ _ _ _ _ _ H) as [? ? E|g w n ? ? ? ? E ?|g w ? ? ? ? E ? ? ?|g w evs Hg Hw Ho Hr Ht Hd Hs Hh].
  - left. now apply Ext_drops.
  - left. now apply Ext_drops.
  - left. now apply Ext_drops.
  - right. split; [|split; [exact Hh|split; [exact Hr|eauto]]].
    unfold drops, drops_of in *. rewrite Ht. cbn [flat_map ev_drop app]. now rewrite flat_map_app, Hd.
Qed.

(* ---------- while a worker is alive nothing is dropped ---------- *)
Definition LiveH (st : state) : Prop :=
  exists g w, In g (handles st) /\ nth_error (ws st) g = Some w /\ w_open w = true.
Definition Delivered (x : conn) (st' : state) : Prop :=
  exists g idx n, In (EvDispatch (c_id x) (c_tok x) g idx n) (trace st').

Lemma LiveH_same st st' : ws st' = ws st -> handles st' = handles st -> LiveH st -> LiveH st'.
Proof. intros Hw Hh (g & w & H1 & H2 & H3). exists g, w. rewrite Hw, Hh. auto. Qed.

Lemma LiveH_after_remove st st' g w :
  LiveH st -> nth_error (handles st) (next st) = Some g -> nth_error (ws st) g = Some w -> w_open w = false ->
  ws st' = ws st -> handles st' = swap_remove (next st) (handles st) -> LiveH st'.
Proof.
  intros (g0 & w0 & H1 & H2 & H3) Hn Hg Ho Hw Hh. exists g0, w0. rewrite Hw, Hh. split; [|auto].
  eapply SrvFault.swap_remove_keeps; [exact Hn|exact H1|]. intros ->. rewrite Hg in H2. injection H2 as ->. congruence.
Qed.

Lemma forced_send_live : forall fuel st x ys st' ys',
  LiveH st -> forced_send L fuel st x ys = (st', ys') -> Ext st st' /\ (err st' = None -> Delivered x st').
Proof.
  induction fuel as [|f IH]; intros st x ys st' ys' HL; cbn [forced_send].
  - intros H; injection H as <- <-. split; [apply Ext_of_Quiet, Quiet_set_err|]. cbn. destruct (err st); discriminate.
  - destruct (err st) eqn:Ee; [intros H; injection H as <- <-; split; [apply Ext_refl|congruence]|].
    destruct (send_connection L st x ys) as [[st1 ys1] r] eqn:Es.
    destruct (send_connection_outcome _ _ _ _ _ _ Es)
      as [He -> E|g w n Hn Hg Ho -> E Hin|g w Hn Hg Ho -> E Hw Hh Hne|g w evs Hn Hg Ho -> Ht Hd Hs Hh].
    + intros H; injection H as <- <-. split; [exact E|contradiction].
    + intros H; injection H as <- <-. split; [exact E|]. intros _. exists g, (w_idx w), n. exact Hin.
    + intros H. destruct (IH _ _ _ _ _ (LiveH_after_remove _ _ _ _ HL Hn Hg Ho Hw Hh) H) as [E1 D1].
      split; [eapply Ext_trans; eassumption|exact D1].
    + exfalso. destruct HL as (g0 & w0 & H1 & H2 & H3).
      assert (Hin : In g0 (swap_remove (next st) (handles st))).
      { eapply SrvFault.swap_remove_keeps; [exact Hn|exact H1|]. intros ->. rewrite Hg in H2. injection H2 as ->. congruence. }
      rewrite Hs in Hin. destruct Hin.
Qed.

Theorem accept_one_live : forall fuel st x ys st' ys',
  LiveH st -> accept_one L fuel st x ys = (st', ys') ->
  Ext st st' /\ (err st' = None -> Delivered x st').
Proof.
  induction fuel as [|f IH]; intros st x ys st' ys' HL; cbn [accept_one].
  - intros H; injection H as <- <-. split; [apply Ext_of_Quiet, Quiet_set_err|]. cbn. destruct (err st); discriminate.
  - destruct (err st) eqn:Ee; [intros H; injection H as <- <-; split; [apply Ext_refl|congruence]|].
    destruct (nth_error (handles st) (next st)) as [g|].
    2:{ intros H; injection H as <- <-. split; [apply Ext_of_Quiet, Quiet_set_err|]. cbn. rewrite Ee. discriminate. }
    destruct (nth_error (ws st) g) as [w|].
    2:{ intros H; injection H as <- <-. split; [apply Ext_of_Quiet, Quiet_set_err|]. cbn. rewrite Ee. discriminate. }
    pose proof (Quiet_av_get st (w_idx w)) as Q0. pose proof (handles_av_get st (w_idx w)) as Hh0.
    destruct (av_get st (w_idx w)) as [st0 b]. cbn [fst] in Q0, Hh0.
    assert (HL0 : LiveH st0) by (eapply LiveH_same; [exact (proj1 Q0)|exact Hh0|exact HL]).
    destruct b.
    + destruct (send_connection L st0 x ys) as [[st1 ys1] r] eqn:Es.
      destruct (send_connection_outcome _ _ _ _ _ _ Es)
        as [He -> E|g1 w1 n Hn Hg Ho -> E Hin|g1 w1 Hn Hg Ho -> E Hw Hh Hne|g1 w1 evs Hn Hg Ho -> Ht Hd Hs Hh].
      * intros H; injection H as <- <-. split; [eapply Ext_trans; [apply Ext_of_Quiet; exact Q0|exact E]|contradiction].
      * intros H; injection H as <- <-. split; [eapply Ext_trans; [apply Ext_of_Quiet; exact Q0|exact E]|].
        intros _. exists g1, (w_idx w1), n. exact Hin.
      * intros H. destruct (IH _ _ _ _ _ (LiveH_after_remove _ _ _ _ HL0 Hn Hg Ho Hw Hh) H) as [E1 D1].
        split; [|exact D1]. eapply Ext_trans; [apply Ext_of_Quiet; exact Q0|]. eapply Ext_trans; eassumption.
      * exfalso. destruct HL0 as (g0 & w0 & H1 & H2 & H3).
        assert (Hin : In g0 (swap_remove (next st0) (handles st0))).
        { eapply SrvFault.swap_remove_keeps; [exact Hn|exact H1|]. intros ->. rewrite Hg in H2. injection H2 as ->. congruence. }
        rewrite Hs in Hin. destruct Hin.
    + match goal with |- context [available (av ?s)] => set (st1 := s) end.
      assert (Q1 : Quiet st0 st1).
      { subst st1. eapply Quiet_trans; [|apply Quiet_do_set_next]. eapply Quiet_trans; [|apply Quiet_av_set].
        apply Quiet_emit; reflexivity. }
      assert (Hh1 : handles st1 = handles st0) by (subst st1; rewrite handles_do_set_next, handles_av_set; reflexivity).
      assert (HL1 : LiveH st1) by (eapply LiveH_same; [exact (proj1 Q1)|exact Hh1|exact HL0]).
      assert (E01 : Ext st st1) by (eapply Ext_trans; apply Ext_of_Quiet; eassumption).
      destruct (available (av st1)).
      * intros H. destruct (IH _ _ _ _ _ HL1 H) as [E1 D1]. split; [eapply Ext_trans; eassumption|exact D1].
      * intros H. destruct (forced_send_live _ _ _ _ _ _ HL1 H) as [E1 D1]. split; [eapply Ext_trans; eassumption|exact D1].
Qed.

End Drop.

(* ---------- well-formed scripts: the accept thread never panics, so nothing connected is ever lost ---------- *)
Theorem conservation_wf (L : Z) W kinds os :
  1 <= W <= 512 -> forallb SrvFault.wf_op os = true -> forallb (SrvInv.tok_ok (length kinds)) os = true ->
  fresh_cids os = true ->
  let st := run L (init W kinds) os in
  err st = None /\ NoDup (places st) /\ forall c, In c (top_connected (length kinds) os) -> In c (places st).
Proof.
  intros HW Hwf Htok Hf st. pose proof (SrvFault.no_panic_no_spin L W kinds os HW Hwf Htok) as He. fold st in He.
  destruct (conservation L W kinds os Hf) as (H1 & _ & H3). split; [exact He|]. split; [exact H1|exact (H3 He)].
Qed.
