"""C08 — a faulted worker is detected, bypassed and replaced; the accept thread never panics or spins."""
from props.srvlib import COMMON_META, gen_scripts, make_stream, bfs_stream, bld_stream, c08_pred, c08_resume_pred, has_fault

META = dict(COMMON_META)
META.update({
    "id": "C08",
    "design_ref": "§5 C08",
    "technique": "Coq proof (structural invariant over ALL scripts incl. any number of simultaneous faults: every set availability bit is owned by a "
                 "handle, next stays in range; termination measure for accept_one with handle removal) + extracted model vs the real accept loop with a "
                 "kill-worker operation",
    "level_text": "Theorem C08_no_panic_no_spin: for every script whatsoever (any number of worker deaths at any point incl. inside the send/inc gap, any "
                  "teardown order, late availability notices, replacement handles arriving in any order, pause/resume/stop, injected errors) the accept "
                  "thread never indexes out of bounds, never hits the Availability panic, never computes `% 0`, and accept_one / forced send / handle_waker "
                  "terminate within the model's fuel. C08_resume: from ANY reachable state whose waker queue holds a replacement's handle, one handle_waker call "
                  "leaves the queue drained and every flagged worker exhausted or EVERY listener's backlog empty (service resumes once the replacement is up); "
                  "C08_no_strand: in every state of every run, faults included, a waiting connection has a registered listener with a pending edge or an armed "
                  "back-off. The model is tied to the code by running generated fault scripts (and the D2 regression histories) on the "
                  "real Accept through the stepped driver with a kill operation; a panic is caught, a spin is detected by a per-case watchdog; the predicate "
                  "(no panic/spin, no dispatch to a dead generation, one fault notice per dead generation, every live generation back in the rotation once "
                  "the waker queue is drained) is evaluated on the implementation trace.",
    "level_note": "Partial: how a real worker dies (Tokio catching the panic, arbiter teardown order) is represented by Kill (queue receiver closes first, as "
                  "the field order of ServerWorker guarantees) and Finish on its picked connections; ServerInner's WorkerFaulted handler is the Respawn op "
                  "(a mirror of 10 lines of server.rs). Trusted base as C02.",
    "rule": "model-guided random scripts with kill/respawn (1..3 workers, limits 1..3, up to 40 ops, yields, commands, injected errors, direct calls) + corpus "
            "(the D2 double-fault histories); non-trivial = the run contains a fault notice; distinct = distinct script text.",
})


def streams(ctx):
    n = 3000 if ctx.tier == "quick" else 80000
    cases = gen_scripts(ctx, n, ["k", "ky", "kye", "kcye", "kciye", "kdy", "kcidyse", "kdyse"], ls=(1, 2, 3))
    return [bfs_stream(ctx, c08_pred, "dk", has_fault, guarded=c08_resume_pred), make_stream("srv", cases, c08_pred,
                        "%d generated scripts with worker faults + corpus; every snapshot compared; no panic/spin, bypass, single notice, rejoin checked" % n,
                        has_fault, guarded=c08_resume_pred),
            bld_stream(ctx, ("C08", "C01"), ["k", "k", "ck", "k", "d", "cd", "kd", "kz", "km", "ckm", "km"], 112, 1800, ws=(1, 2, 3, 3, 4))]
