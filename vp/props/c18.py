"""C18 — TLS acceptors bound handshake time and concurrency and carry data intact (partial).

Streams (both two-phase: the harness runs the REAL rustls-0.23 / OpenSSL acceptor services over in-memory pipes under
Tokio's paused clock, each case on a fresh thread because MAX_CONN_COUNTER is a lazily initialised thread-local):
  c18     poll-level op scripts (poll_ready / call / poll / drop / advance, client moves in between).  The handshake's
          answer to every poll is RECORDED (outcome handed on by the acceptor; for Pending: the wrapped transport blocked)
          and given to the extracted Coq model as its oracle script; the model's trace (readiness results, poll results,
          "handshake was polled", wake-ups per op) must equal the implementation's.  E<k> ops exchange random payloads
          <= 64 KiB both ways over the accepted stream and compare byte for byte (differential, not in the model).
  c18e2e  executor-level: a dispatcher task (`poll_ready().await; call(io)`; one task per handshake awaiting it) against
          scripted clients; completion times in virtual ms, outcomes, number of times the dispatcher was parked, echo.
          Expected values come from a discrete-event calculation (below) that applies the theorems: a call ends at
          min(handshake ready, t_call + timeout); the gate admits a call iff in-flight < limit; a drop at the limit wakes.
"""
import time

from common import run_lines, load_corpus, coq_crosscheck, NCPU, _sample_idx
from props.c19 import TwoPhase, split_oracle

META = {
    "id": "C18",
    "driver": "tls",
    "harness": "h_tls",
    "coq_targets": ["Extract/XTls.vo"],
    "level": "proof",
    "design_ref": "§5 C18",
    "technique": "Coq proof (timed future state machine + inductive invariant of the per-thread counter gate and the timer wheel) + "
                 "extracted-model vs the real acceptor services of actix-tls (rustls 0.23/0.22/0.21/0.20, OpenSSL, native-tls) under Tokio's paused clock, handshake oracle recorded per poll",
    "level_text": "PARTIAL. THEOREM (every handshake behaviour = arbitrary script of Pending/Done/Failed answers, every interleaving of "
                  "poll_ready/call/poll/drop/advance incl. calls that skipped poll_ready, every capacity and timeout; Gallina model of "
                  "AcceptorService::poll_ready/call, AcceptFut::poll and the Counter gate): C18_outcome(+_once,_stable) — each poll asks the "
                  "handshake first and maps to Ok | Tls e | Timeout | Pending, a finished future is never polled again; C18_timeout_exact / "
                  "_pending_exact / _handshake_wins / _deadline_at_call / _deadline_stable — Timeout iff handshake Pending and t >= t_call+timeout, "
                  "Pending leaves the waker with the timer for that deadline, a handshake finishing in the late poll wins; C18_deadline_wakes / "
                  "_no_early_wake / _resolves_at_deadline — the clock reaching the deadline wakes that waker and the poll it triggers resolves the "
                  "call; C18_gate(+_parks,_wake,_no_lost_wakeup,_drop_silent,_guard_held,_call_acquires,_invariant) — Ready iff in-flight < max, "
                  "else the caller is parked, and the drop of any in-flight future at the maximum wakes it; "
                  "C18_native_is_run / _native_invariant / _native_release_at_completion / _native_pending_holds / _native_deadline_first_poll — "
                  "the native-tls acceptor (an async block, not an AcceptFut) is the same model on a transformed script (Model/TlsAccept.v, "
                  "Section Native): its runs are ordinary runs, its slot is free inside the completing poll, its deadline is first-poll time + "
                  "handshake_timeout. "
                  "ORACLES / ENVIRONMENT (not verified): the TLS handshake (rustls, OpenSSL) as a per-poll answer script; Tokio's Sleep as "
                  "'Ready iff deadline <= now, else store the waker and wake it when the clock reaches the deadline'. "
                  "DIFFERENTIAL RUN (not a theorem): real acceptors vs the extracted model on op scripts (timeouts 100..5000 ms virtual, limits "
                  "1..3, <= 5 concurrent calls, clients that complete / stall after each flight / send garbage / disconnect), an executor-level "
                  "run with real tasks, and 'bytes arrive unchanged': random payloads <= 64 KiB both ways compared byte for byte.",
    "level_note": "Trusted: Coq kernel, extraction, OCaml driver, Rust harness (in-memory ActixStream with IO recorder, counting wakers, "
                  "hand-polled futures under tokio::task::unconstrained, fresh thread per case). The guard is released when the AcceptFut is "
                  "DROPPED (what `.await` does right after Ready), not when poll returns Ready; native-tls releases it at completion and is "
                  "not run; rustls 0.20-0.22 acceptors are textually identical to 0.23 (diffed) and not run.",
    "rule": "c18: systematic families (timeout exactness for every acceptor x client back-end pair, 5 timeouts, stall points, first poll "
            "before/after the deadline, late completion / late garbage / disconnect; gate: limits 1..3 x up to 5 calls x drop orders x "
            "over-acquisition; full handshakes with payload exchange) + seeded random op scripts of length 6..40; non-trivial = at least one "
            "of: a Timeout, a wake-up, a not-ready answer, a payload exchange.  c18e2e: random arrival/behaviour tables for 1..5 connections, "
            "limits 1..3 (cases with coinciding independent events are re-drawn); non-trivial = some call waits for the gate or times out.",
    "trusted_base": [
        "ORACLE TLS handshake (rustls 0.23 via tokio-rustls 0.26, OpenSSL via tokio-openssl): per-poll answers recorded from the real run",
        "ENVIRONMENT Tokio Sleep/timer wheel under the paused clock (tokio::time::pause/advance, 1 ms granularity): modelled, validated by the run",
        "actix-utils Counter + local-waker LocalWaker: modelled inside TlsAccept.v (count, capacity, one parked waker)",
        "in-memory duplex pipe (tokio::io::duplex) wrapped as ActixStream; rcgen/ring certificates",
        "c18e2e expectations are computed by a discrete-event calculation in vp/props/c18.py (not extracted from Coq)",
    ],
    "assumptions": [
        "one readiness waiter per thread (Counter holds a single LocalWaker): the most recent poll_ready caller is the one woken",
        "callers follow the Future contract (no poll after Ready)",
    ],
}


# ---------------------------------------------------------------------------------------------
# c18: poll-level scripts
# ---------------------------------------------------------------------------------------------
def backends(seed):
    """which acceptor back-ends of actix-tls play the two services of a case: the "r" service is the rustls 0.23 / 0.22 / 0.21 / 0.20
    acceptor, the "o" service the OpenSSL or the native-tls acceptor (all share the per-thread handshake counter; the model is the same)"""
    return ";rv=%s;ov=%s" % (["23", "23", "22", "21", "20"][seed % 5], ["o", "o", "n"][(seed // 5) % 3])


def case(lim, tr, to, conns, ops, seed):
    return "lim=%d;tr=%d;to=%d;conns=%s;ops=%s;seed=%d" % (lim, tr, to, ",".join(conns), ".".join(ops), seed) + backends(seed)


PAIRS = ["rr", "ro", "or", "oo"]
PAIRS12 = ["rR", "rO", "oR", "oO"]       # TLS 1.2 clients


def poll_cases(ctx):
    out = []
    sd = ctx.rng.randrange(1, 1 << 30)
    # F1. timeout exactness: every acceptor x client pair (TLS 1.3 and TLS 1.2 clients: 2 resp. 3 client flights), the client
    # stalls after j rounds of (client flight, server poll)
    for pair in PAIRS + PAIRS12 + ["rn", "on"]:
        for T in [100, 500, 1000, 3000, 5000]:
            tr, to = (T, 7777) if pair[0] == "r" else (7777, T)
            stalls = [0] if pair[1] == "n" else [0, 1, 2, 3]
            for j in stalls:
                pre = ["S0", "P0"] * j
                out.append(case(1, tr, to, [pair], ["R", "C0", "R"] + pre + ["P0", "A%d" % (T - 1), "P0", "A1", "P0", "D0", "R"], sd))
                out.append(case(1, tr, to, [pair], ["C0", "A%d" % (T // 2)] + pre + ["P0", "A%d" % (T - T // 2 - 1), "P0", "P0", "A1", "P0", "D0"], sd))
                out.append(case(1, tr, to, [pair], ["C0", "A%d" % (T + 5)] + pre + ["P0", "D0"], sd))            # first poll after the deadline
                out.append(case(1, tr, to, [pair], ["C0", "A%d" % T] + pre + ["P0", "D0"], sd))                  # first poll exactly at it
                out.append(case(1, tr, to, [pair], ["C0"] + pre + ["P0", "A%d" % (2 * T), "A5", "P0", "D0"], sd))  # overshoot in one step
                out.append(case(2, tr, to, [pair], ["C0"] + pre + ["P0", "D0", "A%d" % (T + 1), "R"], sd))        # dropped: no late wake
                if pair[1] != "n" and j >= 1:
                    # the client's last flights arrive only after the deadline: the handshake completing in that late poll wins
                    out.append(case(1, tr, to, [pair], ["C0"] + pre + ["A%d" % (T + 10)] + ["S0", "P0"] * (4 - j) + ["E0", "D0"], sd))
                    out.append(case(1, tr, to, [pair], ["C0"] + pre + ["A%d" % (T - 1)] + ["S0", "P0"] * (4 - j) + ["E0", "D0"], sd))
                    out.append(case(1, tr, to, [pair], ["C0"] + pre + ["A%d" % (T + 10), "X0", "P0", "D0"], sd))   # late disconnect: Tls, not Timeout
                    out.append(case(1, tr, to, [pair], ["C0"] + pre + ["X0", "A%d" % (T - 1), "P0", "D0"], sd))
            if pair[1] == "n":
                out.append(case(1, tr, to, [pair], ["C0", "P0", "A%d" % (T + 10), "G0", "P0", "D0"], sd))          # late garbage: Tls
                out.append(case(1, tr, to, [pair], ["C0", "G0", "P0", "D0"], sd))
                out.append(case(1, tr, to, [pair], ["C0", "P0", "X0", "A%d" % (T + 10), "P0", "D0"], sd))
    # F2. the gate: limits 1..3, up to 5 calls, readiness asked through either back-end's service, every single drop order prefix
    import itertools
    for lim in (1, 2, 3):
        for n in range(1, 6):
            conns = [PAIRS[(k + lim) % 4][0] + "n" for k in range(n)]
            calls = []
            for k in range(n):
                calls += ["R" if k % 2 == 0 else "Ro", "C%d" % k, "P%d" % k]
            perms = list(itertools.permutations(range(n)))
            if len(perms) > 24:
                perms = [perms[i] for i in sorted(ctx.rng.sample(range(len(perms)), 24))]
            for perm in perms:
                ops = list(calls) + ["R"]
                for k in perm:
                    ops += ["D%d" % k, "R"]
                out.append(case(lim, 3000, 2000, conns, ops, sd))
            # respectful caller: only call when ready; park, drop, re-ask
            ops = []
            live = []
            for k in range(n):
                ops.append("R")
                if len(live) >= lim:
                    ops += ["D%d" % live.pop(0), "R"]
                ops += ["C%d" % k, "P%d" % k]
                live.append(k)
            out.append(case(lim, 3000, 2000, conns, ops + ["R"], sd))
            # timeouts end handshakes: only the drop opens the gate, not the Timeout result
            ops = ["C%d" % k for k in range(n)] + ["P%d" % k for k in range(n)] + ["R", "A3000"] + ["P%d" % k for k in range(n)] + ["R"]
            for k in range(n):
                ops += ["D%d" % k, "Ro"]
            out.append(case(lim, 3000, 2000, conns, ops, sd))
    # F3. full handshakes + payloads, every back-end pair, both services on one thread
    for i in range(6 if ctx.tier == "quick" else 40):
        for a in PAIRS:
            for b in PAIRS:
                ops = ["R", "C0", "Ro", "C1", "S0", "S1", "P0", "P1", "R", "S0", "S1", "P0", "P1", "S0", "S1", "P0", "P1", "S0", "S1", "P0", "P1",
                       "E0", "E1", "D1", "R", "D0", "Ro"]
                if i % 2:
                    a, b = a[0] + a[1].upper(), b[0] + b[1].upper()     # TLS 1.2 clients
                out.append(case(2, 3000, 5000, [a, b], ops, sd + 17 * i + len(out)))
    # F4. random scripts
    nr = 1500 if ctx.tier == "quick" else 30000
    for _ in range(nr):
        out.append(random_script(ctx.rng))
    return out


def random_script(rng):
    lim = rng.choice([1, 1, 2, 2, 3])
    n = rng.randint(1, 5)
    tr, to = rng.choice([100, 250, 1000, 3000, 5000]), rng.choice([100, 400, 1000, 2000, 5000])
    conns = [rng.choice("ro") + rng.choice("rroonRO") for _ in range(n)]
    called, dropped, steps = set(), set(), {k: 0 for k in range(n)}
    ops = []
    L = rng.randint(6, 40)
    for _ in range(L):
        x = rng.random()
        k = rng.randrange(n)
        if x < 0.14:
            ops.append(rng.choice(["R", "R", "Ro"]))
        elif x < 0.30:
            cand = [c for c in range(n) if c not in called]
            if cand:
                c = rng.choice(cand)
                called.add(c)
                ops.append("C%d" % c)
        elif x < 0.58:
            cand = [c for c in called if c not in dropped]
            if cand:
                ops.append("P%d" % rng.choice(cand))
        elif x < 0.68:
            cand = [c for c in called if c not in dropped]
            if cand:
                c = rng.choice(cand)
                dropped.add(c)
                ops.append("D%d" % c)
        elif x < 0.80:
            ops.append("A%d" % rng.choice([1, 50, 99, 100, 150, 250, 399, 400, 600, 1000, 1999, 2000, 3000, 5000]))
        elif x < 0.94:
            if conns[k][1] == "n":
                ops.append(rng.choice(["G%d" % k, "G%d" % k, "X%d" % k]))
            elif rng.random() < 0.5 and k in called and k not in dropped:
                # one round of the handshake choreography: client flight, then the server's poll
                ops += ["S%d" % k, "P%d" % k]
            else:
                ops.append("S%d" % k if rng.random() < 0.9 else "X%d" % k)
        else:
            if conns[k][1] != "n" and k in called:
                ops.append("E%d" % k)
    return case(lim, tr, to, conns, ops or ["R"], rng.randrange(1, 1 << 30))


def strip_env(trace):
    """drop the tokens of client moves / data exchange: they are not part of the model"""
    return " ".join(t for t in trace.split(" ") if t and t[0] not in "SGXE")


def poll_monitor(case_, impl, model):
    if impl.startswith(("PANIC", "HANG", "CRASH", "SKIPPED")):
        return False
    toks = impl.split(" ")
    # E after a successful accept must carry the data intact.  Void exchanges are ignored: the connection was not (yet)
    # accepted, or the client had disconnected / failed before
    acc, gone = set(), set()
    for t in toks:
        k = t[1:].split(":")[0].split("+")[0]
        if t.startswith("P") and ":ok" in t:
            acc.add(k)
        elif t.startswith("X") or (t.startswith("S") and t.endswith(":err")):
            gone.add(k)
        elif t.startswith("E") and k in acc and k not in gone and not t.endswith(":1"):
            return False
    return strip_env(impl) == model


def poll_nontrivial(case_, impl):
    return ":to/" in impl or "+w" in impl or "R:0" in impl or "Ro:0" in impl or ":1" in [t[-2:] for t in impl.split(" ") if t.startswith("E")]


def poll_key(case_, impl, model):
    a, b = strip_env(impl).split(" "), model.split(" ")
    for x, y in zip(a, b):
        if x != y:
            return "poll/%s-vs-%s" % (x.split(":")[-1].split("+")[0][:8] + ("+w" if "+w" in x else ""), y.split(":")[-1].split("+")[0][:8] + ("+w" if "+w" in y else ""))
    return "poll/len"


# ---------------------------------------------------------------------------------------------
# c18e2e: executor-level
# ---------------------------------------------------------------------------------------------
class Tie(Exception):
    pass


def e2e_expect(case_):
    """discrete-event calculation of the dispatcher run (see module docstring); raises Tie when two independent events
    coincide (the order inside one instant of virtual time is the executor's business, not the acceptor's)"""
    f = dict(x.split("=", 1) for x in case_.split(";") if "=" in x)
    L, tr, to = int(f["lim"]), int(f["tr"]), int(f["to"])
    conns = []
    for k, spec in enumerate(f["conns"].split(",")):
        p = spec.split(":")
        conns.append((k, p[0][0], p[0][1], int(p[1]), int(p[2]), p[3]))
    order = sorted(conns, key=lambda c: (c[3], c[0]))
    arrivals = [c[3] for c in conns]
    if len(set(arrivals)) != len(arrivals) and any(arrivals.count(a) > 1 and a != 0 for a in arrivals):
        raise Tie()
    t, parks, flight, lines = 0, 0, [], []      # flight: (end, start)
    for (k, acc, kind, arr, delay, act) in order:
        live = [(e, s) for (e, s) in flight if e > t or (e == t and s == t)]
        if any(e == t and s < t for (e, s) in flight):
            raise Tie()
        if len(live) >= L:
            parks += 1
            e, s = min(live)
            if sum(1 for x in live if x[0] == e) > 1 and e > t:
                raise Tie()
            live.remove((e, s))
            t = max(t, e)
        if arr > t:
            if any(e == arr for (e, s) in live):
                raise Tie()
            t = arr
        flight = live
        start = t
        tmo = tr if acc == "r" else to
        ev = arr + delay
        if act in "fgx":
            ready = max(start, ev)
            if ready == start + tmo or (ev == start and ev != arr):
                raise Tie()
            if ready < start + tmo:
                end, res = ready, ("ok" if act == "f" else "tls")
            else:
                end, res = start + tmo, "to"
        else:
            end, res = start + tmo, "to"
        flight.append((end, start))
        lines.append("s%d:%d-%d:%s" % (k, start, end, res))
    return sorted(lines + ["parks=%d" % parks])


def e2e_cases(ctx):
    out = []
    n = 400 if ctx.tier == "quick" else 8000
    tries = 0
    while len(out) < n and tries < 50 * n:
        tries += 1
        rng = ctx.rng
        lim = rng.choice([1, 1, 2, 2, 3])
        k = rng.randint(1, 5)
        tr, to = rng.choice([100, 300, 1000, 3000, 5000]), rng.choice([100, 700, 2000, 5000])
        conns = []
        used = set()
        for i in range(k):
            arr = 0 if rng.random() < 0.4 else rng.choice([x for x in range(1, 4000, 7) if x not in used])
            used.add(arr)
            act = rng.choice("fffghx-")
            delay = rng.choice([0, 3, 11, 53, 211, 997, 2503, 6007]) + rng.randrange(0, 3)
            acc, kind = rng.choice("ro"), rng.choice("rroRO")
            conns.append("%s%s:%d:%d:%s" % (acc, kind, arr, delay, act))
        sd = rng.randrange(1, 1 << 30)
        c = "lim=%d;tr=%d;to=%d;conns=%s;seed=%d" % (lim, tr, to, ",".join(conns), sd) + backends(sd)
        try:
            exp = e2e_expect(c)
        except Tie:
            continue
        # all event instants pairwise distinct unless chained
        inst = []
        for l in exp:
            if l.startswith("s"):
                a, b = l.split(":")[1].split("-")
                inst.append(int(b))
        if len(set(inst)) != len(inst):
            # coinciding ends are fine only for zero-length calls started by one another; keep it simple: re-draw
            continue
        out.append(c)
    return out


def e2e_view(impl):
    toks = impl.split(" ")
    return sorted(t for t in toks if t.startswith("s") or t.startswith("parks") or t in ("STUCK", "PANIC", "HANG"))


def e2e_monitor(case_, impl):
    try:
        exp = e2e_expect(case_)
    except Tie:
        return True, []
    ok = e2e_view(impl) == exp
    # data intact: every connection accepted Ok from a completing client echoed its payload
    f = dict(x.split("=", 1) for x in case_.split(";") if "=" in x)
    for k, spec in enumerate(f["conns"].split(",")):
        if spec.endswith(":f") and any(t.startswith("s%d:" % k) and t.endswith(":ok") for t in impl.split(" ")):
            if ("c%d:echo=1" % k) not in impl.split(" "):
                ok = False
    return ok, exp


def run_e2e(ctx):
    name = "c18e2e"
    gen = e2e_cases(ctx)
    cases = load_corpus(ctx.pid, name) + gen
    n_corpus = len(cases) - len(gen)
    t0 = time.time()
    impl = run_lines([ctx.impl_bin, "c18e2e"], cases, NCPU, 300, "impl")
    bad, nontriv = [], set()
    for c, i in zip(cases, impl):
        ok, exp = e2e_monitor(c, i)
        if not ok:
            bad.append((c, i, " ".join(exp)))
        if ":to" in i or "parks=0" not in i:
            nontriv.add(c)
    ctx.cov.setdefault("streams", []).append({
        "stream": name, "cases": len(cases), "corpus_cases": n_corpus, "distinct": len(set(cases)),
        "distinct_nontrivial": len(nontriv), "mismatches": len(bad), "exhaustive": False,
        "describe": "executor-level dispatcher runs: 1..5 connections, limits 1..3, timeouts 100..5000 ms, clients completing / stalling / garbage / disconnect",
        "wall_s": round(time.time() - t0, 2),
        "samples": [{"case": cases[k], "impl": impl[k], "expected": " ".join(e2e_monitor(cases[k], impl[k])[1])} for k in _sample_idx(len(cases), 3, ctx.rng)]})
    seen = set()
    for c, i, e in sorted(bad, key=lambda x: len(x[0])):
        key = "e2e/" + ("stuck" if "STUCK" in i or "HANG" in i else "panic" if "PANIC" in i else "times")
        if key in seen:
            continue
        seen.add(key)
        i2 = run_lines([ctx.impl_bin, "c18e2e"], [c], 1, 300, "impl")[0]
        if e2e_monitor(c, i2)[0]:
            ctx.report("correspondence-broken", {"stream": name, "case": c, "impl_trace": i, "impl_trace_rerun": i2, "expected": e,
                                                 "what": "non-reproducible difference on C18/c18e2e"}, key=key, nfi=True)
        else:
            ctx.report("property-fails", {"stream": name, "mode": "c18e2e", "case": c, "impl_trace": i2, "model_trace": e,
                                          "what": "completion times / outcomes / gate waits / echo of the real acceptor differ from what the property fixes"},
                       key=key)


# ---------------------------------------------------------------------------------------------
def poll_stream(ctx):
    pc = poll_cases(ctx)
    return TwoPhase("c18", "c18", pc, monitor=poll_monitor, nontrivial=poll_nontrivial, key=poll_key,
                    describe="%d op scripts on the real rustls/OpenSSL acceptor services (timeout exactness, gate, full handshakes + payloads, random)" % len(pc))


def custom(ctx):
    check_poll(poll_stream(ctx), ctx)
    run_e2e(ctx)


def check_poll(st, ctx):
    """TwoPhase.check with `strip_env(impl) == model` as the equality of traces"""
    cases = load_corpus(ctx.pid, st.name) + list(st.cases)
    n_corpus = len(cases) - len(st.cases)
    t0 = time.time()
    impl, model, minp = st.run(ctx, cases)
    bad = [(c, i, m) for c, i, m in zip(cases, impl, model) if not st.monitor(c, i, m)]
    nontriv = set(c for c, i in zip(cases, impl) if st.nontrivial(c, i))
    ctx.cov.setdefault("streams", []).append({
        "stream": st.name, "cases": len(cases), "corpus_cases": n_corpus, "distinct": len(set(cases)),
        "distinct_nontrivial": len(nontriv), "mismatches": len(bad), "exhaustive": False, "describe": st.describe,
        "wall_s": round(time.time() - t0, 2),
        "samples": [{"case": cases[k], "impl": impl[k], "model": model[k]} for k in _sample_idx(len(cases), 3, ctx.rng)]})
    ctx.cov["payload_exchanges_ok"] = sum(1 for i in impl for t in i.split(" ") if t.startswith("E") and t.endswith(":1"))
    # extraction guard: a sample of the model runs is re-evaluated inside Coq (vm_compute) and compared with the OCaml run
    if not bad:
        idx = _sample_idx(len(cases), 25 if ctx.tier == "quick" else 200, ctx.rng)
        eqs = run_lines([ctx.model_bin, "c18coq"], [minp[k] for k in idx], 1, 120, "model")
        items = [tuple(e.split(" ### ", 1)) for e in eqs if " ### " in e]
        nok, fails = coq_crosscheck(ctx.pid + "_c18", ("From AN Require Import Model.TlsAccept.", items))
        ctx.cov["streams"][-1]["coq_crosscheck"] = nok
        for f in fails:
            ctx.report("correspondence-broken", {"stream": st.name, "what": f}, nfi=True)
    seen = set()
    for c, i, m in sorted(bad, key=lambda x: len(x[0])):
        k = st.key(c, i, m)
        if k in seen:
            continue
        seen.add(k)
        c2 = shrink_script(st, ctx, c)
        i2, m2, _ = st.run(ctx, [c2])
        if st.monitor(c2, i2[0], m2[0]):
            ctx.report("correspondence-broken", {"stream": st.name, "mode": st.mode, "case": c, "impl_trace": i, "impl_trace_rerun": i2[0],
                                                 "model_trace": m, "what": "non-reproducible difference on C18/c18"}, key=k, nfi=True)
        else:
            ctx.report("property-fails", {"stream": st.name, "mode": st.mode, "case": c2, "original_case": c, "impl_trace": i2[0], "model_trace": m2[0],
                                          "what": "readiness / poll results / wake-ups of the real acceptor differ from the model's (the property's) "
                                                  "prediction under the recorded handshake answers, or an accepted stream altered the payload"}, key=k)
        if len(seen) >= 5:
            break


def shrink_script(st, ctx, c):
    """drop ops from the end, then single ops, while the case still fails"""
    f = dict(x.split("=", 1) for x in c.split(";") if "=" in x)
    ops = f["ops"].split(".")

    def mk(o):
        return ";".join("%s=%s" % (k, ".".join(o) if k == "ops" else v) for k, v in f.items())

    def fails(o):
        i, m, _ = st.run(ctx, [mk(o)])
        return not st.monitor(mk(o), i[0], m[0])
    budget = 60
    while len(ops) > 1 and budget > 0:
        budget -= 1
        if fails(ops[:-1]):
            ops = ops[:-1]
        else:
            break
    j = 0
    while j < len(ops) and budget > 0:
        budget -= 1
        cand = ops[:j] + ops[j + 1:]
        if cand and fails(cand):
            ops = cand
        else:
            j += 1
    return mk(ops)


def replay(ctx, r):
    if r.get("stream") == "c18e2e":
        i = run_lines([ctx.impl_bin, "c18e2e"], [r["case"]], 1, 300, "impl")[0]
        ok, exp = e2e_monitor(r["case"], i)
        print("case    : %s\nimpl    : %s\nexpected: %s\nproperty predicate on implementation trace: %s" % (
            r["case"], i, " ".join(exp), "true" if ok else "FALSE (violation reproduced)"))
        return 0 if ok else 1
    st = poll_stream(ctx)
    i, m, minp = st.run(ctx, [r["case"]])
    ok = st.monitor(r["case"], i[0], m[0])
    print("case : %s\nmodel input: %s\nimpl : %s\nmodel: %s\nproperty predicate on implementation trace: %s" % (
        r["case"], minp[0], i[0], m[0], "true" if ok else "FALSE (violation reproduced)"))
    return 0 if ok else 1
