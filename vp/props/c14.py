"""C14 — Framed writes are lossless, ordered and bounded, and close flushes (actix-codec Framed, write half)."""
import itertools
import re
import zlib
from common import Stream

META = {
    "id": "C14",
    "driver": "codec",
    "harness": "h_codec",
    "coq_targets": ["Extract/XCodec.vo"],
    "level": "proof",
    "design_ref": "§5 C14, §6 D4",
    "technique": "Coq proof (prefix invariant wire ++ write_buf = concat(encodings of accepted items) over all Sink call sequences "
                 "and all transport scripts; flush/close/back-pressure/write-zero theorems) + extracted-model vs real "
                 "Framed<scripted AsyncWrite, codec> differential run through Sink::{poll_ready,start_send,poll_flush,poll_close}",
    "level_text": "Theorems C14_* hold for ALL item sequences, ALL scripts of write/flush/shutdown answers (accept k / Pending / zero / "
                  "error) and ALL interleavings of the four Sink calls on a Gallina model of Framed::{write,flush,close} and the Sink "
                  "impl; the model is tied to framed.rs by running the extracted model and the real Framed on the same cases "
                  "(enumerated call sequences x transport scripts with item sizes hitting HW exactly, random longer runs with sizes "
                  "straddling 1 KiB and 8 KiB); every return value, every transport call with the bytes it took, is_write_buf_empty/"
                  "full after every call and the final write_buf are compared; an independent Python monitor checks the property on "
                  "the implementation trace.",
    "level_note": "Trusted: Coq kernel, extraction, OCaml driver, Rust harness (scripted AsyncWrite), BytesMut modelled as a byte list "
                  "(capacity/reserve not modelled: LW only steers reserve).",
    "rule": "stream c14enum: every sequence of <= N Sink calls over {r, f, c, s<small>, s<fills to HW exactly>, s<HW>} x a sample of "
            "transport scripts (write answers from a fixed list incl. partial accepts, Pending, zero, error; flush and shutdown answers) "
            "for the codecs bytes and lines, plus lp with encode errors; stream c14rand: random runs of 5..40 calls, item sizes from "
            "{0,1,2,100,1023,1024,1025,4000,8190..8193,9000}, random answers. non-trivial = some bytes were written with a partial "
            "accept, Pending, zero or error on the way, or back-pressure was exerted, or close was called with data buffered.",
    "trusted_base": ["bytes::BytesMut modelled as a list (extend/advance); reserve/capacity not modelled",
                     "the transport is any AsyncWrite that takes a prefix of the offered buffer"],
    "assumptions": ["poll_write answers Ready(n) with n <= the offered length (an AsyncWrite contract; BytesMut::advance panics otherwise)",
                    "Encoder::encode either appends the item's encoding to dst or fails leaving dst untouched (true for LinesCodec, "
                    "BytesCodec and the harness' LpCodec)"],
}

HW = 8192


def blob(b):
    return bytes(b).hex() if len(b) <= 24 else "#%d.%08x" % (len(b), zlib.crc32(bytes(b)) & 0xFFFFFFFF)


def blob_len(t):
    return int(t[1:].split(".")[0]) if t.startswith("#") else len(t) // 2


_AZ = bytes(range(97, 123))


def payload(n, seed):
    """byte j of the item is 'a' + (seed + j) mod 26 (same formula in the harness and in the OCaml driver)"""
    return (_AZ * (n // 26 + 2))[seed % 26:seed % 26 + n]


def encoding(codec, tok):
    """bytes start_send appends for item token s<len>x<seed>, or None when Encoder::encode refuses it"""
    n, seed = tok[1:].split("x")
    p = payload(int(n), int(seed))
    if codec == "lines":
        return p + b"\n"
    if codec == "bytes":
        return p
    if codec == "lp":
        return None if len(p) > 254 else bytes([len(p)]) + p
    raise ValueError(codec)


ENTRY = re.compile(r"^([^\[]+)\[([^\]]*)\]=(\w+)/([E-])([F-])([R-])$")


def why(case, impl):
    """None when C14 holds on the implementation trace, else a short class name of what fails.
    Uses only: return values, the transport's record of calls/bytes, is_write_buf_empty/full, the final write_buf."""
    if impl.startswith(("PANIC", "CRASH", "HANG", "SKIPPED")):
        return "crash"
    codec, _, _, _, ops = case.split(";")
    codec = codec.split("+")[0]      # "+x": conversions before every call must not change anything
    optoks = ops.split(",") if ops else []
    body, _, fin = impl.rpartition("|B")
    ents = body.split(";") if body else []
    if len(ents) != len(optoks):
        return "shape"
    exp = bytearray()   # concatenation of the encodings of the items start_send accepted
    pos = 0             # how much of it the transport has taken
    full = False
    for tok, ent in zip(optoks, ents):
        m = ENTRY.match(ent)
        if not m or m.group(1) != tok:
            return "shape"
        evs = m.group(2).split(",") if m.group(2) else []
        res, fe, ff = m.group(3), m.group(4) == "E", m.group(5) == "F"
        if tok[0] == "s":
            enc = encoding(codec, tok)
            if evs:
                return "send-touches-transport"
            if (res == "ok") != (enc is not None) or res not in ("ok", "enc"):
                return "send-result"
            if res == "ok":
                exp += enc
        for ev in evs:
            if ev.startswith("w:"):
                n = blob_len(ev[2:])
                if n < 1 or pos + n > len(exp) or blob(exp[pos:pos + n]) != ev[2:]:
                    return "wire-not-a-prefix"      # lost, duplicated or reordered bytes
                pos += n
        if ("wz" in evs) != (res == "wz") or ("wz" in evs and evs[-1] != "wz"):
            return "write-zero"
        if tok == "f" and res == "ok" and not (fe and pos == len(exp) and evs and evs[-1] == "f:o"):
            return "flush-ok-with-bytes-buffered"
        if tok == "c" and res == "ok" and not (fe and pos == len(exp) and evs and evs[-1] == "s:o"):
            return "close-ok-with-bytes-buffered"
        if tok == "x" and (res != "ok" or evs):
            return "conversion-touches-transport"
        if tok == "r":
            if not full and not (res == "ok" and not evs):
                return "ready-below-hw"
            if full and (not evs or (res == "ok" and ff)):
                return "ready-no-backpressure"
        if fe != (pos == len(exp)) or ff != (len(exp) - pos >= HW) or (m.group(6) == "R") == ff:
            return "buffer-flags"
        full = ff
    if fin != blob(exp[pos:]):
        return "final-buffer"
    return None


def monitor(case, impl, model):
    return why(case, impl) is None


def finding_key(case, impl, model):
    return "c14-" + (why(case, impl) or "model-differs")


def nontrivial(case, model):
    return any(x in model for x in ("wp", "we", "wz", "f:p", "f:e", "s:p", "s:e", "F", "/-")) and "w:" in model


def shrink(case):
    f = case.split(";")
    # drop ops, drop transport answers, shrink items
    for idx in (4, 1, 2, 3):
        toks = f[idx].split(",") if f[idx] else []
        n = len(toks)
        k = n // 2
        while k >= 1:
            for i in range(0, n - k + 1, max(1, k)):
                g = list(f)
                g[idx] = ",".join(toks[:i] + toks[i + k:])
                yield ";".join(g)
            k //= 2
    toks = f[4].split(",") if f[4] else []
    for i, t in enumerate(toks):
        if t[0] == "s":
            n, seed = t[1:].split("x")
            n = int(n)
            for m in (0, 1, n // 2, n - 1, n - 1024, n - 8192):
                if 0 <= m < n:
                    g = list(f)
                    g[4] = ",".join(toks[:i] + ["s%dx%s" % (m, seed)] + toks[i + 1:])
                    yield ";".join(g)
    toks = f[1].split(",") if f[1] else []
    for i, t in enumerate(toks):
        if t[0] == "a":
            k = int(t[1:])
            for m in (1, k // 2, k - 1):
                if 1 <= m < k:
                    g = list(f)
                    g[1] = ",".join(toks[:i] + ["a%d" % m] + toks[i + 1:])
                    yield ";".join(g)
    for c in ("bytes", "lines"):
        if f[0] != c and f[0] != "lp":
            yield ";".join([c] + f[1:])


# ---------------------------------------------------------------------------------------------
WS_SCRIPTS = ["", "a1", "a2,p", "p", "z", "e", "a3,a3,a3", "a8191", "a8192,p", "a1,a1,z", "a5,e", "p,p", "a8000,a200", "a4096,z",
              "a0", "a100000"]
FS_SCRIPTS = ["", "p", "e", "p,e", "o,p"]
SS_SCRIPTS = ["", "p", "e", "p,o"]


def enum_cases(codec, N, per_seq, rng):
    if codec == "bytes":
        syms = ["r", "f", "c", "s3x0", "s8189x1", "s8192x2"]
    elif codec == "lines":
        syms = ["r", "f", "c", "s2x0", "s8188x1", "s8191x2"]      # +1 byte each for the LF
    else:
        syms = ["r", "f", "c", "s0x0", "s254x1", "s255x2"]          # lp: 255 is refused by the encoder
    scripts = [(w, f, s) for w in WS_SCRIPTS for f in FS_SCRIPTS for s in SS_SCRIPTS]
    out = []
    for n in range(1, N + 1):
        for seq in itertools.product(syms, repeat=n):
            pick = scripts if per_seq >= len(scripts) else rng.sample(scripts, per_seq)
            for (w, f, s) in pick:
                out.append("%s;%s;%s;%s;%s" % (codec, w, f, s, ",".join(seq)))
    return out


SIZES = [0, 1, 2, 100, 1023, 1024, 1025, 4000, 8190, 8191, 8192, 8193, 9000]
ACCEPTS = [1, 2, 3, 100, 1000, 1023, 1024, 1025, 4096, 8191, 8192, 8193, 20000]


def rand_case(rng):
    codec = rng.choice(["bytes", "lines", "lp"])
    n = rng.randint(5, 40)
    ops = []
    bursty = rng.random() < 0.5
    total = 0          # the model's cost per call is linear in write_buf: keep a run below ~40 KB of items
    while len(ops) < n:
        r = rng.random()
        if r < (0.55 if bursty else 0.35):
            if codec == "lp":
                size = rng.choice([0, 1, 2, 100, 253, 254, 254, 254, 255, 256, 300])
                reps = rng.choice([1, 1, 1, 5, 33]) if size == 254 and total < 20000 else 1
            else:
                size = rng.choice(SIZES if total < 32000 else SIZES[:7])
                reps = 1
            for _ in range(reps):
                ops.append("s%dx%d" % (size, rng.randint(0, 25)))
                total += size
        elif r < 0.7:
            ops.append("r")
        elif r < 0.9:
            ops.append("f")
        else:
            ops.append("c")
    calm = rng.random() < 0.3
    ws = []
    for _ in range(rng.randint(0, 25)):
        r = rng.random()
        if r < (0.9 if calm else 0.6):
            ws.append("a%d" % rng.choice(ACCEPTS))
        elif r < 0.9:
            ws.append("p")
        elif r < 0.95:
            ws.append("z")
        else:
            ws.append("e")
    fs = [rng.choice("ooope") for _ in range(rng.randint(0, 6))]
    ss = [rng.choice("oppe") for _ in range(rng.randint(0, 3))]
    return "%s;%s;%s;%s;%s" % (codec, ",".join(ws), ",".join(fs), ",".join(ss), ",".join(ops))


def small_case(rng):
    """short runs with tiny items and tiny accepts: every one of them can be re-evaluated inside Coq (to_coq)"""
    codec = rng.choice(["bytes", "lines", "lp"])
    ops = [rng.choice(["r", "f", "f", "c", "s%dx%d" % (rng.randint(0, 5), rng.randint(0, 25)), "s%dx%d" % (rng.randint(0, 5), rng.randint(0, 25))])
           for _ in range(rng.randint(1, 7))]
    ws = [rng.choice(["a1", "a1", "a2", "a3", "a5", "a100", "p", "z", "e", "a0"]) for _ in range(rng.randint(0, 6))]
    fs = [rng.choice("oope") for _ in range(rng.randint(0, 3))]
    ss = [rng.choice("ope") for _ in range(rng.randint(0, 2))]
    return "%s;%s;%s;%s;%s" % (codec, ",".join(ws), ",".join(fs), ",".join(ss), ",".join(ops))


def zl(b):
    return "[" + "; ".join(str(x) for x in b) + "]"


COQ_ENC = {"lines": "lines_encode", "bytes": "bytes_encode", "lp": "lp_encode"}
COQ_RES = {"ok": "ROk", "pend": "RPend", "io": "RIoErr", "wz": "RWriteZero", "enc": "REncErr"}
COQ_F = {"o": "FOk", "p": "FPending", "e": "FErr"}


def to_coq(case, model):
    if "#" in model or len(case) > 120:
        return None
    codec, w, f, s, ops = case.split(";")
    codec = codec.split("+")[0]
    optoks = ops.split(",") if ops else []
    gops = []
    for t in optoks:
        if t[0] == "s":
            n, seed = t[1:].split("x")
            if int(n) > 24:
                return None
            gops.append("OSend %s" % zl(payload(int(n), int(seed))))
        else:
            gops.append({"r": "OReady", "f": "OFlush", "c": "OClose"}[t])
    gw = []
    for t in (w.split(",") if w else []):
        gw.append({"p": "WPending", "z": "WZero", "e": "WErr"}.get(t) or "WAccept %s%%N" % t[1:])
    gf = [COQ_F[t] for t in (f.split(",") if f else [])]
    gs = [COQ_F[t] for t in (s.split(",") if s else [])]
    body, _, fin = model.rpartition("|B")
    outs = []
    for ent in (body.split(";") if body else []):
        m = ENTRY.match(ent)
        evs = []
        for ev in (m.group(2).split(",") if m.group(2) else []):
            if ev.startswith("w:"):
                evs.append("EvWrite %s" % zl(bytes.fromhex(ev[2:])))
            elif ev in ("wp", "we", "wz"):
                evs.append({"wp": "EvWPending", "we": "EvWErr", "wz": "EvWZero"}[ev])
            elif ev[0] == "f":
                evs.append("EvFlush %s" % COQ_F[ev[2]])
            else:
                evs.append("EvShutdown %s" % COQ_F[ev[2]])
        outs.append("(%s, [%s], %s, %s)" % (COQ_RES[m.group(3)], "; ".join(evs),
                                            "true" if m.group(4) == "E" else "false", "true" if m.group(5) == "F" else "false"))
    run = "run_write %s [%s] (mkW [] [%s] [%s] [%s])" % (COQ_ENC[codec], "; ".join(gops), "; ".join(gw), "; ".join(gf), "; ".join(gs))
    return ("(fst (%s), wbuf (snd (%s)))" % (run, run), "([%s], %s)" % ("; ".join(outs), zl(bytes.fromhex(fin))))


def streams(ctx):
    quick = ctx.tier == "quick"
    rng = ctx.rng
    enum = []
    plan = [("bytes", 4, 24), ("lines", 4, 12), ("lp", 3, 12)] if quick else [("bytes", 6, 16), ("lines", 5, 40), ("lp", 5, 16)]
    for codec, N, per in plan:
        enum += enum_cases(codec, N, per, rng)
    # every transport script at least once on a fixed interesting call sequence
    for w in WS_SCRIPTS:
        for f in FS_SCRIPTS:
            for s in SS_SCRIPTS:
                enum.append("bytes;%s;%s;%s;s5x0,c,c,f,s8192x1,r,r,c,c" % (w, f, s))
    s1 = Stream("c14enum", "c14", enum, monitor=monitor, nontrivial=nontrivial, shrink=shrink, finding_key=finding_key,
                to_coq=to_coq, coq_imports="From AN Require Import Model.Lines Model.Framed.", timeout=300 if quick else 1500,
                describe="every sequence of <= N Sink calls over {r,f,c,small item, item filling to HW exactly, item of HW} x sampled "
                         "transport scripts; plan (codec, N, scripts per sequence) = %s; %d cases" % (plan, len(enum)))
    nr = 10000 if quick else 300000
    rnd = [rand_case(rng) for _ in range(nr)]
    s2 = Stream("c14rand", "c14", rnd, monitor=monitor, nontrivial=nontrivial, shrink=shrink, finding_key=finding_key,
                timeout=300 if quick else 1500,
                describe="%d random runs of 5..40 Sink calls, item sizes from %s (lp: 0..300 incl. refused ones and bursts of 33 x 254), "
                         "write answers a<k> with k from %s / Pending / zero / error, random flush and shutdown answers"
                         % (nr, SIZES, ACCEPTS))
    ns = 5000 if quick else 200000
    sm = [small_case(rng) for _ in range(ns)]
    s3 = Stream("c14small", "c14", sm, monitor=monitor, nontrivial=nontrivial, shrink=shrink, finding_key=finding_key,
                to_coq=to_coq, coq_imports="From AN Require Import Model.Lines Model.Framed.", timeout=300 if quick else 1500,
                describe="%d random runs of 1..7 calls with items of 0..5 bytes and accepts of 0,1,2,3,5,100 bytes; a sample is "
                         "re-evaluated inside Coq with vm_compute (extraction guard)" % ns)
    # the state-preserving conversions (into_parts/from_parts, into_map_io, into_map_codec) before every Sink call
    pool = list(enum) + rnd[:3000 if quick else 60000]
    rng.shuffle(pool)
    conv = [c.replace(";", "+x;", 1) for c in pool[:3000 if quick else 60000]]
    # explicit conversion calls (model op OConv) placed at random between the Sink calls
    for c in pool[3000 if quick else 60000:][:2000 if quick else 40000]:
        f = c.split(";")
        toks = f[4].split(",") if f[4] else []
        for _ in range(rng.randint(1, 3)):
            # x: a state-preserving conversion; y: rebuilt from FRESH FramedParts carrying both buffers over in the public fields
            toks.insert(rng.randint(0, len(toks)), rng.choice("xy"))
        conv.append(";".join(f[:4] + [",".join(toks)]))
    # duplex use: reads (chunks, Pendings, an error, EOF from the peer) on the same Framed between the Sink calls
    for c in pool[:1500 if quick else 30000]:
        conv.append(c.replace(";", "+r%d;" % rng.randrange(1000), 1))
    # partial writes that leave a remainder in a buffer whose capacity has shrunk (advance) before the conversion
    for big in (8000, 8192, 7500, 9000, 16000):
        for acc in (7168, 7169, 7600, 8000, 8191, 1, 1024):
            for tail in ("f", "c", "s100x2,f", "r,s5x1,c"):
                conv.append("bytes+x;a%d,p;;;s%dx1,f,%s" % (acc, big, tail))
                conv.append("bytes;a%d,p;;;s%dx1,f,x,%s" % (acc, big, tail))
                conv.append("bytes;a%d,p;;;s%dx1,f,y,%s" % (acc, big, tail))
                conv.append("lines+x;a%d,p,a3,p;;;s%dx3,f,%s" % (acc, big, tail))
    s4 = Stream("c14conv", "c14", conv, monitor=monitor, nontrivial=nontrivial, shrink=shrink, finding_key=finding_key,
                timeout=300 if quick else 1500,
                describe="%d cases of the other streams re-run with Framed::from_parts(into_parts()), into_map_io and into_map_codec applied "
                         "before every Sink call, explicit conversions (x) and rebuilds from fresh FramedParts carrying the buffers over (y) between the calls, "
                         "the Framed also being read between the calls ('+r<seed>': the read half must not touch what is buffered for writing), "
                         "plus large partial writes followed by a conversion; the model is unchanged by construction "
                         "(conversions carry write_buf, read_buf and flags over)" % len(conv))
    return [s1, s2, s3, s4]
