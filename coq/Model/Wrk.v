(* Model/Wrk.v — executable model of actix-server/src/worker.rs `ServerWorker` (the worker's
   `Future::poll`, `check_readiness`, `restart_service`, `shutdown`, the counter guard) and of
   service.rs `StreamService::call` (the guard travels into the spawned task and is dropped
   after the service future).  No proofs here (Proofs/WrkFacts.v).

   Faithful, not tidy.  What looks odd is the code's:
   * the shared counter is incremented by the accept side AFTER the send (the send/inc gap): the
     model keeps it (`counter`, `gap`) because the WorkerAvailable wake-ups depend on it; since the
     repair of D6 `total()` no longer reads it;
   * in `WorkerState::Available` readiness of ALL services is re-checked before EVERY connection;
   * when the accept side has dropped its handle (conn_rx closed) the worker future resolves only
     if the stop channel is closed too (repair of D7); otherwise it waits for its stop command;
   * a graceful stop replaces `state` whatever it was (a pending restart is abandoned, a previous
     Shutdown's ack sender is dropped and the timeout starts again);
   * `Counter::dec` wakes the accept loop when the counter leaves `limit + 1` (D1 repaired).

   Environment objects are scripts: each service slot k owns a readiness script (one answer per
   `poll_ready`, default Ready(Ok) when exhausted, shared by all instances of the slot) and the
   create script of its factory (one answer per poll of a `factory.create()` future, default
   Ready(Ok)).  `factory_idx k = k = token k` (builder.rs allocates tokens sequentially and
   wrap_worker_services asserts `token = position`). *)
From Coq Require Export List ZArith Bool Lia Arith.
Export ListNotations.

Inductive rdy := RPend | ROk | RErr.
Inductive crt := CPend | COk | CErr.

(* WorkerServiceStatus *)
Inductive sstat := SAvailable | SUnavailable | SFailed | SRestarting | SStopping | SStopped.

Record svc := mkSvc { s_status : sstat; s_ready : list rdy; s_create : list crt }.

Inductive pkind := PRestart | PIndex | PFuel.

Inductive obs :=
| PollReady (k : nat) (r : rdy)      (* services[k].poll_ready answered r *)
| Call (k cid : nat)                 (* services[k].call(connection cid) *)
| Create (f : nat)                   (* factories[f].create() (new_service called) *)
| PollCreate (f : nat) (r : crt)     (* the create future was polled and answered r *)
| StopAck (sid : nat) (b : bool)     (* tx.send(b) of stop number sid *)
| StopLost (sid : nat)               (* the ack sender of stop sid was dropped unused *)
| Done                               (* the worker future returned Ready(()) *)
| Released (cid : nat)               (* connection cid was dropped (peer sees it closed) *)
| Wake                               (* WakerInterest::WorkerAvailable pushed by a guard drop *)
| Panic (p : pkind).

(* WorkerState; Shutdown carries the timer deadline, start_from and whose ack sender it holds *)
Inductive wstate :=
| WAvailable | WUnavailable
| WRestarting (tok : nat)
| WShutdown (deadline start : Z) (sid : nat)
| WDone | WPanicked.

Record cfg := mkCfg {
  c_limit : Z;                              (* max_concurrent_connections *)
  c_timeout : Z;                            (* shutdown_timeout, ms *)
  c_svcs : list (list rdy * list crt) }.

Record st := mkSt {
  ws : wstate;
  svcs : list svc;
  cq : list (nat * nat);      (* conn_rx: (token, cid), head = oldest *)
  cq_open : bool;             (* the accept side still holds its sender *)
  sq : list (bool * nat);     (* stop_rx: (graceful, sid) *)
  sq_open : bool;             (* some WorkerHandleServer (stop sender) is alive *)
  next_sid : nat;
  counter : Z;                (* the raw AtomicUsize (biased by 1) *)
  gap : bool;                 (* accept side has sent a connection but not yet inc'ed *)
  inprog : list nat;          (* called, service future not yet complete *)
  now : Z }.

Inductive op :=
| PushConn (tok cid : nat) | AcceptInc | PushStop (graceful : bool) | PollW
| Finish (cid : nat) | Advance (ms : Z) | CloseConn | CloseStop.

Definition set_ws s x := mkSt x (svcs s) (cq s) (cq_open s) (sq s) (sq_open s) (next_sid s) (counter s) (gap s) (inprog s) (now s).
Definition set_svcs s x := mkSt (ws s) x (cq s) (cq_open s) (sq s) (sq_open s) (next_sid s) (counter s) (gap s) (inprog s) (now s).
Definition set_cq s x := mkSt (ws s) (svcs s) x (cq_open s) (sq s) (sq_open s) (next_sid s) (counter s) (gap s) (inprog s) (now s).
Definition set_open s x := mkSt (ws s) (svcs s) (cq s) x (sq s) (sq_open s) (next_sid s) (counter s) (gap s) (inprog s) (now s).
Definition set_sq s x := mkSt (ws s) (svcs s) (cq s) (cq_open s) x (sq_open s) (next_sid s) (counter s) (gap s) (inprog s) (now s).
Definition set_sqopen s x := mkSt (ws s) (svcs s) (cq s) (cq_open s) (sq s) x (next_sid s) (counter s) (gap s) (inprog s) (now s).
Definition set_nsid s x := mkSt (ws s) (svcs s) (cq s) (cq_open s) (sq s) (sq_open s) x (counter s) (gap s) (inprog s) (now s).
Definition set_counter s x := mkSt (ws s) (svcs s) (cq s) (cq_open s) (sq s) (sq_open s) (next_sid s) x (gap s) (inprog s) (now s).
Definition set_gap s x := mkSt (ws s) (svcs s) (cq s) (cq_open s) (sq s) (sq_open s) (next_sid s) (counter s) x (inprog s) (now s).
Definition set_inprog s x := mkSt (ws s) (svcs s) (cq s) (cq_open s) (sq s) (sq_open s) (next_sid s) (counter s) (gap s) x (now s).
Definition set_now s x := mkSt (ws s) (svcs s) (cq s) (cq_open s) (sq s) (sq_open s) (next_sid s) (counter s) (gap s) (inprog s) x.

Definition init (c : cfg) : st :=
  mkSt WUnavailable (map (fun p => mkSvc SUnavailable (fst p) (snd p)) (c_svcs c))
       [] true [] true 0 1%Z false [] 0%Z.

(* ---------------------------------------------------------------------------------------- *)
(* counter                                                                                   *)

(* `Counter::dec`: `fetch_sub(1) - 1 == limit` (commit 65477de, the repair of D1; the pinned tree
   compared the pre-decrement value with `limit`).  The value before the decrement is >= 1
   whenever a guard exists (WrkFacts.inv_counter), so the `- 1` cannot underflow. *)
Definition dec_wakes (c : cfg) (pre : Z) : bool := (pre - 1 =? c_limit c)%Z.
Definition wake_obs (c : cfg) (pre : Z) : list obs := if dec_wakes c pre then [Wake] else [].

(* `WorkerCounter::total()` = `Rc::strong_count(&self.inner) - 1` = the number of live guards =
   connections picked up whose service future has not completed (repair of D6; the pinned tree
   read the shared atomic `load - 1`, which under-counts — and underflows — in the accept side's
   send/inc gap).  Exact and local to the worker thread; queued connections do not count. *)
Definition total (s : st) : Z := Z.of_nat (length (inprog s)).

(* ---------------------------------------------------------------------------------------- *)
(* check_readiness                                                                           *)

Definition polled (x : sstat) : bool :=
  match x with SAvailable | SUnavailable => true | _ => false end.

Definition next_ready (v : svc) : rdy * svc :=
  match s_ready v with
  | [] => (ROk, v)
  | a :: t => (a, mkSvc (s_status v) t (s_create v))
  end.

Definition next_create (v : svc) : crt * svc :=
  match s_create v with
  | [] => (COk, v)
  | a :: t => (a, mkSvc (s_status v) (s_ready v) t)
  end.

Definition with_status (v : svc) (x : sstat) : svc := mkSvc x (s_ready v) (s_create v).

Inductive crres := CROk (ready : bool) | CRErr (k : nat).

Definition cr_false (r : crres) : crres := match r with CROk _ => CROk false | e => e end.

(* services k, k+1, ... in order; stops at the first Ready(Err) *)
Fixpoint check_ready (k : nat) (l : list svc) : list svc * crres * list obs :=
  match l with
  | [] => ([], CROk true, [])
  | v :: t =>
      if polled (s_status v) then
        let '(a, v') := next_ready v in
        match a with
        | ROk => let '(t', r, o) := check_ready (S k) t in
                 (with_status v' SAvailable :: t', r, PollReady k ROk :: o)
        | RPend => let '(t', r, o) := check_ready (S k) t in
                   (with_status v' SUnavailable :: t', cr_false r, PollReady k RPend :: o)
        | RErr => (with_status v' SFailed :: t, CRErr k, [PollReady k RErr])
        end
      else let '(t', r, o) := check_ready (S k) t in (v :: t', r, o)
  end.

Fixpoint upd {A} (k : nat) (f : A -> A) (l : list A) : list A :=
  match l, k with
  | [], _ => []
  | x :: t, O => f x :: t
  | x :: t, S k' => x :: upd k' f t
  end.

(* ServerWorker::shutdown(force) *)
Definition shutdown_svcs (force : bool) (l : list svc) : list svc :=
  map (fun v => match s_status v with
                | SAvailable => with_status v (if force then SStopped else SStopping)
                | _ => v end) l.

(* restart_service(k, k) *)
Definition restart (s : st) (k : nat) : st :=
  set_ws (set_svcs s (upd k (fun v => with_status v SRestarting) (svcs s))) (WRestarting k).

(* ---------------------------------------------------------------------------------------- *)
(* the worker future resolves: the task that owns it drops it (field order: conn_rx, stop_rx,
   ..., state) *)
Definition drop_obs (s : st) : list obs :=
  map (fun x => Released (snd x)) (cq s)
  ++ map (fun x => StopLost (snd x)) (sq s)
  ++ match ws s with WShutdown _ _ sid => [StopLost sid] | _ => [] end.

Definition finish (s : st) (pre : list obs) : st * list obs :=
  (set_ws s WDone, pre ++ Done :: drop_obs s).

Definition panicked (s : st) (pre : list obs) (p : pkind) : st * list obs :=
  (set_ws s WPanicked, pre ++ [Panic p]).

(* the Shutdown state's `while let Ready(Some(conn)) = conn_rx.poll_recv()`: drop((conn, guard)) *)
Fixpoint drain (c : cfg) (q : list (nat * nat)) (cnt : Z) : Z * list obs :=
  match q with
  | [] => (cnt, [])
  | (_, cid) :: t => let '(cnt', o) := drain c t (cnt - 1)%Z in
                     (cnt', Released cid :: wake_obs c cnt ++ o)
  end.

(* ---------------------------------------------------------------------------------------- *)
(* one pass through `poll` up to the point where it returns, calls `self.poll(cx)` again (NTop)
   or goes round the `Available` loop (NLoop) *)
Inductive next := NRet | NTop | NLoop.

(* the `StopWorker` message handler at the top of poll; bool = poll returned *)
Definition stop_handler (c : cfg) (s : st) : st * list obs * bool :=
  match sq s with
  | [] => (s, [], false)
  | (g, sid) :: rest =>
      let s1 := set_sq s rest in
      let num := total s1 in
      if (num =? 0)%Z then (finish s1 [StopAck sid true], true)
      else if g then
        let lost := match ws s1 with WShutdown _ _ sid0 => [StopLost sid0] | _ => [] end in
        (set_ws (set_svcs s1 (shutdown_svcs false (svcs s1)))
                (WShutdown (now s1 + 1000) (now s1) sid), lost, false)
      else (finish (set_svcs s1 (shutdown_svcs true (svcs s1))) [StopAck sid false], true)
  end.

(* `WorkerState::Shutdown`: drain the queue, poll the 1 s timer, decide *)
Definition shutdown_step (c : cfg) (s : st) (dl start : Z) (sid : nat) : st * list obs :=
  let '(cnt, o1) := drain c (cq s) (counter s) in
  let s1 := set_counter (set_cq s []) cnt in
  if (now s1 <? dl)%Z then (s1, o1)
  else if (total s1 =? 0)%Z then finish (set_ws s1 WUnavailable) (o1 ++ [StopAck sid true])
  else if (c_timeout c <=? now s1 - start)%Z
       then finish (set_ws s1 WUnavailable) (o1 ++ [StopAck sid false])
       else (set_ws s1 (WShutdown (now s1 + 1000) start sid), o1).

(* `stop_rx.poll_recv` answered Ready(None): every stop sender is gone and nothing is queued *)
Definition stop_closed (s : st) : bool :=
  match sq s with [] => negb (sq_open s) | _ => false end.

Definition state_step (c : cfg) (s : st) : st * list obs * next :=
  match ws s with
  | WUnavailable =>
      let '(sv, r, o) := check_ready 0 (svcs s) in
      let s1 := set_svcs s sv in
      match r with
      | CROk true => (set_ws s1 WAvailable, o, NTop)
      | CROk false => (s1, o, NRet)
      | CRErr k => (restart s1 k, o ++ [Create k], NTop)
      end
  | WRestarting k =>
      match nth_error (svcs s) k with
      | None => (panicked s [] PIndex, NRet)
      | Some v =>
          let '(a, v') := next_create v in
          match a with
          | CPend => (set_svcs s (upd k (fun _ => v') (svcs s)), [PollCreate k CPend], NRet)
          | CErr => (panicked (set_svcs s (upd k (fun _ => v') (svcs s))) [PollCreate k CErr] PRestart, NRet)
          | COk => (set_ws (set_svcs s (upd k (fun _ => with_status v' SUnavailable) (svcs s))) WUnavailable,
                    [PollCreate k COk], NTop)
          end
      end
  | WShutdown dl start sid => (shutdown_step c s dl start sid, NRet)
  | WAvailable =>
      let '(sv, r, o) := check_ready 0 (svcs s) in
      let s1 := set_svcs s sv in
      match r with
      | CROk true =>
          match cq s1 with
          | [] =>
              (* conn_rx closed (the accept thread is gone): resolve only if no stop command can
                 arrive any more (stop_rx closed and empty), otherwise wait for it *)
              if cq_open s1 then (s1, o, NRet)
              else if stop_closed s1 then (finish s1 o, NRet) else (s1, o, NRet)
          | (tok, cid) :: rest =>
              match nth_error (svcs s1) tok with
              | None => (panicked (set_cq s1 rest) o PIndex, NRet)
              | Some _ => (set_inprog (set_cq s1 rest) (inprog s1 ++ [cid]), o ++ [Call tok cid], NLoop)
              end
          end
      | CROk false => (set_ws s1 WUnavailable, o, NTop)
      | CRErr k => (restart s1 k, o ++ [Create k], NTop)
      end
  | WDone | WPanicked => (s, [], NRet)
  end.

Definition pstep (c : cfg) (top : bool) (s : st) : st * list obs * next :=
  if top then
    let '(s0, o0, ret) := stop_handler c s in
    if ret then (s0, o0, NRet)
    else let '(s1, o1, nx) := state_step c s0 in (s1, o0 ++ o1, nx)
  else state_step c s.

Fixpoint piter (fuel : nat) (c : cfg) (top : bool) (s : st) : st * list obs :=
  match fuel with
  | O => panicked s [] PFuel
  | S f =>
      let '(s1, o1, nx) := pstep c top s in
      match nx with
      | NRet => (s1, o1)
      | NTop => let '(s2, o2) := piter f c true s1 in (s2, o1 ++ o2)
      | NLoop => let '(s2, o2) := piter f c false s1 in (s2, o1 ++ o2)
      end
  end.

(* termination measure of one poll: readiness-script entries still unread, queued connections,
   and how far the state is from `Available` *)
Definition ready_left (l : list svc) : nat := fold_right (fun v n => length (s_ready v) + n) 0 l.
Definition ws_off (w : wstate) : nat :=
  match w with WRestarting _ => 2 | WUnavailable => 1 | _ => 0 end.
Definition mu (s : st) : nat := 3 * ready_left (svcs s) + length (cq s) + ws_off (ws s).
Definition fuel_of (s : st) : nat := S (mu s).

Definition poll (c : cfg) (s : st) : st * list obs := piter (fuel_of s) c true s.

(* ---------------------------------------------------------------------------------------- *)
Definition finished (s : st) : bool :=
  match ws s with WDone | WPanicked => true | _ => false end.

Fixpoint remove_nat (x : nat) (l : list nat) : list nat :=
  match l with
  | [] => []
  | y :: t => if Nat.eqb x y then t else y :: remove_nat x t
  end.

Fixpoint mem_nat (x : nat) (l : list nat) : bool :=
  match l with [] => false | y :: t => Nat.eqb x y || mem_nat x t end.

Definition step (c : cfg) (s : st) (o : op) : st * list obs :=
  match o with
  | PushConn tok cid =>
      if cq_open s then
        (* the accept thread is sequential: a pending inc happens before its next send *)
        let s1 := if gap s then set_counter s (counter s + 1)%Z else s in
        (set_gap (set_cq s1 (cq s1 ++ [(tok, cid)])) true, [])
      else (s, [])
  | AcceptInc =>
      if gap s then (set_gap (set_counter s (counter s + 1)%Z) false, []) else (s, [])
  | PushStop g =>
      if sq_open s then (set_nsid (set_sq s (sq s ++ [(g, next_sid s)])) (S (next_sid s)), [])
      else (s, [])
  | PollW => poll c s
  | Finish cid =>
      (* the spawned task: `f.await` (the stream is dropped with f), then `drop(guard)` *)
      if mem_nat cid (inprog s) then
        (set_counter (set_inprog s (remove_nat cid (inprog s))) (counter s - 1)%Z,
         Released cid :: wake_obs c (counter s))
      else (s, [])
  | Advance ms => (set_now s (now s + Z.max 0 ms)%Z, [])
  | CloseConn =>
      (* the accept thread exits (its handles are dropped) only after its last dispatch is complete *)
      let s1 := if gap s then set_gap (set_counter s (counter s + 1)%Z) false else s in
      (set_open s1 false, [])
  | CloseStop => (set_sqopen s false, [])   (* the server side drops its WorkerHandleServer *)
  end.

(* one observation list per executed op; the run ends with the op in which the worker future
   resolved or panicked *)
Fixpoint run (c : cfg) (s : st) (ops : list op) : list (list obs) :=
  match ops with
  | [] => []
  | o :: t => if finished s then [] else let '(s', l) := step c s o in l :: run c s' t
  end.

Fixpoint exec (c : cfg) (s : st) (ops : list op) : st :=
  match ops with
  | [] => s
  | o :: t => if finished s then s else exec c (fst (step c s o)) t
  end.

Definition trace (c : cfg) (ops : list op) : list (list obs) := run c (init c) ops.

(* diagnostics printed next to the trace (internal values; never part of a verdict) *)
Fixpoint diag (c : cfg) (s : st) (ops : list op) : list (wstate * Z * nat) :=
  match ops with
  | [] => []
  | o :: t => if finished s then []
              else let s' := fst (step c s o) in (ws s', counter s', length (cq s')) :: diag c s' t
  end.

(* ======================================================================================== *)
(* Property predicates over observable traces (C07)                                          *)
(* ======================================================================================== *)

(* events produced by the services / factories / the future itself, in execution order; the
   other observations (Wake, StopAck, StopLost, Released) are collected after the op by the
   harness, so their position inside a segment is not observable *)
Definition is_main (e : obs) : bool :=
  match e with
  | PollReady _ _ | Call _ _ | Create _ | PollCreate _ _ | Done | Panic _ => true
  | _ => false
  end.

(* C07_call_after_ready.  Scan state: Some i = the last i events were
   PollReady 0 Ok, ..., PollReady (i-1) Ok. *)
Fixpoint car (n : nat) (r : option nat) (l : list obs) : bool :=
  match l with
  | [] => true
  | PollReady k ROk :: t =>
      car n (if Nat.eqb k 0 then Some 1
             else match r with
                  | Some i => if Nat.eqb i k then Some (S k) else None
                  | None => None end) t
  | Call _ _ :: t =>
      match r with
      | Some i => Nat.eqb i n && car n (Some 0) t
      | None => false
      end
  | _ :: t => car n None t
  end.

Definition C07_car_ok (n : nat) (tr : list (list obs)) : bool :=
  forallb (fun seg => car n None (filter is_main seg)) tr.

(* C07_restart / C07_restart_fail: adjacency discipline of the main events.
   a Ready(Err) of service k is directly followed by Create k and vice versa; a failed create
   poll is directly followed by the restart panic and vice versa; Create k is followed by a poll
   of that create future. *)
Definition rdy_eqb (a b : rdy) : bool :=
  match a, b with RPend, RPend | ROk, ROk | RErr, RErr => true | _, _ => false end.

Definition adj_pair (a b : obs) : bool :=
  (match a with
   | PollReady k RErr => match b with Create f => Nat.eqb f k | _ => false end
   | PollCreate _ CErr => match b with Panic PRestart => true | _ => false end
   | Create k => match b with PollCreate f _ => Nat.eqb f k | _ => false end
   | _ => true
   end)
  && (match b with
      | Create k => match a with PollReady f RErr => Nat.eqb f k | _ => false end
      | Panic PRestart => match a with PollCreate _ CErr => true | _ => false end
      | _ => true
      end).

Definition may_start (b : obs) : bool :=
  match b with Create _ | Panic PRestart => false | _ => true end.
Definition may_end (a : obs) : bool :=
  match a with PollReady _ RErr | PollCreate _ CErr | Create _ => false | _ => true end.

Fixpoint adj_ok (l : list obs) : bool :=
  match l with
  | [] => true
  | a :: t => match t with
              | [] => may_end a
              | b :: _ => adj_pair a b && adj_ok t
              end
  end.

Definition seg_adj_ok (l : list obs) : bool :=
  match l with [] => true | a :: _ => may_start a && adj_ok l end.

Definition C07_restart_ok (tr : list (list obs)) : bool :=
  forallb (fun seg => seg_adj_ok (filter is_main seg)) tr.

(* C07_fifo: the calls of a run, in order, are a prefix of the connections pushed, in order,
   each on the service of its listener token *)
Definition calls_of (l : list obs) : list (nat * nat) :=
  flat_map (fun e => match e with Call k cid => [(k, cid)] | _ => [] end) l.

Fixpoint pushes_of (ops : list op) : list (nat * nat) :=
  match ops with
  | [] => []
  | PushConn tok cid :: t => (tok, cid) :: pushes_of t
  | CloseConn :: _ => []
  | _ :: t => pushes_of t
  end.

Definition pair_eqb (a b : nat * nat) : bool := Nat.eqb (fst a) (fst b) && Nat.eqb (snd a) (snd b).

Fixpoint is_prefix (a b : list (nat * nat)) : bool :=
  match a, b with
  | [], _ => true
  | x :: a', y :: b' => pair_eqb x y && is_prefix a' b'
  | _ :: _, [] => false
  end.

Definition C07_fifo_ok (ops : list op) (tr : list (list obs)) : bool :=
  is_prefix (calls_of (concat tr)) (pushes_of ops).

Definition C07_ok (n : nat) (ops : list op) (tr : list (list obs)) : bool :=
  C07_car_ok n tr && C07_restart_ok tr && C07_fifo_ok ops tr.
