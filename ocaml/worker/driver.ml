(* Driver for the extracted worker model (Model/Wrk.v).  One case per stdin line, one trace per
   stdout line; the text format is documented in harness/h_worker/src/main.rs.
   usage: driver <mode>
     wrk      case -> trace ## diag
     mon07    case <TAB> trace -> ok | names of the C07 predicates that are false on that trace
     join     join_all history -> polls and result (Model/SrvStop.v join_poll / join_results) *)
open Gen

let rec pos_of_int n = if n = 1 then XH else if n land 1 = 1 then XI (pos_of_int (n lsr 1)) else XO (pos_of_int (n lsr 1))
let z_of_int n = if n = 0 then Z0 else if n > 0 then Zpos (pos_of_int n) else Zneg (pos_of_int (-n))
let rec int_of_pos = function XH -> 1 | XO p -> 2 * int_of_pos p | XI p -> 2 * int_of_pos p + 1
let int_of_z = function Z0 -> 0 | Zpos p -> int_of_pos p | Zneg p -> - (int_of_pos p)
let rec nat_of_int n = if n <= 0 then O else S (nat_of_int (n - 1))
let rec int_of_nat = function O -> 0 | S n -> 1 + int_of_nat n

exception Bad

let split_once c s =
  match String.index_opt s c with
  | None -> raise Bad
  | Some i -> (String.sub s 0 i, String.sub s (i + 1) (String.length s - i - 1))

let int_of s = match int_of_string_opt s with Some n when n >= 0 -> n | _ -> raise Bad
let tail s = String.sub s 1 (String.length s - 1)
let chars s = List.init (String.length s) (String.get s)

let parse_cfg s =
  let lim = ref None and tmo = ref None and svcs = ref None in
  List.iter (fun kv ->
    let (k, v) = split_once '=' kv in
    match k with
    | "L" -> lim := Some (int_of v)
    | "T" -> tmo := Some (int_of v)
    | "S" ->
        svcs := Some (List.map (fun sv ->
          let (r, f) = split_once ':' sv in
          (List.map (function 'P' -> RPend | 'O' -> ROk | 'E' -> RErr | _ -> raise Bad) (chars r),
           List.map (function 'p' -> CPend | 'o' -> COk | 'e' -> CErr | _ -> raise Bad) (chars f)))
          (String.split_on_char '/' v))
    | _ -> raise Bad) (String.split_on_char ',' s);
  match !lim, !tmo, !svcs with
  | Some l, Some t, Some sv ->
      if List.length sv > 64 then raise Bad;
      { c_limit = z_of_int l; c_timeout = z_of_int t; c_svcs = sv }
  | _ -> raise Bad

let parse_op t =
  match t with
  | "i" -> AcceptInc | "sg" -> PushStop true | "sf" -> PushStop false | "p" -> PollW | "x" -> CloseConn | "y" -> CloseStop
  | _ ->
    if t = "" then raise Bad else
    match t.[0] with
    | 'c' -> let (a, b) = split_once '.' (tail t) in PushConn (nat_of_int (int_of a), nat_of_int (int_of b))
    | 'f' -> Finish (nat_of_int (int_of (tail t)))
    | 'a' -> Advance (z_of_int (int_of (tail t)))
    | _ -> raise Bad

let parse_case line =
  let (c, o) = split_once ';' line in
  let ops = List.filter (fun t -> t <> "") (String.split_on_char ' ' o) in
  (parse_cfg c, List.map parse_op ops)

(* ---- printing ---- *)
let rdy_c = function RPend -> 'P' | ROk -> 'O' | RErr -> 'E'
let crt_c = function CPend -> 'p' | COk -> 'o' | CErr -> 'e'
let pk_s = function PRestart -> "restart" | PIndex -> "index" | PFuel -> "fuel"

let show_seg (l : obs list) =
  let main = List.filter_map (function
    | PollReady (k, r) -> Some (Printf.sprintf "r%d%c" (int_of_nat k) (rdy_c r))
    | Call (k, cid) -> Some (Printf.sprintf "k%d.%d" (int_of_nat k) (int_of_nat cid))
    | Create f -> Some (Printf.sprintf "n%d" (int_of_nat f))
    | PollCreate (f, r) -> Some (Printf.sprintf "q%d%c" (int_of_nat f) (crt_c r))
    | Done -> Some "D"
    | Panic p -> Some ("!" ^ pk_s p)
    | _ -> None) l in
  let panicked = List.exists (function Panic _ -> true | _ -> false) l in
  if panicked then String.concat " " main else
  let wakes = List.length (List.filter (function Wake -> true | _ -> false) l) in
  let acks = List.sort compare (List.filter_map (function
    | StopAck (sid, b) -> Some (int_of_nat sid, Printf.sprintf "A%d%c" (int_of_nat sid) (if b then 't' else 'f'))
    | StopLost sid -> Some (int_of_nat sid, Printf.sprintf "X%d" (int_of_nat sid))
    | _ -> None) l) in
  let rel = List.sort compare (List.filter_map (function Released cid -> Some (int_of_nat cid) | _ -> None) l) in
  String.concat " " (main @ (if wakes > 0 then [Printf.sprintf "W%d" wakes] else [])
                     @ List.map snd acks @ List.map (fun c -> Printf.sprintf "R%d" c) rel)

let ws_s = function
  | WAvailable -> "Available" | WUnavailable -> "Unavailable" | WRestarting _ -> "Restarting"
  | WShutdown _ -> "Shutdown" | WDone -> "Done" | WPanicked -> "panicked"

let show_diag ((w, cnt), q) =
  match w with
  | WPanicked -> "panicked"
  | _ -> Printf.sprintf "%s:%d:%d" (ws_s w) (int_of_z cnt) (int_of_nat q)

let wrk line =
  try
    let (c, ops) = parse_case line in
    String.concat "|" (List.map show_seg (trace c ops)) ^ " ## " ^ String.concat "|" (List.map show_diag (diag c (init c) ops))
  with Bad -> "BADCASE"

(* ---- parsing a trace back (the implementation's), for the extracted monitors ---- *)
let parse_ev t : obs list =
  if t = "" then raise Bad else
  let body = tail t in
  match t.[0] with
  | 'r' ->
      let n = String.length body in
      if n < 2 then raise Bad;
      let k = int_of (String.sub body 0 (n - 1)) in
      [PollReady (nat_of_int k, (match body.[n-1] with 'P' -> RPend | 'O' -> ROk | 'E' -> RErr | _ -> raise Bad))]
  | 'k' -> let (a, b) = split_once '.' body in [Call (nat_of_int (int_of a), nat_of_int (int_of b))]
  | 'n' -> [Create (nat_of_int (int_of body))]
  | 'q' ->
      let n = String.length body in
      if n < 2 then raise Bad;
      let k = int_of (String.sub body 0 (n - 1)) in
      [PollCreate (nat_of_int k, (match body.[n-1] with 'p' -> CPend | 'o' -> COk | 'e' -> CErr | _ -> raise Bad))]
  | 'D' -> if body = "" then [Done] else raise Bad
  | '!' -> [Panic (match body with "restart" -> PRestart | "index" -> PIndex | _ -> PFuel)]
  | 'W' -> List.init (int_of body) (fun _ -> Wake)
  | 'A' ->
      let n = String.length body in
      if n < 2 then raise Bad;
      [StopAck (nat_of_int (int_of (String.sub body 0 (n - 1))), (match body.[n-1] with 't' -> true | 'f' -> false | _ -> raise Bad))]
  | 'X' -> [StopLost (nat_of_int (int_of body))]
  | 'R' -> [Released (nat_of_int (int_of body))]
  | _ -> raise Bad

let parse_trace s : obs list list =
  let main = match Str.bounded_split_delim (Str.regexp_string " ## ") s 2 with m :: _ -> m | [] -> "" in
  List.map (fun seg -> List.concat_map parse_ev (List.filter (fun t -> t <> "") (String.split_on_char ' ' seg)))
    (String.split_on_char '|' main)

let mon07 line =
  try
    let (case, tr) = split_once '\t' line in
    let (c, ops) = parse_case case in
    let tr = parse_trace tr in
    let n = nat_of_int (List.length c.c_svcs) in
    let bad = (if c07_car_ok n tr then [] else ["car"]) @ (if c07_restart_ok tr then [] else ["restart"])
              @ (if c07_fifo_ok ops tr then [] else ["fifo"]) in
    if bad = [] then "ok" else String.concat "," bad
  with Bad | Failure _ | Invalid_argument _ -> "unparsable"

(* ---- join_all: "n;poll|poll|..." (see harness) against SrvStop.join_poll / join_results ---- *)
let join line =
  try
    let (n, polls) = split_once ';' line in
    let n = int_of n in
    if n > 64 then raise Bad;
    let acks = ref (List.init n (fun _ -> WPending)) in
    let res = ref (List.init n (fun _ -> None)) in
    let segs = ref [] in
    let fin = ref false in
    List.iter (fun p ->
      if not !fin then begin
        List.iter (fun kv ->
          if kv <> "" then begin
            let (i, v) = split_once '=' kv in
            let i = int_of i in
            if i >= n then raise Bad;
            let a = match v with "t" -> WAcked true | "f" -> WAcked false | "x" -> WDropped | _ -> raise Bad in
            acks := set_nth (nat_of_int i) a !acks
          end) (String.split_on_char ',' p);
        let (res', o) = join_poll O !res !acks in
        res := res';
        let evs = List.filter_map (function
          | OJoinPolled (i, r) -> Some (Printf.sprintf "p%d%c" (int_of_nat i) (if r then '+' else '-'))
          | _ -> None) o in
        match join_results res' with
        | Some l ->
            fin := true;
            let vs = String.concat "" (List.map (function Some true -> "t" | Some false -> "f" | None -> "x") l) in
            segs := String.concat " " (evs @ ["=" ^ vs]) :: !segs
        | None -> segs := String.concat " " (evs @ ["-"]) :: !segs
      end) (String.split_on_char '|' polls);
    String.concat "|" (List.rev !segs)
  with Bad | Failure _ | Invalid_argument _ -> "BADCASE"

let () =
  let f = match Sys.argv.(1) with
    | "wrk" -> wrk | "mon07" -> mon07 | "join" -> join
    | m -> failwith ("unknown mode " ^ m) in
  try while true do
    let line = input_line stdin in
    print_string (f line); print_char '\n'; flush stdout
  done with End_of_file -> ()
