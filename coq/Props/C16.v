(* Props/C16.v — local-channel mpsc: FIFO, exactly once, clean closure, no lost wake-up.
   ONLY statements, each closed by `exact <lemma>`, non-vacuity Examples, Print Assumptions.
   Scripts are arbitrary lists over {Send i v, CloneSender i, DropSender i, Close i, PollRecv w,
   SenderFromReceiver, DropReceiver}: any length, any number of senders, any waker ids; an op that
   names a dead handle is not executed (Rust ownership forbids it) and is reported `RInvalid`.
   The model is the tree AFTER the repair of defect D5 (/repo 0de8a5f); the pinned behaviour is
   refuted in Proofs/ChanPinned.v (not a dependency of this file). *)
From AN Require Import Model.Chan Proofs.ChanFacts.

(* Refinement to the reference FIFO queue: every successful send appends, every poll that yields
   an item yields the head of the queue and removes it, a poll yields no item only when the queue
   is empty, dropping the receiver discards the queue. *)
Theorem C16_fifo : forall s, fifo_ok s (chan_run s) = true.
Proof. exact fifo_holds. Qed.

(* What the FIFO predicate means on ANY trace it accepts (model run or implementation trace):
   the received values are a prefix of the successfully sent values — in send order, each once. *)
Theorem C16_fifo_prefix : forall s tr,
  fifo_ok s tr = true -> exists rest, sent_ok s tr = received s tr ++ rest.
Proof. exact fifo_prefix. Qed.

(* ... and a poll withholds nothing: it yields the oldest undelivered message when there is one,
   and Pending / end of stream only when everything sent so far has been delivered. *)
Theorem C16_fifo_complete : forall s1 tr1 w r ws,
  length s1 = length tr1 ->
  fifo_ok (s1 ++ [PollRecv w]) (tr1 ++ [Obs (RPoll r) ws]) = true ->
  match r with
  | Item v => exists rest, sent_ok s1 tr1 = received s1 tr1 ++ v :: rest
  | _ => sent_ok s1 tr1 = received s1 tr1
  end.
Proof. exact fifo_complete. Qed.

(* `send` fails exactly when a Close or DropReceiver has been executed before it. *)
Theorem C16_send_err : forall s, send_err_ok s (chan_run s) = true.
Proof. exact send_err_holds. Qed.

(* If the receiver's last poll returned Pending (waker w, not woken since), then the next successful
   send, the drop of the last sender, and close each wake w. *)
Theorem C16_wake : forall s, wake_ok s (chan_run s) = true.
Proof. exact wake_holds. Qed.

(* Exactly once, and nothing else is woken: an op wakes at most the waker of the most recent Pending
   poll that has not been woken since, only a send / sender drop / close does, and at most once. *)
Theorem C16_wake_once : forall s, wake_once_ok s (chan_run s) = true.
Proof. exact wake_once_holds. Qed.

(* Clean closure: while the channel is closed or has no sender, a poll never returns Pending
   (with C16_fifo: it drains the queue, then yields end of stream, for as long as that holds —
   closed is permanent); and end of stream is yielded only then. *)
Theorem C16_end : forall s, end_ok s (chan_run s) = true.
Proof. exact end_holds. Qed.

(* The conjunction that is run as the monitor on implementation traces. *)
Theorem C16_holds : forall s, C16_ok s (chan_run s) = true.
Proof. exact C16_ok_run. Qed.

Theorem C16_run_length : forall s, length (chan_run s) = length s.
Proof. intros s. exact (chan_run_length s chan_init). Qed.

(* ---- non-vacuity ---- *)
(* three senders, interleaved sends and polls, re-registration (only waker 1 is woken), last-sender
   drop wakes, end of stream *)
Example C16_example_run :
  chan_run [CloneSender 0; PollRecv 0; PollRecv 1; Send 1 7; Send 0 8; PollRecv 0; PollRecv 0;
            PollRecv 0; DropSender 0; DropSender 1; PollRecv 1; DropSender 1]
  = [Obs RUnit []; Obs (RPoll Pending) []; Obs (RPoll Pending) []; Obs (RSent true) [1]; Obs (RSent true) [];
     Obs (RPoll (Item 7)) []; Obs (RPoll (Item 8)) []; Obs (RPoll Pending) []; Obs RUnit []; Obs RUnit [0];
     Obs (RPoll Finished) []; Obs RInvalid []].
Proof. vm_compute. reflexivity. Qed.
(* the histories that failed on the pinned tree (D5): close wakes; closed + live sender drains, then ends *)
Example C16_example_close_wakes :
  chan_run [PollRecv 0; Close 0; DropSender 0; PollRecv 0]
  = [Obs (RPoll Pending) []; Obs RUnit [0]; Obs RUnit []; Obs (RPoll Finished) []].
Proof. vm_compute. reflexivity. Qed.
Example C16_example_closed_ends :
  chan_run [Send 0 1; Close 0; Send 0 2; PollRecv 0; PollRecv 0; PollRecv 1]
  = [Obs (RSent true) []; Obs RUnit []; Obs (RSent false) []; Obs (RPoll (Item 1)) [];
     Obs (RPoll Finished) []; Obs (RPoll Finished) []].
Proof. vm_compute. reflexivity. Qed.
(* revival through Receiver::sender() after the last sender is gone *)
Example C16_example_revival :
  chan_run [DropSender 0; PollRecv 0; SenderFromReceiver; PollRecv 0; Send 1 5; PollRecv 1]
  = [Obs RUnit []; Obs (RPoll Finished) []; Obs RUnit []; Obs (RPoll Pending) []; Obs (RSent true) [0];
     Obs (RPoll (Item 5)) []].
Proof. vm_compute. reflexivity. Qed.
(* hypotheses of C16_fifo_prefix / C16_fifo_complete are satisfiable on a non-trivial instance *)
Example C16_fifo_prefix_example :
  fifo_ok [Send 0 1; Send 0 2; PollRecv 0; DropReceiver; Send 0 3]
          [Obs (RSent true) []; Obs (RSent true) []; Obs (RPoll (Item 1)) []; Obs RUnit []; Obs (RSent false) []] = true.
Proof. vm_compute. reflexivity. Qed.
Example C16_fifo_complete_example :
  fifo_ok ([Send 0 1; PollRecv 0] ++ [PollRecv 0])
          ([Obs (RSent true) []; Obs (RPoll (Item 1)) []] ++ [Obs (RPoll Pending) []]) = true.
Proof. vm_compute. reflexivity. Qed.
(* the predicates are not trivially true: they reject the pinned (D5) traces, reordering,
   duplication, loss, a missed last-sender wake and a spurious wake *)
Example C16_rejects_close_no_wake :
  wake_ok [PollRecv 0; Close 0] [Obs (RPoll Pending) []; Obs RUnit []] = false.
Proof. vm_compute. reflexivity. Qed.
Example C16_rejects_closed_pending :
  end_ok [Close 0; PollRecv 0] [Obs RUnit []; Obs (RPoll Pending) []] = false.
Proof. vm_compute. reflexivity. Qed.
Example C16_rejects_early_end :
  end_ok [PollRecv 0] [Obs (RPoll Finished) []] = false.
Proof. vm_compute. reflexivity. Qed.
Example C16_rejects_reorder :
  fifo_ok [Send 0 1; Send 0 2; PollRecv 0] [Obs (RSent true) []; Obs (RSent true) []; Obs (RPoll (Item 2)) []] = false.
Proof. vm_compute. reflexivity. Qed.
Example C16_rejects_duplicate :
  fifo_ok [Send 0 1; PollRecv 0; PollRecv 0] [Obs (RSent true) []; Obs (RPoll (Item 1)) []; Obs (RPoll (Item 1)) []] = false.
Proof. vm_compute. reflexivity. Qed.
Example C16_rejects_withheld :
  fifo_ok [Send 0 1; PollRecv 0] [Obs (RSent true) []; Obs (RPoll Pending) []] = false.
Proof. vm_compute. reflexivity. Qed.
Example C16_rejects_last_drop_no_wake :
  wake_ok [CloneSender 0; PollRecv 1; DropSender 0; DropSender 1]
          [Obs RUnit []; Obs (RPoll Pending) []; Obs RUnit []; Obs RUnit []] = false.
Proof. vm_compute. reflexivity. Qed.
Example C16_rejects_spurious_wake :
  wake_once_ok [PollRecv 0; CloneSender 0] [Obs (RPoll Pending) []; Obs RUnit [0]] = false.
Proof. vm_compute. reflexivity. Qed.
Example C16_rejects_send_after_close :
  send_err_ok [Close 0; Send 0 1] [Obs RUnit []; Obs (RSent true) []] = false.
Proof. vm_compute. reflexivity. Qed.

Print Assumptions C16_fifo.
Print Assumptions C16_fifo_prefix.
Print Assumptions C16_fifo_complete.
Print Assumptions C16_send_err.
Print Assumptions C16_wake.
Print Assumptions C16_wake_once.
Print Assumptions C16_end.
Print Assumptions C16_holds.
Print Assumptions C16_run_length.
