(* Props/C01.v — each accepted connection reaches exactly one call of its listener's service.
   ONLY statements, each closed by `exact <lemma>`, with Print Assumptions.

   Model: Model/Srv.v (accept loop + environment) and Model/Builder.v (token allocation).
   Vocabulary (Proofs/SrvConserve.v, SrvConserve3.v, SrvConserve4.v):
     places st = backlog_ids st ++ queued st ++ picked st ++ gone st
       backlog_ids : ids waiting in a listener's accept queue
       queued      : ids in the connection queue of a worker generation (all generations)
       picked      : ids picked up by a worker (a counter guard is alive)
       gone        : ids with an explicit EvReleased (guard dropped: finished or drained at shutdown),
                     EvLost (queued at a worker that was killed), EvDropNoWorker ("no workers") or
                     EvConnFail (client refused) event
     script_conns os = the (listener, id) pairs of all Connect ops of the script, also inside yield schedules;
     fresh_cids os   = these ids are pairwise distinct;  home os c = the listener id c was connected to;
     top_connected nl os = ids of the top-level Connect ops to an existing listener (a Connect inside a yield
                     schedule runs only if the dispatch it is attached to happens).
   NOT in this model: the worker's own `services[msg.token].call(..)` is the worker group's theorem
   (Model/Wrk.v, event `Call svc cid`, C07); `FromStream::from_mio` (fd hand-over) is exercised by the
   harness, not modelled. *)
From Coq Require Import List ZArith NArith Bool Permutation.
From AN Require Import Model.SrvE2E Proofs.SrvPauseB Proofs.SrvStrand Proofs.SrvE2EFacts.
From AN Require Import Model.Srv Model.Builder.
From AN Require Import Proofs.SrvConserve Proofs.SrvConserve2 Proofs.SrvConserve3 Proofs.SrvConserve4 Proofs.BuilderFacts.
From AN Require Proofs.SrvInv Proofs.SrvFault.
From AN Require Model.Wrk Proofs.WrkFacts.
Import ListNotations.

(* Conservation, for EVERY script (kills, respawns, commands, injected errors, yield schedules, any limit,
   any number of workers and listeners): no id is ever in two places (never in two queues, never queued and
   picked, never dispatched after it left), every id that is somewhere was connected to an existing listener,
   and — unless the accept thread itself has panicked or spun — every connected id is still somewhere. *)
Theorem C01_conservation : forall (L : Z) W kinds os,
  fresh_cids os = true ->
  let st := run L (init W kinds) os in
  NoDup (places st) /\
  (forall c, In c (places st) -> exists tok, In (tok, c) (script_conns os) /\ tok < length kinds) /\
  (err st = None -> forall c, In c (top_connected (length kinds) os) -> In c (places st)).
Proof. exact conservation. Qed.

(* ... and the accept thread does not panic or spin for well-formed scripts (SrvFault.no_panic_no_spin:
   1..512 workers, respawned indices < 512, AcceptTok tokens in range), so there nothing is ever lost. *)
Theorem C01_conservation_wf : forall (L : Z) W kinds os,
  1 <= W <= 512 -> forallb SrvFault.wf_op os = true -> forallb (SrvInv.tok_ok (length kinds)) os = true ->
  fresh_cids os = true ->
  let st := run L (init W kinds) os in
  err st = None /\ NoDup (places st) /\ forall c, In c (top_connected (length kinds) os) -> In c (places st).
Proof. exact conservation_wf. Qed.

(* When no yield schedule connects anybody, the places are exactly (a permutation of) the connected ids. *)
Theorem C01_conservation_exact : forall (L : Z) W kinds os,
  fresh_cids os = true -> ys_no_connect os = true ->
  let st := run L (init W kinds) os in
  err st = None -> Permutation (places st) (top_connected (length kinds) os).
Proof. exact conservation_exact. Qed.

(* No silent disappearance, from ANY state: an id that is somewhere stays somewhere; since the only
   places outside backlogs/queues/picked lists are the explicit events, an id leaves the system only through
   EvReleased, EvLost, EvDropNoWorker (or is refused with EvConnFail before it ever entered). *)
Theorem C01_stays : forall (L : Z) st os c,
  err (run L st os) = None -> In c (places st) -> In c (places (run L st os)).
Proof. exact stays. Qed.

(* "no workers": send_connection drops a connection only when the send failed (the worker at `next` is
   gone) and removing that handle left `handles` empty; in every other case no drop event is emitted. *)
Theorem C01_no_silent_drop : forall (L : Z) st x ys st' ys' r,
  send_connection L st x ys = (st', ys', r) ->
  drops st' = drops st \/
  (drops st' = c_id x :: drops st /\ handles st' = [] /\ r = SOk /\
   exists g w, nth_error (handles st) (next st) = Some g /\ nth_error (ws st) g = Some w /\ w_open w = false).
Proof. exact drop_only_without_handles. Qed.

(* While at least one handle's worker is alive, accept_one never drops the connection: it ends with a
   dispatch event for it (or the accept thread has panicked/spun) — whatever runs at the yield point. *)
Theorem C01_live_worker_delivers : forall (L : Z) fuel st x ys st' ys',
  (exists g w, In g (handles st) /\ nth_error (ws st) g = Some w /\ w_open w = true) ->
  accept_one L fuel st x ys = (st', ys') ->
  (exists evs, trace st' = evs ++ trace st /\ drops_of evs = []) /\
  (err st' = None -> exists g idx n, In (EvDispatch (c_id x) (c_tok x) g idx n) (trace st')).
Proof. exact accept_one_live. Qed.

(* Without Kill ops every worker generation stays alive and no EvLost / EvDropNoWorker / EvFaulted event ever
   occurs: an id then leaves only by EvReleased (this is the instance the property's quantifier asks for). *)
Theorem C01_no_kill_no_loss : forall (L : Z) W kinds os,
  no_kill os = true ->
  let st := run L (init W kinds) os in
  (forall g w, nth_error (ws st) g = Some w -> w_open w = true) /\
  (forall e, In e (trace st) -> match e with EvLost _ | EvDropNoWorker _ | EvFaulted _ => False | _ => True end).
Proof. exact no_kill_no_fault. Qed.

(* Exactly once: at most one dispatch event per id (EvDispatch is emitted only by a successful send), any two
   dispatch events of an id coincide, and a connection held by worker generation g has its dispatch event
   to g — so it was sent to g and to nobody else. *)
Theorem C01_once : forall (L : Z) W kinds os,
  fresh_cids os = true ->
  let st := run L (init W kinds) os in
  (forall c, cnt c (disp st) <= 1) /\
  (forall c tok g idx n tok' g' idx' n',
     In (EvDispatch c tok g idx n) (trace st) -> In (EvDispatch c tok' g' idx' n') (trace st) ->
     tok' = tok /\ g' = g /\ idx' = idx /\ n' = n) /\
  (forall g w x, nth_error (ws st) g = Some w -> In x (w_queue w ++ w_picked w) ->
     exists n, In (EvDispatch (c_id x) (c_tok x) g (w_idx w) n) (trace st)).
Proof. exact once. Qed.

(* Routing: the token a connection carries (Conn{io, token}) is the listener it was connected to — in the
   accept queues, in every worker queue / picked list, and in every dispatch event. *)
Theorem C01_routing : forall (L : Z) W kinds os,
  fresh_cids os = true ->
  let st := run L (init W kinds) os in
  (forall tok l c, nth_error (lsts st) tok = Some l -> In c (l_backlog l) -> home os c = Some tok) /\
  (forall g w x, nth_error (ws st) g = Some w -> In x (w_queue w ++ w_picked w) ->
     home os (c_id x) = Some (c_tok x) /\ c_tok x < length kinds) /\
  (forall c tok g idx n, In (EvDispatch c tok g idx n) (trace st) -> home os c = Some tok /\ tok < length kinds).
Proof. exact routing. Qed.

(* "its listener's service": for every chain of bind/listen/bind_uds/listen_uds calls that returns a builder,
   `sockets[t]` (what accept() uses for token t) is the listener registered under token t, `factories[t]`
   carries token t and stems from the same call, the assertion of wrap_worker_services never fires, and
   `services[t]` (what the worker calls for Conn{token: t}) was created by that call's factory. *)
Theorem C01_builder_tokens : forall cs b,
  build 0 cs empty = Some b ->
  length (b_factories b) = length (b_sockets b) /\
  (forall t s, accept_socket b t = Some s ->
     registered_token s = t /\ nth_error (b_factories b) t = Some {| f_token := t; f_call := s_call s |}) /\
  exists svcs, worker_services b = Some svcs /\ length svcs = length (b_sockets b) /\
    forall t s, accept_socket b t = Some s ->
      service_for svcs t = Some {| ws_factory_idx := t; ws_call := s_call s |}.
Proof. exact builder_tokens. Qed.

(* ---------- non-vacuity ---------- *)
(* Two listeners (TCP, Unix), two workers, limit 2: a dispatch whose yield point connects another client and
   kills the other worker, a completion, the kill of the last worker (connection 5 meets "no workers"),
   a respawn, a shutdown drain, and connections left in a backlog, a queue and a picked list. *)
Definition ex_faulty : list op :=
  [E (Connect 0 1%N); E (Connect 1 2%N); Turn []; E (Pick 0); E (Connect 0 3%N);
   Turn [[Connect 1 4%N; Kill 1]]; E (Finish 0 1%N); Turn []; E (Kill 0); E (Connect 0 5%N); Turn [];
   E (Respawn 0%N); Turn []; E (Connect 1 6%N); Turn []; E (DrainDrop 2); E (Connect 0 7%N);
   E (Connect 1 8%N); Turn []; E (Pick 2); E (Connect 0 9%N)].

Example C01_example_faulty :
  let st := run 2 (init 2 [false; true]) ex_faulty in
  fresh_cids ex_faulty = true /\ forallb SrvFault.wf_op ex_faulty = true /\
  forallb (SrvInv.tok_ok 2) ex_faulty = true /\ err st = None /\
  (backlog_ids st, queued st, picked st, gone st) = ([9], [8], [7], [6; 5; 4; 3; 1; 2])%N /\
  top_connected 2 ex_faulty = [1; 2; 3; 5; 6; 7; 8; 9]%N /\ home ex_faulty 4%N = Some 1 /\
  drops st = [5%N] /\ disp st = [8; 7; 6; 4; 3; 2; 1]%N /\
  map (fun w => (w_queue w, w_picked w, w_open w)) (ws st) =
    [([], [], false); ([], [], false); ([{| c_id := 8; c_tok := 1 |}], [{| c_id := 7; c_tok := 0 |}], true)].
Proof. vm_compute. repeat split. Qed.

(* No kills, no Connect inside a yield schedule (C01_conservation_exact, C01_no_kill_no_loss): limit 1, a pause
   and a resume, a completion inside a yield point, a drain; connection 4 is still in its backlog because
   both workers were saturated when the listeners were resumed. *)
Definition ex_clean : list op :=
  [E (Connect 0 1%N); E (Connect 1 2%N); E (Connect 0 3%N); Turn [[Pick 0; Finish 0 1%N]; [Command CPause]];
   E (Pick 1); Turn []; E (Connect 1 4%N); Turn []; E (Command CResume); Turn []; E (DrainDrop 0)].

Example C01_example_clean :
  let st := run 1 (init 2 [false; true]) ex_clean in
  fresh_cids ex_clean = true /\ ys_no_connect ex_clean = true /\ no_kill ex_clean = true /\ err st = None /\
  (backlog_ids st, queued st, picked st, gone st) = ([4], [], [3], [2; 1])%N /\
  top_connected 2 ex_clean = [1; 2; 3; 4]%N.
Proof. vm_compute. repeat split. Qed.

(* C01_stays from a non-initial state: the places of a prefix are contained in those of the whole run *)
Example C01_example_stays :
  let st := run 2 (init 2 [false; true]) (firstn 6 ex_faulty) in
  places st = [4; 3; 1; 2]%N /\ err (run 2 st (skipn 6 ex_faulty)) = None /\
  places (run 2 st (skipn 6 ex_faulty)) = [9; 8; 7; 6; 5; 4; 3; 1; 2]%N.
Proof. vm_compute. repeat split. Qed.

(* C01_no_silent_drop: the last worker is dead -> the send fails, `handles` becomes empty, the connection is dropped *)
Example C01_example_drop :
  let st := run 2 (init 1 [false]) [E (Kill 0)] in
  let '(st', _, r) := send_connection 2 st {| c_id := 9; c_tok := 0 |} [] in
  drops st = [] /\ drops st' = [9%N] /\ handles st' = [] /\ r = SOk.
Proof. vm_compute. repeat split. Qed.

(* C01_live_worker_delivers: worker 0 is dead, worker 1 alive -> handle 0 is removed, the connection goes to 1 *)
Example C01_example_live :
  let st := run 2 (init 2 [false]) [E (Kill 0)] in
  (exists g w, In g (handles st) /\ nth_error (ws st) g = Some w /\ w_open w = true) /\
  trace (fst (accept_one 2 (accept_one_fuel st) st {| c_id := 9; c_tok := 0 |} [])) =
    [EvDispatch 9 0 1 1 0; EvFaulted 0; EvKilled 0].
Proof. split; [exists 1, (mk_worker 1); vm_compute; auto|vm_compute; reflexivity]. Qed.

(* C01_builder_tokens: bind resolving to two sockets, listen_uds, listen; and a chain that fails *)
Example C01_example_builder :
  (match build 0 [Bind 2 None; ListenUds true; Listen true] empty with
   | Some b => map s_token (b_sockets b) = [0; 1; 2; 3] /\ map s_call (b_sockets b) = [0; 0; 1; 2] /\
               map f_call (b_factories b) = [0; 0; 1; 2] /\
               option_map (map ws_call) (worker_services b) = Some [0; 0; 1; 2]
   | None => False
   end) /\
  build 0 [Listen true; Bind 3 (Some 1)] empty = None.
Proof. vm_compute. repeat split. Qed.

(* The oracle of the end-to-end stream (real ServerBuilder / Server / threads, compared after every scenario operation with the
   settled model, Model/SrvE2E.v) computes nothing but states of ordinary runs: for every scenario there is a script of
   Model/Srv.v operations, free of spurious WouldBlocks, whose run is exactly the oracle's state — so C01_conservation,
   C01_once, C01_routing and every other all-scripts theorem of the server group speak about the states the real server is
   compared with. *)
Theorem C01_e2e_oracle_reachable : forall (L : Z) W kinds ops,
  exists os, forallb nwb_op os = true /\ e2e_run L (init W kinds) 1%N ops = run L (init W kinds) os.
Proof. exact e2e_states_are_reachable. Qed.

(* ... also with abortive clients (connection ids whose service call ends by itself as soon as it has started) and back-pressure
   episodes (no worker picks anything up while the flag is set); each operation comes with the flag in force and the ids known
   when it is issued *)
Theorem C01_e2e_ab_oracle_reachable : forall (L : Z) W kinds (ops : list (bool * list N * e2e_op)),
  forallb nwb_op (e2e_script_ab L (init W kinds) 1%N ops) = true /\
  e2e_run_ab L (init W kinds) 1%N ops = run L (init W kinds) (e2e_script_ab L (init W kinds) 1%N ops).
Proof. intros L W kinds ops. split; [apply e2e_script_ab_nw | apply e2e_run_ab_is_run]. Qed.

(* non-vacuity: one worker, limit 1, paused; an abortive client and an ordinary one wait in the backlog; after Resume the abortive
   one is served first and ends by itself, then the ordinary one is in progress *)
Example C01_e2e_ab_example :
  let st := e2e_run_ab 1 (init 1 [false]) 1%N [(false, [], XPause); (false, [1%N], XConnect 0); (false, [1%N], XConnect 0); (false, [1%N], XResume)] in
  err st = None /\ map (fun w => map c_id (w_picked w)) (ws st) = [[2%N]] /\
  length (filter (fun e => match e with EvDispatch _ _ _ _ _ => true | _ => false end) (trace st)) = 2.
Proof. vm_compute. repeat split. Qed.

(* non-vacuity: back-pressure — limit 2, one worker; the second and third client are dispatched while the services are not ready and
   stay in the worker's queue (they count against the limit: the fourth waits in the backlog); they are picked up when readiness
   returns *)
Example C01_e2e_block_example :
  let ops := [(false, [], XConnect 0); (true, [], XConnect 0); (true, [], XConnect 0); (true, [], XFinish 1%N)] in
  let st := e2e_run_ab 2 (init 1 [false]) 1%N ops in
  let st' := e2e_run_ab 2 (init 1 [false]) 1%N (ops ++ [(false, [], XAdvance 0)]) in
  err st = None /\ map (fun w => (map c_id (w_picked w), map c_id (w_queue w))) (ws st) = [([], [2%N; 3%N])] /\
  map (fun w => (map c_id (w_picked w), map c_id (w_queue w))) (ws st') = [([2%N; 3%N], [])].
Proof. vm_compute. repeat split. Qed.

(* non-vacuity: two workers, limit 1; a connection whose service call panics kills worker 1's generation, the next connection's
   dispatch discovers it, the replacement (generation 2, same index 1) is in the rotation afterwards *)
Example C01_e2e_example :
  let st := e2e_run 1 (init 2 [false]) 1%N [XConnect 0; XKill 0; XConnect 0; XFinish 1%N; XConnect 0] in
  err st = None /\ map w_open (ws st) = [true; false; true] /\ map w_idx (ws st) = [0%N; 1%N; 1%N] /\ handles st = [0; 2].
Proof. vm_compute. repeat split. Qed.

(* The worker side of the last clause (Model/Wrk.v, the model of ServerWorker::poll that C06 and C07 use): once the worker has left
   its serving states — a stop command was taken up — no service is ever called again, whatever is still in its queue or is pushed
   afterwards; and on entering the graceful shutdown every queued connection is released (its guard dropped), not served. *)
Theorem C01_worker_no_call_after_stop : forall c ops ops2,
  let s := Wrk.exec c (Wrk.init c) ops in ~ WrkFacts.live s -> Wrk.calls_of (concat (Wrk.run c s ops2)) = [].
Proof. intros c ops ops2 s. exact (WrkFacts.no_call_after_shutdown c ops2 s (WrkFacts.reachable_inv c ops)). Qed.
Theorem C01_worker_queue_released : forall c s sid rest,
  Wrk.sq s = (true, sid) :: rest -> Wrk.inprog s <> [] ->
  exists o cnt, Wrk.drain c (Wrk.cq s) (Wrk.counter s) = (cnt, o) /\
                snd (Wrk.poll c s) = (match Wrk.ws s with Wrk.WShutdown _ _ sid0 => [Wrk.StopLost sid0] | _ => [] end) ++ o /\
                Wrk.cq (fst (Wrk.poll c s)) = [] /\
                (forall x, In x (Wrk.cq s) -> In (Wrk.Released (snd x)) o).
Proof.
  intros c s sid rest H1 H2. destruct (WrkFacts.stop_graceful_enter c s sid rest H1 H2) as (o & cnt & Hd & Hp & _ & Hr).
  exists o, cnt. rewrite Hp. cbn. auto.
Qed.

Print Assumptions C01_conservation.
Print Assumptions C01_conservation_wf.
Print Assumptions C01_conservation_exact.
Print Assumptions C01_stays.
Print Assumptions C01_no_silent_drop.
Print Assumptions C01_live_worker_delivers.
Print Assumptions C01_no_kill_no_loss.
Print Assumptions C01_once.
Print Assumptions C01_routing.
Print Assumptions C01_builder_tokens.
Print Assumptions C01_e2e_oracle_reachable.
Print Assumptions C01_e2e_ab_oracle_reachable.
Print Assumptions C01_worker_no_call_after_stop.
Print Assumptions C01_worker_queue_released.
