#!/usr/bin/env python3
"""./check <ID> [--tier quick|thorough] [--replay file] [--seed n]"""
import argparse
import importlib
import os
import sys

sys.path.insert(0, os.path.dirname(os.path.abspath(__file__)))
import common  # noqa: E402


def main():
    ap = argparse.ArgumentParser()
    ap.add_argument("pid")
    ap.add_argument("--tier", default=os.environ.get("VERIF_TIER", "quick"))
    ap.add_argument("--seed", type=int, default=None)
    ap.add_argument("--replay")
    a = ap.parse_args()
    seed = a.seed if a.seed is not None else int(os.environ.get("VERIF_SEED", "1") or 1)
    tier = a.tier if a.tier in ("quick", "thorough") else "quick"
    plugin = importlib.import_module("props.%s" % a.pid.lower())
    if a.replay:
        sys.exit(common.replay(plugin, a.replay))
    sys.exit(common.run_property(plugin, tier, seed))


if __name__ == "__main__":
    main()
