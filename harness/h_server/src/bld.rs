//! End-to-end scenarios of the whole server through the REAL `ServerBuilder` / `Server` / accept thread /
//! worker threads (public API only; the only hook used is the cfg that compiles this harness).
//! case  "W=2;L=1;B=l,b2,u,v;ops=c0 c1 f1 P R E0 +600;exp=<model output>"   (see ocaml/server/driver.ml, mode bld)
//! Output has the model's format: per op  `<op>=<cid>@<call>w<worker idx>,.../a<in progress per worker>`.
//!
//! Real threads, real time: after each op the harness waits until as many service calls have started as the
//! model expects (bound 6 s), then a quiet period during which nothing more may start. A result that differs from
//! `exp` is re-run with a 4x and a 10x longer quiet period (always below the 500 ms accept back-off); only a difference that persists is reported
//! (` | retries=<n>` is appended as a diagnostic and stripped before comparison).
use std::{
    io::{Read, Write},
    net::{SocketAddr, TcpListener as StdTcpListener},
    os::unix::net::{UnixListener as StdUnixListener, UnixStream as StdUnixStream},
    path::PathBuf,
    sync::{
        atomic::{AtomicUsize, Ordering},
        mpsc, Arc, Mutex,
    },
    time::{Duration, Instant},
};

use actix_rt::net::{TcpStream, UnixStream};
use actix_server::{Server, ServerHandle};
use actix_service::fn_service;
use tokio::io::{AsyncReadExt, AsyncWriteExt};

const BOUND: Duration = Duration::from_secs(6);
const MAXW: usize = 8;

#[derive(Default)]
struct Shared {
    /// (cid, builder call index = service name, worker index) in the order the service calls started
    served: Mutex<Vec<(u64, usize, usize)>>,
    /// cids whose service call has ended
    done: Mutex<Vec<u64>>,
    active: [AtomicUsize; MAXW],
    /// the next service call panics synchronously (op K)
    poison: std::sync::atomic::AtomicBool,
    /// worker indices whose service call panicked
    panicked: Mutex<Vec<usize>>,
    /// op J: the next service instance that is dropped takes 300 ms to do so and says when it starts
    slow_drop: std::sync::atomic::AtomicBool,
    dropping: std::sync::atomic::AtomicBool,
    /// op B / b: every service answers Pending to its readiness check while set (back-pressure); the wakers it was asked with
    blocked: std::sync::atomic::AtomicBool,
    ready_wakers: Mutex<Vec<std::task::Waker>>,
    /// ops X / x: 1 + the builder call whose service fails its next readiness check (once); 0 = none
    fail_call: AtomicUsize,
    fail_left: AtomicUsize,
    /// number of readiness checks made so far (all instances)
    ready_polls: AtomicUsize,
    /// op D: the next readiness check panics (the worker dies outside any service call, with its connections in progress)
    die_on_ready: std::sync::atomic::AtomicBool,
    /// instantiations of each builder call's service factory so far, and (cid, ordinal of the instance that served it)
    insts: Mutex<[usize; 16]>,
    served_gen: Mutex<Vec<(u64, usize, usize)>>,
    /// op S: clients that send nothing and close their sending half at once — known by their local port; and the ones of them
    /// whose client has gone away for good (op f), which ends their service call
    /// number of `Service::call`s so far (the synchronous part: a call whose future is dropped unpolled still counts)
    calls: AtomicUsize,
    silent: Mutex<std::collections::HashMap<u16, u64>>,
    released: Mutex<Vec<u64>>,
}

/// A user service whose readiness can be switched off from outside: `poll_ready` is Pending while `Shared::blocked` is set.
#[derive(Clone)]
struct Gated<S>(S, Arc<Shared>, usize, Arc<std::sync::atomic::AtomicBool>);
impl<S, Req> actix_service::Service<Req> for Gated<S>
where
    S: actix_service::Service<Req>,
    S::Error: Default,
{
    type Response = S::Response;
    type Error = S::Error;
    type Future = S::Future;
    fn poll_ready(&self, cx: &mut std::task::Context<'_>) -> std::task::Poll<Result<(), Self::Error>> {
        self.1.ready_polls.fetch_add(1, Ordering::SeqCst);
        if self.1.die_on_ready.swap(false, Ordering::SeqCst) {
            self.1.panicked.lock().unwrap().push(0);
            panic!("readiness check panics");
        }
        {
            // keep the waker of the latest readiness checks: op D wakes them to make the worker ask again
            // (one entry per task: a waker that is dropped from this list is a worker that sleeps through `b`)
            let mut ws = self.1.ready_wakers.lock().unwrap();
            if !ws.iter().any(|w| w.will_wake(cx.waker())) {
                ws.push(cx.waker().clone());
            }
        }
        // the first readiness check of an instance, and the first one after each call, answers Pending and wakes the waker it was
        // given from inside the check (the usual way of yielding): the service is ready at the next check
        if !self.3.swap(true, Ordering::SeqCst) {
            cx.waker().wake_by_ref();
            return std::task::Poll::Pending;
        }
        if self.1.blocked.load(Ordering::SeqCst) {
            return std::task::Poll::Pending;
        }
        // a readiness failure armed for this builder call: the first instance of it that is asked fails, once
        if self.1.fail_call.load(Ordering::SeqCst) == self.2 + 1 {
            // (ops Y: twice in a row — the replacement instance fails its very first readiness check as well)
            // exactly `fail_left` checks fail, also when several workers ask at the same moment (after `b` all of them are woken)
            let prev = self.1.fail_left.fetch_sub(1, Ordering::SeqCst);
            if prev == 0 || prev > 8 {
                self.1.fail_left.fetch_add(1, Ordering::SeqCst); // someone else took the last one
            } else {
                if prev == 1 {
                    self.1.fail_call.store(0, Ordering::SeqCst);
                }
                return std::task::Poll::Ready(Err(Default::default()));
            }
        }
        self.0.poll_ready(cx)
    }
    fn call(&self, req: Req) -> Self::Future {
        self.3.store(false, Ordering::SeqCst);
        self.0.call(req)
    }
}

/// the factory of a `Gated` service (what `ServerBuilder::bind/listen` take)
fn gated_factory<S, Req>(svc: S, sh: Arc<Shared>, call: usize) -> impl actix_service::ServiceFactory<Req, Config = (), Response = S::Response, Error = S::Error, InitError = (), Service = Gated<S>> + Clone
where
    S: actix_service::Service<Req> + Clone + 'static,
    S::Error: Default,
    Req: 'static,
{
    let g = Gated(svc, sh, call, Arc::new(std::sync::atomic::AtomicBool::new(false)));
    actix_service::fn_factory(move || {
        let mut g = g.clone();
        g.3 = Arc::new(std::sync::atomic::AtomicBool::new(false)); // per instance
        // earlier builder calls take longer to create their service: the services of one worker become ready in the reverse of
        // the order in which they were registered
        // (yields, not timers: outside an actix System the worker threads create their services through `Handle::block_on` on
        // the caller's runtime, whose thread is blocked in `ServerBuilder::run` and drives no timers meanwhile)
        let yields = 3 * 8usize.saturating_sub(call.min(8));
        async move {
            for _ in 0..yields {
                tokio::task::yield_now().await;
            }
            Ok::<_, ()>(g)
        }
    })
}

/// Captured by every service instance: stands for a user service with a destructor that takes time.
#[derive(Clone)]
struct SlowDrop(Arc<Shared>);
impl Drop for SlowDrop {
    fn drop(&mut self) {
        if self.0.slow_drop.swap(false, Ordering::SeqCst) {
            self.0.dropping.store(true, Ordering::SeqCst);
            std::thread::sleep(Duration::from_millis(300));
        }
    }
}

/// in-progress count of a worker; also released when the future is dropped unfinished (worker torn down)
struct Active(Arc<Shared>, usize);
impl Drop for Active {
    fn drop(&mut self) {
        self.0.active[self.1].fetch_sub(1, Ordering::SeqCst);
    }
}

/// Worker index of a service instance: `Accept::start` starts the workers one after the other in index order and
/// each start waits until that worker has created its services, so the n-th instantiation of a listener's factory
/// belongs to worker n. Outside an actix System the worker threads are also named "actix-server worker {idx}";
/// the two must agree.
fn thread_idx() -> Option<usize> {
    let t = std::thread::current();
    let n = t.name()?;
    n.strip_prefix("actix-server worker ")?.parse().ok()
}

fn resolve_widx(w: usize, respawned: bool) -> usize {
    match thread_idx() {
        // a replacement worker is a later instantiation of the factory; its thread name carries the index it took over
        Some(t) if respawned => t.min(MAXW - 1),
        Some(t) if t != w => MAXW - 1, // instantiation order and thread name disagree: show it
        _ => w.min(MAXW - 1),
    }
}

/// the synchronous part of `Service::call`
fn enter(call: usize, w: usize, nworkers: usize, sh: &Arc<Shared>) -> (usize, Active) {
    let _ = call;
    // with one worker the index is 0 whatever the start-up (under an actix System the thread names carry no index)
    let w = if nworkers == 1 { 0 } else { resolve_widx(w, w >= nworkers) };
    if sh.poison.swap(false, Ordering::SeqCst) {
        sh.panicked.lock().unwrap().push(w);
        panic!("poisoned connection");
    }
    sh.calls.fetch_add(1, Ordering::SeqCst);
    sh.active[w].fetch_add(1, Ordering::SeqCst);
    (w, Active(sh.clone(), w))
}

async fn serve<S: AsyncReadExt + AsyncWriteExt + Unpin>(mut s: S, peer: Option<u16>, call: usize, w: usize, act: Active, sh: Arc<Shared>, gen: usize) -> Result<(), ()> {
    // the client sends its id as 8 bytes right after connecting — or nothing at all (op S): then it is known by its port
    let mut idb = [0u8; 8];
    let mut silent = false;
    let cid = match s.read_exact(&mut idb).await {
        Ok(_) => u64::from_le_bytes(idb),
        Err(_) => match peer.and_then(|p| sh.silent.lock().unwrap().get(&p).copied()) {
            Some(c) => {
                silent = true;
                c
            }
            None => u64::MAX,
        },
    };
    sh.served_gen.lock().unwrap().push((cid, call, gen));
    sh.served.lock().unwrap().push((cid, call, w));
    let _ = s.write_all(b"k").await;
    if silent {
        // its sending half is closed already: the call lasts until the client is gone for good
        while !sh.released.lock().unwrap().contains(&cid) {
            actix_rt::time::sleep(Duration::from_millis(5)).await;
        }
    } else {
        let mut buf = [0u8; 16];
        loop {
            match s.read(&mut buf).await {
                Ok(0) | Err(_) => break,
                Ok(n) if buf[..n].contains(&b'p') => {
                    // op z: the call ends by a panic inside its future — the runtime contains it, the worker lives on, and whatever the
                    // server holds for this connection is dropped while the thread unwinds
                    drop(act);
                    sh.done.lock().unwrap().push(cid);
                    panic!("service future of connection {cid} panics");
                }
                Ok(_) => {}
            }
        }
    }
    drop(act);
    sh.done.lock().unwrap().push(cid);
    Ok(())
}

#[derive(Clone)]
enum Addr {
    Tcp(SocketAddr),
    Uds(PathBuf),
}

enum Client {
    Tcp(std::net::TcpStream),
    Uds(StdUnixStream),
}

impl Client {
    fn send_id(&mut self, cid: u64) {
        let b = cid.to_le_bytes();
        let _ = match self {
            Client::Tcp(s) => s.write_all(&b),
            Client::Uds(s) => s.write_all(&b),
        };
    }
    /// the server closed the connection although no service call ever greeted it
    fn closed_by_peer(&mut self) -> bool {
        let mut buf = [0u8; 1];
        let r = match self {
            Client::Tcp(s) => {
                s.set_nonblocking(true).ok();
                let r = s.peek(&mut buf);
                s.set_nonblocking(false).ok();
                r
            }
            Client::Uds(s) => {
                s.set_nonblocking(true).ok();
                // UnixStream::peek is unstable: recv(MSG_PEEK) through libc
                use std::os::unix::io::AsRawFd;
                // SAFETY: plain recv on our own descriptor into a 1-byte buffer
                let n = unsafe { libc::recv(s.as_raw_fd(), buf.as_mut_ptr() as *mut libc::c_void, 1, libc::MSG_PEEK) };
                s.set_nonblocking(false).ok();
                if n < 0 { Err(std::io::Error::last_os_error()) } else { Ok(n as usize) }
            }
        };
        match r {
            Ok(0) => true,
            Ok(_) => false,
            Err(e) => e.kind() != std::io::ErrorKind::WouldBlock,
        }
    }
    /// any byte beyond the single greeting byte is a second delivery of the same connection
    fn extra_greetings(&mut self) -> usize {
        let mut buf = [0u8; 64];
        let r = match self {
            Client::Tcp(s) => {
                s.set_nonblocking(true).ok();
                s.read(&mut buf)
            }
            Client::Uds(s) => {
                s.set_nonblocking(true).ok();
                s.read(&mut buf)
            }
        };
        match r {
            Ok(n) if n > 1 => n - 1,
            _ => 0,
        }
    }
}

fn free_port() -> u16 {
    StdTcpListener::bind("127.0.0.1:0").unwrap().local_addr().unwrap().port()
}
fn free_port6() -> u16 {
    StdTcpListener::bind("[::1]:0").unwrap().local_addr().unwrap().port()
}
/// the loopback address of this listener: IPv6 for a third of them (derived from the scenario text), if the host has it
fn loopback(v6: bool, port: u16) -> SocketAddr {
    if v6 {
        SocketAddr::from((std::net::Ipv6Addr::LOCALHOST, port))
    } else {
        SocketAddr::from(([127, 0, 0, 1], port))
    }
}

struct Running {
    handle: ServerHandle,
    /// a clone taken right after start-up: commands alternate between the two handles
    handle2: ServerHandle,
    addrs: Vec<Addr>,
    thread: std::thread::JoinHandle<()>,
}

/// build and start the server on its own thread (own System); token order = order of the builder chain
fn start(w: usize, l: usize, chain: &[String], dir: &PathBuf, sh: &Arc<Shared>, actix_system: bool, opt_seed: u64) -> Result<Running, String> {
    let (tx, rx) = mpsc::channel::<Result<(ServerHandle, Vec<Addr>), String>>();
    let chain = chain.to_vec();
    let dir = dir.clone();
    let sh_outer = sh.clone();
    let sh = sh.clone();
    let thread = std::thread::spawn(move || {
        let body = async move {
            // the builder's options in an order derived from the scenario (half of them after the listeners): no option
            // may depend on when it is given, or disturb another one
            let mut opts: Vec<u8> = vec![0, 1, 2, 3, 4, 5];
            let mut x = opt_seed | 1;
            for i in (1..opts.len()).rev() {
                x ^= x << 13;
                x ^= x >> 7;
                x ^= x << 17;
                opts.swap(i, (x % (i as u64 + 1)) as usize);
            }
            let apply = |b: actix_server::ServerBuilder, o: u8| match o {
                0 => b.workers(w),
                1 => {
                    if opt_seed % 3 == 0 {
                        b.maxconn(l)
                    } else {
                        b.max_concurrent_connections(l)
                    }
                }
                2 => b.disable_signals(),
                3 => b.shutdown_timeout(2),
                4 => b.worker_max_blocking_threads(3),
                _ => b,
            };
            let mut b = Server::build().backlog(64);
            for &o in &opts[..3] {
                b = apply(b, o);
            }
            let mut addrs = Vec::new();
            let have_v6 = StdTcpListener::bind("[::1]:0").is_ok();
            let nworkers = w;
            for (call, it) in chain.iter().enumerate() {
                let sh2 = sh.clone();
                let inst = Arc::new(AtomicUsize::new(0));
                let inst2 = inst.clone();
                // bind() clones the factory once per resolved address: k instantiations per worker
                let per_worker: usize = if it.as_bytes()[0] == b'b' { it[1..].parse().unwrap() } else { 1 };
                let tcp = move || {
                    let sh3 = sh2.clone();
                    let w = inst2.fetch_add(1, Ordering::SeqCst) / per_worker;
                    let slow = SlowDrop(sh3.clone());
                    let sh4 = sh3.clone();
                    let gen = {
                        let mut v = sh3.insts.lock().unwrap();
                        v[call.min(15)] += 1;
                        v[call.min(15)]
                    };
                    gated_factory(
                        fn_service(move |s: TcpStream| {
                            let _ = &slow;
                            let (w, act) = enter(call, w, nworkers, &sh3);
                            let peer = s.peer_addr().ok().map(|a| a.port());
                            serve(s, peer, call, w, act, sh3.clone(), gen)
                        }),
                        sh4,
                        call,
                    )
                };
                let sh2 = sh.clone();
                let uds = move || {
                    let sh3 = sh2.clone();
                    let w = inst.fetch_add(1, Ordering::SeqCst);
                    let slow = SlowDrop(sh3.clone());
                    let sh4 = sh3.clone();
                    let gen = {
                        let mut v = sh3.insts.lock().unwrap();
                        v[call.min(15)] += 1;
                        v[call.min(15)]
                    };
                    gated_factory(
                        fn_service(move |s: UnixStream| {
                            let _ = &slow;
                            let (w, act) = enter(call, w, nworkers, &sh3);
                            serve(s, None, call, w, act, sh3.clone(), gen)
                        }),
                        sh4,
                        call,
                    )
                };
                // listener names in an order that is neither ascending nor descending (nothing may depend on the names)
                let name = format!("{}{call}", ["q", "c", "x", "a", "m", "b", "z"][call % 7]);
                let r = match it.as_bytes()[0] {
                    b'l' => {
                        let v6 = have_v6 && (opt_seed as usize + call) % 3 == 0;
                        let lst = StdTcpListener::bind(loopback(v6, 0)).unwrap();
                        addrs.push(Addr::Tcp(lst.local_addr().unwrap()));
                        b.listen(name, lst, tcp)
                    }
                    b'b' => {
                        let k: usize = it[1..].parse().unwrap();
                        // bind() resolves its argument to k addresses; retry on a port collision
                        let mut res = None;
                        let mut bb = Some(b);
                        for _ in 0..20 {
                            // the addresses one name resolves to: IPv4 and IPv6 mixed
                            let sa: Vec<SocketAddr> = (0..k)
                                .map(|j| {
                                    let v6 = have_v6 && (opt_seed as usize + call + j) % 3 == 1;
                                    loopback(v6, if v6 { free_port6() } else { free_port() })
                                })
                                .collect();
                            let bx = bb.take().unwrap();
                            // ServerBuilder is consumed by bind(); an Err loses it, so probe the ports first
                            let probe: Vec<_> = sa.iter().map(StdTcpListener::bind).collect();
                            if probe.iter().any(|p| p.is_err()) {
                                bb = Some(bx);
                                continue;
                            }
                            drop(probe);
                            res = Some((bx.bind(name.clone(), &sa[..], tcp.clone()), sa));
                            break;
                        }
                        match res {
                            Some((r, sa)) => {
                                addrs.extend(sa.into_iter().map(Addr::Tcp));
                                r
                            }
                            None => {
                                let _ = tx.send(Err("no free ports".into()));
                                return;
                            }
                        }
                    }
                    b'u' => {
                        let p = dir.join(format!("u{call}.sock"));
                        addrs.push(Addr::Uds(p.clone()));
                        b.bind_uds(name, &p, uds)
                    }
                    b'v' => {
                        let p = dir.join(format!("v{call}.sock"));
                        let _ = std::fs::remove_file(&p);
                        let lst = StdUnixListener::bind(&p).unwrap();
                        addrs.push(Addr::Uds(p));
                        b.listen_uds(name, lst, uds)
                    }
                    _ => panic!("bad builder item"),
                };
                b = match r {
                    Ok(b) => b,
                    Err(e) => {
                        let _ = tx.send(Err(format!("builder call {call} ({it}): {e}")));
                        return;
                    }
                };
            }
            for &o in &opts[3..] {
                b = apply(b, o);
            }
            let srv = b.run();
            let _ = tx.send(Ok((srv.handle(), addrs)));
            let _ = srv.await;
        };
        if actix_system {
            actix_rt::System::new().block_on(body);
        } else {
            // no actix System: workers run on plain threads named "actix-server worker {idx}"
            tokio::runtime::Builder::new_current_thread().enable_all().build().unwrap().block_on(body);
        }
    });
    match rx.recv_timeout(BOUND) {
        Ok(Ok((handle, addrs))) => {
            // `Server` starts its accept thread and workers on the first poll of its future; a command is acknowledged
            // only once that has happened (Resume on a running server changes nothing)
            if block_on(handle.resume()).is_none() {
                return Err("server did not acknowledge a command within 6 s of starting".into());
            }
            // every worker makes its initial readiness checks right after start-up (one per service): wait for them, so that
            // what a scenario arms later meets the worker it is meant for
            let total: usize = sh_outer.insts.lock().unwrap().iter().sum();
            let _ = wait_until_for(Duration::from_secs(3), || sh_outer.ready_polls.load(Ordering::SeqCst) >= total);
            let handle2 = handle.clone();
            Ok(Running { handle, handle2, addrs, thread })
        }
        Ok(Err(e)) => Err(e),
        Err(_) => Err("server did not start".into()),
    }
}

fn connect(addr: &Addr) -> std::io::Result<Client> {
    match addr {
        Addr::Tcp(a) => std::net::TcpStream::connect(a).map(Client::Tcp),
        Addr::Uds(p) => StdUnixStream::connect(p).map(Client::Uds),
    }
}

/// connect while every accept() of this process fails with EMFILE: the client socket is created first, then the soft
/// descriptor limit is lowered to 0 (existing descriptors stay valid, new ones cannot be allocated), the connection is made
/// on the existing socket, the accept thread runs into EMFILE, and the limit is restored.
fn connect_emfile(addr: &Addr, hold: Duration) -> std::io::Result<Client> {
    use socket2::{Domain, SockAddr, Socket, Type};
    let (sock, sa) = match addr {
        Addr::Tcp(a) => (Socket::new(if a.is_ipv6() { Domain::IPV6 } else { Domain::IPV4 }, Type::STREAM, None)?, SockAddr::from(*a)),
        Addr::Uds(p) => (Socket::new(Domain::UNIX, Type::STREAM, None)?, SockAddr::unix(p)?),
    };
    let mut old = libc::rlimit { rlim_cur: 0, rlim_max: 0 };
    // SAFETY: plain getrlimit/setrlimit on our own process
    unsafe { libc::getrlimit(libc::RLIMIT_NOFILE, &mut old) };
    let low = libc::rlimit { rlim_cur: 0, rlim_max: old.rlim_max };
    unsafe { libc::setrlimit(libc::RLIMIT_NOFILE, &low) };
    let r = sock.connect(&sa);
    std::thread::sleep(hold);
    unsafe { libc::setrlimit(libc::RLIMIT_NOFILE, &old) };
    r?;
    Ok(match addr {
        Addr::Tcp(_) => Client::Tcp(sock.into()),
        Addr::Uds(_) => Client::Uds(sock.into()),
    })
}

fn wait_until(f: impl FnMut() -> bool) -> bool {
    wait_until_for(BOUND, f)
}

fn wait_until_for(bound: Duration, mut f: impl FnMut() -> bool) -> bool {
    let t0 = Instant::now();
    while !f() {
        if t0.elapsed() > bound {
            return false;
        }
        std::thread::sleep(Duration::from_micros(500));
    }
    true
}

fn block_on<F: std::future::Future>(f: F) -> Option<F::Output> {
    let rt = tokio::runtime::Builder::new_current_thread().enable_time().build().unwrap();
    rt.block_on(async { tokio::time::timeout(BOUND, f).await.ok() })
}

/// `exp=` is the last field and contains ';' itself
fn field<'a>(line: &'a str, k: &str) -> Option<&'a str> {
    let (head, exp) = match line.find(";exp=") {
        Some(i) => (&line[..i], Some(&line[i + 5..])),
        None => (line, None),
    };
    if k == "exp" {
        return exp;
    }
    head.split(';').find_map(|kv| kv.strip_prefix(k).and_then(|r| r.strip_prefix('=')))
}

/// expected number of service calls starting in each op, read off the model's output
fn expected_counts(exp: &str) -> Vec<usize> {
    exp.split(" ; ")
        .map(|s| {
            let body = s.split('=').nth(1).unwrap_or("");
            let list = body.split('/').next().unwrap_or("");
            list.split(',').filter(|x| !x.is_empty() && !x.starts_with("x@") && !x.ends_with("@drop")).count()
        })
        .collect()
}

fn run_once(line: &str, dir: &PathBuf, quiet: Duration) -> String {
    let w: usize = field(line, "W").unwrap().parse().unwrap();
    let l: usize = field(line, "L").unwrap().parse().unwrap();
    let chain: Vec<String> = field(line, "B").unwrap().split(',').map(|s| s.to_string()).collect();
    let ops: Vec<&str> = field(line, "ops").unwrap().split(' ').filter(|s| !s.is_empty()).collect();
    let exp = expected_counts(field(line, "exp").unwrap_or(""));
    // the in-progress vector the model expects after each step ("a1.0")
    let exp_act: Vec<String> = field(line, "exp")
        .unwrap_or("")
        .split(" ; ")
        .map(|s| s.rsplit("/a").next().unwrap_or("").split(|c: char| !(c.is_ascii_digit() || c == '.')).next().unwrap_or("").to_string())
        .collect();
    let sh = Arc::new(Shared::default());
    // listener token -> builder call (bind with k addresses makes k tokens)
    let mut tok_call: Vec<usize> = Vec::new();
    for (i, it) in chain.iter().enumerate() {
        let k: usize = if it.as_bytes()[0] == b'b' { it[1..].parse().unwrap() } else { 1 };
        tok_call.extend(std::iter::repeat(i).take(k));
    }
    let actix_system = field(line, "S").unwrap_or("a") == "a";
    // FNV-1a of the scenario text (without the expectation)
    let opt_seed = line.split(";exp=").next().unwrap().bytes().fold(0xcbf29ce484222325u64, |h, b| (h ^ b as u64).wrapping_mul(0x100000001b3));
    let run = match start(w, l, &chain, dir, &sh, actix_system, opt_seed) {
        Ok(r) => r,
        Err(e) => return format!("START_FAILED {e}"),
    };
    let mut clients: Vec<(u64, Client)> = Vec::new();
    let mut poisoned: Vec<Client> = Vec::new();
    let mut cid = 0u64;
    let mut seen = 0usize;
    let mut out = Vec::new();
    let mut multi = 0usize;
    let mut starved = false;
    let mut graceful: Option<&'static str> = None;
    for (k, op) in ops.iter().enumerate() {
        let mut note = String::new();
        let rest = &op[1..];
        let insts_before = *sh.insts.lock().unwrap();
        match op.as_bytes()[0] {
            b'x' => {
                // arm a readiness failure of the service of this listener (it strikes when a worker next asks that service)
                let tok: usize = rest.parse().unwrap();
                sh.fail_left.store(1, Ordering::SeqCst);
                sh.fail_call.store(tok_call[tok] + 1, Ordering::SeqCst);
            }
            b'c' | b'E' | b'K' | b'X' | b'Y' => {
                let tok: usize = rest.parse().unwrap();
                cid += 1;
                if op.as_bytes()[0] == b'X' || op.as_bytes()[0] == b'Y' {
                    // the same, and a client connects: the worker that takes the connection asks its services at once
                    // (Y: the replacement instance fails its first readiness check too)
                    sh.fail_left.store(if op.as_bytes()[0] == b'Y' { 2 } else { 1 }, Ordering::SeqCst);
                    sh.fail_call.store(tok_call[tok] + 1, Ordering::SeqCst);
                }
                if op.as_bytes()[0] == b'K' {
                    sh.poison.store(true, Ordering::SeqCst);
                }
                // the EMFILE window and the quiet period after it stay well below the 500 ms back-off
                if op.as_bytes()[0] == b'E' && k == 0 {
                    // see the generator: give the worker threads time to finish building their runtimes
                    std::thread::sleep(Duration::from_millis(300));
                }
                let r = if op.as_bytes()[0] != b'E' { connect(&run.addrs[tok]) } else { connect_emfile(&run.addrs[tok], quiet.min(Duration::from_millis(200))) };
                match r {
                    Ok(mut c) => {
                        c.send_id(cid);
                        if op.as_bytes()[0] == b'K' {
                            poisoned.push(c); // never greeted: its service call panics
                        } else {
                            clients.push((cid, c));
                        }
                    }
                    Err(e) => note = format!("!connect:{}", e.kind()),
                }
            }
            b'J' => {
                let (t1, t2) = rest.split_once(':').unwrap();
                let (t1, t2): (usize, usize) = (t1.parse().unwrap(), t2.parse().unwrap());
                cid += 1;
                sh.dropping.store(false, Ordering::SeqCst);
                sh.slow_drop.store(true, Ordering::SeqCst);
                sh.poison.store(true, Ordering::SeqCst);
                match connect(&run.addrs[t1]) {
                    Ok(mut c) => {
                        c.send_id(cid);
                        poisoned.push(c);
                    }
                    Err(e) => note = format!("!connect:{}", e.kind()),
                }
                // the dead worker's services are being dropped (300 ms): its connection queue must be closed by now
                if !wait_until(|| sh.dropping.load(Ordering::SeqCst)) {
                    note.push_str("!dead-worker-was-not-torn-down");
                    sh.slow_drop.store(false, Ordering::SeqCst);
                    sh.poison.store(false, Ordering::SeqCst);
                }
                cid += 1;
                match connect(&run.addrs[t2]) {
                    Ok(mut c) => {
                        c.send_id(cid);
                        clients.push((cid, c));
                    }
                    Err(e) => note.push_str(&format!("!connect:{}", e.kind())),
                }
            }
            b'S' => {
                // a client that sends nothing and closes its sending half at once (a server-speaks-first protocol): still a connection
                // that must reach its listener's service; TCP listeners only (the service recognises it by its port)
                let tok: usize = rest.parse().unwrap();
                cid += 1;
                match connect(&run.addrs[tok]) {
                    Ok(c) => {
                        if let Client::Tcp(s) = &c {
                            sh.silent.lock().unwrap().insert(s.local_addr().unwrap().port(), cid);
                            let _ = s.shutdown(std::net::Shutdown::Write);
                        }
                        clients.push((cid, c));
                    }
                    Err(e) => note = format!("!connect:{}", e.kind()),
                }
            }
            b'A' => {
                // an abortive client: connects, sends its id and is gone at once — TCP: SO_LINGER 0, so the close sends a RST while
                // the connection still waits in the listen backlog; Unix: a plain close.  accept() still returns such a connection
                // (Linux keeps it in the queue), so it must reach exactly one service call, which ends by itself.
                let tok: usize = rest.parse().unwrap();
                cid += 1;
                match connect(&run.addrs[tok]) {
                    Ok(mut c) => {
                        c.send_id(cid);
                        if let Client::Tcp(s) = &c {
                            let _ = socket2::SockRef::from(s).set_linger(Some(Duration::ZERO));
                        }
                        drop(c);
                    }
                    Err(e) => note = format!("!connect:{}", e.kind()),
                }
            }
            b'z' => {
                // the client asks its service call to end by a panic inside the service future
                let id: u64 = rest.parse().unwrap();
                if let Some(p) = clients.iter().position(|(c, _)| *c == id) {
                    let (_, mut c) = clients.remove(p);
                    multi += c.extra_greetings();
                    let w = match &mut c {
                        Client::Tcp(s) => s.write_all(b"p"),
                        Client::Uds(s) => s.write_all(b"p"),
                    };
                    if w.is_err() {
                        // a silent client (op S) has closed its sending half: its call ends the ordinary way
                        sh.released.lock().unwrap().push(id);
                    }
                    if !wait_until(|| sh.done.lock().unwrap().contains(&id)) {
                        note = "!service-call-did-not-end".into();
                    }
                    drop(c);
                } else {
                    note = "!no-such-client".into();
                }
            }
            b'f' | b'F' => {
                // F: close that client whether or not its service call has started (used by probes built from this side's state)
                let lenient = op.as_bytes()[0] == b'F';
                let id: u64 = rest.parse().unwrap();
                if let Some(p) = clients.iter().position(|(c, _)| *c == id) {
                    let (_, mut c) = clients.remove(p);
                    multi += c.extra_greetings();
                    drop(c);
                    sh.released.lock().unwrap().push(id);
                    let started = sh.served.lock().unwrap().iter().any(|(n, _, _)| *n == id);
                    if (!lenient || started) && !wait_until(|| sh.done.lock().unwrap().contains(&id)) {
                        note = "!service-call-did-not-end".into();
                    }
                } else if !lenient {
                    note = "!no-such-client".into();
                }
            }
            b'P' => {
                let h = if k % 2 == 0 { &run.handle } else { &run.handle2 };
                if block_on(h.pause()).is_none() {
                    note = "!pause-not-acknowledged".into();
                }
            }
            b'R' => {
                let h = if k % 3 == 0 { &run.handle2 } else { &run.handle };
                if block_on(h.resume()).is_none() {
                    note = "!resume-not-acknowledged".into();
                }
            }
            b'Q' => {
                // pause()/resume() calls issued back to back, alternating between the two handles: every command is in the server's
                // command channel before the first acknowledgement is awaited
                let hs = [&run.handle, &run.handle2];
                let futs: Vec<std::pin::Pin<Box<dyn std::future::Future<Output = ()>>>> = rest
                    .bytes()
                    .enumerate()
                    .map(|(i, c)| -> std::pin::Pin<Box<dyn std::future::Future<Output = ()>>> {
                        let h = hs[(k + i) % 2];
                        if c == b'P' { Box::pin(h.pause()) } else { Box::pin(h.resume()) }
                    })
                    .collect();
                for f in futs {
                    if block_on(f).is_none() {
                        note = "!pause-or-resume-not-acknowledged".into();
                    }
                }
            }
            b'D' => {
                // the (single) worker dies in a readiness check, as it is: idle, partially loaded or saturated
                sh.die_on_ready.store(true, Ordering::SeqCst);
                let ws: Vec<_> = sh.ready_wakers.lock().unwrap().drain(..).collect();
                for w in ws {
                    w.wake();
                }
                if !wait_until_for(if starved { Duration::from_secs(1) } else { BOUND }, || !sh.die_on_ready.load(Ordering::SeqCst)) {
                    note.push_str("!worker-never-checked-readiness-again");
                    sh.die_on_ready.store(false, Ordering::SeqCst);
                    starved = true;
                }
            }
            b'B' => sh.blocked.store(true, Ordering::SeqCst),
            b'b' => {
                sh.blocked.store(false, Ordering::SeqCst);
                for w in sh.ready_wakers.lock().unwrap().drain(..) {
                    w.wake();
                }
            }
            b'+' => std::thread::sleep(Duration::from_millis(rest.parse().unwrap())),
            b'H' => {
                // graceful stop (last op) with the connections held open THROUGH shutdown_timeout (2 s, set by the builder
                // options): must not complete before the timeout and must complete soon after it — on restarted workers too
                let h = run.handle2.clone();
                let (gtx, grx) = mpsc::channel();
                let t0 = Instant::now();
                std::thread::spawn(move || {
                    let _ = gtx.send(block_on(h.stop(true)).is_some());
                });
                let busy = sh.active.iter().any(|a| a.load(Ordering::SeqCst) > 0);
                let verdict = if !busy {
                    match grx.recv_timeout(BOUND) {
                        Ok(true) => "idle",
                        _ => "never",
                    }
                } else {
                    match grx.recv_timeout(Duration::from_millis(2000 + 4000)) {
                        Ok(_) if t0.elapsed() < Duration::from_millis(1700) => "early",
                        Ok(true) => "timeout",
                        _ => "never",
                    }
                };
                graceful = Some(verdict);
            }
            b'G' => {
                // graceful stop (last op): must not complete while a connection is in progress; completes once they are closed
                let h = run.handle2.clone();
                let (gtx, grx) = mpsc::channel();
                std::thread::spawn(move || {
                    let _ = gtx.send(block_on(h.stop(true)).is_some());
                });
                let busy = sh.active.iter().any(|a| a.load(Ordering::SeqCst) > 0);
                let early = grx.recv_timeout(if busy { Duration::from_millis(700) } else { BOUND });
                let verdict = match (busy, early) {
                    (true, Ok(_)) => "early", // completed with connections in progress (well before shutdown_timeout)
                    (true, Err(_)) => {
                        for (_, c) in clients.iter_mut() {
                            multi += c.extra_greetings();
                        }
                        sh.released.lock().unwrap().extend(clients.iter().map(|(c, _)| *c));
                        clients.clear();
                        match grx.recv_timeout(BOUND) {
                            Ok(true) => "held",
                            _ => "never",
                        }
                    }
                    (false, Ok(true)) => "idle",
                    (false, _) => "never",
                };
                graceful = Some(verdict);
            }
            _ => note = "!bad-op".into(),
        }
        if op.as_bytes()[0] == b'K' && !wait_until_for(if starved { Duration::from_secs(1) } else { BOUND }, || !sh.poison.load(Ordering::SeqCst)) {
            note.push_str("!poisoned-connection-never-reached-a-service-call");
            sh.poison.store(false, Ordering::SeqCst);
            starved = true;
        }
        let want = seen + if graceful.is_some() { 0 } else { exp.get(k).copied().unwrap_or(0) };
        // once a run has failed to deliver in time the remaining steps only wait 1 s each
        let bound = if starved { Duration::from_secs(1) } else { BOUND };
        if !wait_until_for(bound, || sh.served.lock().unwrap().len() >= want) {
            note.push_str("!expected-service-call-did-not-start-within-6s");
            starved = true;
        }
        std::thread::sleep(if op.as_bytes()[0] == b'E' { quiet.min(Duration::from_millis(200)) } else { quiet });
        let mut new: Vec<(u64, usize, usize)> = sh.served.lock().unwrap()[seen..].to_vec();
        seen += new.len();
        new.sort();
        // service calls of a worker that has died end when its thread has torn its runtime down, which can take longer than the
        // quiet period on a loaded machine: where a worker died in this step (K / J), give the in-progress vector time to reach
        // the expected one (the properties speak about settled states; a vector that never gets there is still reported)
        if matches!(op.as_bytes()[0], b'K' | b'J' | b'D') {
            if let Some(want_act) = exp_act.get(k) {
                let cur = || sh.active[..w.min(MAXW)].iter().map(|a| a.load(Ordering::SeqCst).to_string()).collect::<Vec<_>>().join(".");
                let _ = wait_until_for(if starved { Duration::from_secs(1) } else { Duration::from_secs(3) }, || &cur() == want_act);
            }
        }
        let act: Vec<String> = sh.active[..w.min(MAXW)].iter().map(|a| a.load(Ordering::SeqCst).to_string()).collect();
        let stray: usize = sh.active[w.min(MAXW)..].iter().map(|a| a.load(Ordering::SeqCst)).sum();
        if stray > 0 {
            note.push_str("!service-call-on-an-unknown-worker");
        }
        let mut items: Vec<String> = sh.panicked.lock().unwrap().drain(..).map(|w| format!("x@w{w}")).collect();
        items.extend(new.iter().map(|(c, call, w)| format!("{c}@{call}w{w}")));
        // a connection the server accepted and then closed without any service call ("no workers")
        let mut dropped = Vec::new();
        for (c, cl) in clients.iter_mut() {
            if !new.iter().any(|(n, _, _)| n == c) && !sh.served.lock().unwrap().iter().any(|(n, _, _)| n == c) && cl.closed_by_peer() {
                dropped.push(*c);
            }
        }
        for c in &dropped {
            items.push(format!("{c}@drop"));
        }
        clients.retain(|(c, _)| !dropped.contains(c));
        if let Some(v) = graceful {
            out.push(format!("{}={v}{note}", &op[..1]));
            break;
        }
        // service instances created during this operation (after start-up: only a restart after a failed readiness check or a
        // replacement worker creates any), and for the calls that started whether a new instance served them
        let insts_after = *sh.insts.lock().unwrap();
        let newi: Vec<String> = (0..16).filter(|&c| insts_after[c] != insts_before[c]).map(|c| format!("{c}:{}", insts_after[c] - insts_before[c])).collect();
        let mut info = String::new();
        if !newi.is_empty() {
            let gens = sh.served_gen.lock().unwrap();
            let by: Vec<String> = new
                .iter()
                .filter_map(|(c, call, _)| gens.iter().find(|(g, _, _)| g == c).map(|(_, _, gen)| format!("{c}:{}", (*gen > insts_before[(*call).min(15)]) as u8)))
                .collect();
            info = format!("~new={};by={}", newi.join(","), by.join(","));
        }
        out.push(format!("{}={}/a{}{}{}", op, items.join(","), act.join("."), note, info));
    }
    for (_, c) in clients.iter_mut() {
        multi += c.extra_greetings();
    }
    sh.released.lock().unwrap().extend(clients.iter().map(|(c, _)| *c));
    drop(clients);
    drop(poisoned);
    let stopped = graceful.is_some() || block_on(run.handle.stop(false)).is_some();
    // (what started while the stop was on its way is none of this check's business: the clients have just gone away, which frees
    // slots for connections that waited in a backlog)
    let served_before_stop = sh.calls.load(Ordering::SeqCst);
    let mut late = 0;
    if graceful.is_none() && stopped {
        // the forced stop has completed: whatever was still queued at a worker is released, not served — also when the services
        // become ready now
        sh.blocked.store(false, Ordering::SeqCst);
        for w in sh.ready_wakers.lock().unwrap().drain(..) {
            w.wake();
        }
        std::thread::sleep(Duration::from_millis(150));
        late = sh.calls.load(Ordering::SeqCst) - served_before_stop;
    }
    let joined = {
        let (tx, rx) = mpsc::channel();
        std::thread::spawn(move || {
            let _ = run.thread.join();
            let _ = tx.send(());
        });
        rx.recv_timeout(BOUND).is_ok()
    };
    let mut s = out.join(" ; ");
    if multi > 0 {
        s.push_str(&format!(" ; !{multi}-extra-greeting-bytes"));
    }
    if !stopped || !joined {
        s.push_str(" ; !server-did-not-stop");
    }
    if late > 0 {
        s.push_str(&format!(" ; !{late}-service-call(s)-started-after-the-forced-stop-had-completed"));
    }
    s
}

pub fn run(line: &str, dir: &PathBuf, n: usize) -> String {
    let exp = field(line, "exp").unwrap_or("").to_string();
    let base: u64 = std::env::var("BLD_QUIET_MS").ok().and_then(|s| s.parse().ok()).unwrap_or(40);
    let mut last = String::new();
    for (retry, mult) in [1u64, 4, 10].iter().enumerate() {
        if retry == 2 && last.contains('!') {
            break; // a run with a time-out or an error note was confirmed once already
        }
        let d = dir.join(format!("bld{n}_{retry}"));
        std::fs::create_dir_all(&d).unwrap();
        last = run_once(line, &d, Duration::from_millis(base * mult));
        let _ = std::fs::remove_dir_all(&d);
        // the `~new=..;by=..` information about service instances is not part of the model's output
        let plain: String = last.split(' ').map(|t| t.split('~').next().unwrap_or("")).collect::<Vec<_>>().join(" ");
        if exp.is_empty() || plain == exp {
            return format!("{last} | retries={retry}");
        }
        if last.contains("did-not-start") && retry == 1 {
            break; // a longer quiet period does not help a service call that never starts; it was confirmed once
        }
    }
    format!("{last} | retries=3")
}
