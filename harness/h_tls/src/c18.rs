//! C18 — TLS acceptors (filled in later).
use crate::util::Pki;
pub fn c18(_line: &str, _pki: &Pki) -> String { "TODO".into() }
pub fn c18e2e(_line: &str, _pki: &Pki) -> String { "TODO".into() }
