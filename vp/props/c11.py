"""C11 — service combinators compute exactly the documented composition.
(Also hosts the case generator / trace parser shared with C12.)"""
import itertools
import re
from common import Stream

META = {
    "id": "C11",
    "driver": "service",
    "harness": "h_service",
    "coq_targets": ["Extract/XService.vo"],
    "level": "proof",
    "design_ref": "§5 C11, C12",
    "technique": "Coq proof (deep embedding of the combinators, structural induction over expression trees and future states, "
                 "refinement to the reference composition `denote`/`sem`/`fsem`) + extracted-model vs real-combinator differential run",
    "level_text": "C11_value (result = denote, after exactly delay+1 polls) and C11_order (projection of the log onto leaf calls, leaf "
                  "completions and closure applications = sequential reference log sem) hold for ALL service expression trees, ALL leaf "
                  "behaviours (arbitrary functions Z -> nat * res), ALL requests, start wakers and any sufficient fuel; C11_factory_value "
                  "(result = fsem: composed service expression or first init error in (round, position) order; create/wait-ready/configure; "
                  "factory-then-transform) and C11_factory_once (every leaf factory invoked exactly once with the routed config) for ALL "
                  "factory trees, configs and leaf-factory behaviours; C11_ref_* spell the reference out per combinator. "
                  "The model is tied to /repo/actix-service by running the same trees through the extracted model and through the real "
                  "combinators (boxed between levels) over scripted leaves with a hand-written executor; the complete event log with "
                  "waker ids is compared, and a sample is re-evaluated inside Coq (vm_compute) against the extracted run.",
    "level_note": "Trusted: Coq kernel, extraction, OCaml driver, Rust harness (scripted leaves, reified closures, S-expression "
                  "interpreter). `then`/`pipeline` are crate-private and outside the model.",
    "rule": "stream svc11: random service trees (depth <= 3 combinators + wrappers, 1..3 leaves with distinct ids, readiness scripts "
            "Pending^k.(Ok|Err) k<=2 and a few irregular ones, call delays 0..2 as a function of the request, errors on one residue "
            "class, closures +k/*k/=k/#k), ops = a few poll_ready then calls with requests 0..2; plus a small exhaustive family. "
            "Non-trivial = some call goes through a Pending poll or an error. "
            "stream fac11: random factory trees over scripted leaf factories (init delays 0..2, init errors), then the same ops on the "
            "built service.",
    "trusted_base": ["scripted leaf services/factories and reified closures of the harness mirror Model/Svc.v leaves (validated by this run)",
                     "Pin/Box/Rc/RefCell/reference plumbing is modelled as identity (each impl forwards both trait methods)"],
    "assumptions": ["a leaf's call behaviour does not depend on its readiness state (so the Rc<(A,B)> held by an AndThen future can be modelled by a copy)",
                    "the client never polls a future again after it returned Ready (Future contract on the caller's side)"],
}

# ---------------------------------------------------------------------------------------------
# S-expressions
# ---------------------------------------------------------------------------------------------
def sx_parse(s):
    toks = re.findall(r"\(|\)|[^\s()]+", s)
    pos = [0]

    def one():
        t = toks[pos[0]]
        pos[0] += 1
        if t == "(":
            l = []
            while toks[pos[0]] != ")":
                l.append(one())
            pos[0] += 1
            return l
        return t
    x = one()
    assert pos[0] == len(toks)
    return x


def sx_show(x):
    if isinstance(x, list):
        return "(" + " ".join(sx_show(y) for y in x) + ")"
    return x


def split_case(case):
    return [p.strip() for p in case.split(";")]


# ---------------------------------------------------------------------------------------------
# reified closures (Python mirror, used only by monitors that need the mapped readiness error)
# ---------------------------------------------------------------------------------------------
def app_m(m, x):
    k = int(m[1:])
    return {"+": x + k, "*": x * k, "=": k, "#": 10 * x + k}[m[0]]


def svc_leaves(x):
    """leaves of a service tree in evaluation order: (id, script, [map_err closures innermost first])"""
    h = x[0]
    if h == "L":
        return [(x[1], x[2], [])]
    if h == "F":
        return []
    if h == "A":
        return svc_leaves(x[1]) + svc_leaves(x[2])
    if h == "E":
        return [(i, s, m + [x[1]]) for (i, s, m) in svc_leaves(x[2])]
    if h in ("M", "K", "W"):
        return svc_leaves(x[2])
    if h == "P":
        return svc_leaves(x[3])
    raise ValueError("sexpr head %r" % h)


def rs_list(s):
    if s == "-":
        return []
    out = []
    i = 0
    while i < len(s):
        if s[i] == "e":
            out.append("e" + s[i + 1])
            i += 2
        else:
            out.append(s[i])
            i += 1
    return out


# ---------------------------------------------------------------------------------------------
# generators
# ---------------------------------------------------------------------------------------------
MAPPERS = ["+1", "+2", "*2", "*3", "=1", "=4", "#1", "#2", "+0"]
REG_SCRIPTS = ["-", "o", "po", "ppo", "e3", "pe4", "ppe5"]
IRR_SCRIPTS = ["pop", "oe6", "opo", "ppp", "poe7", "pppo"]
WRAPS = ["bx", "rd", "rc", "bo", "rf", "mr", "ce"]


def gen_leaf(rng, ids):
    i = ids[0]
    ids[0] += 1
    rs = rng.choice(REG_SCRIPTS) if rng.random() < 0.8 else rng.choice(IRR_SCRIPTS)
    return ["L", str(i), rs, str(rng.randint(0, 2)), str(rng.randint(0, 2)), str(rng.choice([-1, -1, 0, 1, 2])), rng.choice(MAPPERS)]


def gen_fnsvc(rng, ids):
    i = ids[0]
    ids[0] += 1
    return ["F", str(i), str(rng.randint(0, 2)), str(rng.randint(0, 2)), str(rng.choice([-1, -1, 0, 1, 2])), rng.choice(MAPPERS)]


def gen_sexpr(rng, depth, ids, maxleaves=3):
    """random service tree; `depth` counts combinator levels (wrappers included)"""
    if depth <= 0 or ids[0] >= maxleaves or rng.random() < 0.12:
        return gen_leaf(rng, ids) if rng.random() < 0.85 else gen_fnsvc(rng, ids)
    r = rng.random()
    if r < 0.34 and ids[0] + 1 < maxleaves:
        a = gen_sexpr(rng, depth - 1, ids, maxleaves - 1)
        b = gen_sexpr(rng, depth - 1, ids, maxleaves)
        return ["A", a, b]
    if r < 0.48:
        return ["M", rng.choice(MAPPERS), gen_sexpr(rng, depth - 1, ids, maxleaves)]
    if r < 0.64:
        return ["E", rng.choice(MAPPERS), gen_sexpr(rng, depth - 1, ids, maxleaves)]
    if r < 0.78:
        return ["P", rng.choice(MAPPERS), rng.choice(MAPPERS), gen_sexpr(rng, depth - 1, ids, maxleaves)]
    if r < 0.82:
        return ["K", rng.choice(["O7", "E8"]), gen_sexpr(rng, depth - 1, ids, maxleaves)]
    return ["W", rng.choice(WRAPS), gen_sexpr(rng, depth - 1, ids, maxleaves)]


def gen_ops(rng, nready, ncalls):
    ops = []
    for _ in range(nready):
        ops.append("R")
    for _ in range(ncalls):
        ops.append("C%d" % rng.randint(0, 2))
        if rng.random() < 0.2:
            ops.append("R")
    return " ".join(ops)


def gen_svc_case(rng, ready_heavy):
    e = gen_sexpr(rng, rng.randint(1, 3), [0])
    if ready_heavy:
        ops = gen_ops(rng, rng.randint(1, 4), rng.randint(0, 2))
    else:
        ops = gen_ops(rng, rng.randint(0, 2), rng.randint(1, 3))
    return sx_show(e) + " ; " + ops


def exhaustive_small(full=False):
    """every binary/unary skeleton of depth <= 2 over 2 leaves with every regular script pair, fixed closures
    (quick: a deterministic fifth of it; thorough: all of it plus the 3-leaf skeletons)"""
    out = []

    def leaf(i, rs, d, ec):
        return ["L", str(i), rs, str(d), "1", str(ec), "+%d" % (i + 1)]
    un = [lambda a: a, lambda a: ["M", "*2", a], lambda a: ["E", "#1", a], lambda a: ["P", "+1", "*3", a],
          lambda a: ["W", "rc", a], lambda a: ["W", "ce", a], lambda a: ["W", "rf", a]]
    for ra, rb in itertools.product(REG_SCRIPTS, repeat=2):
        for ua, ub, ur in itertools.product(range(len(un)), repeat=3):
            if not full and (ua + 2 * ub + 3 * ur + len(ra) + len(rb)) % 5 != 0:   # thin deterministically
                continue
            e = un[ur](["A", un[ua](leaf(0, ra, 1, 1)), un[ub](leaf(1, rb, 2, 2))])
            out.append(sx_show(e) + " ; R R R C0 C1 C2")
    if full:
        for ra, rb, rc in itertools.product(REG_SCRIPTS, repeat=3):
            for u in range(len(un)):
                la, lb, lc = leaf(0, ra, 1, 1), leaf(1, rb, 2, 2), leaf(2, rc, 0, 0)
                out.append(sx_show(["A", ["A", un[u](la), lb], lc]) + " ; R R R C0 C1 C2")
                out.append(sx_show(["A", la, un[u](["A", lb, lc])]) + " ; R R R C0 C1 C2")
                out.append(sx_show(un[u](["A", ["E", "#2", la], ["A", ["M", "+1", lb], ["W", "rd", lc]]])) + " ; R R R C0 C1 C2")
    return out


# ---------------------------------------------------------------------------------------------
# trace parsing
# ---------------------------------------------------------------------------------------------
OBS_RE = re.compile(r"^([RCN])\[([^\]]*)\]=(\S+)$")


def parse_trace(tr):
    """-> list of (kind, [events], result-string) or None if the trace is not well formed"""
    out = []
    if tr.strip() == "":
        return out
    for tok in tr.split(" "):
        m = OBS_RE.match(tok)
        if not m:
            return None
        evs = m.group(2).split(",") if m.group(2) else []
        out.append((m.group(1), evs, m.group(3)))
    return out


def split_model(model):
    """model line = "<trace> ## <refs>" """
    if " ## " in model:
        a, b = model.split(" ## ", 1)
        return a, b
    if model.endswith(" ##"):
        return model[:-3], ""
    return model, ""


def compare(impl, model):
    return impl == split_model(model)[0]


def proj_events(evs):
    out = []
    for e in evs:
        if e[0] in "cm":
            out.append(e)
        elif e[0] == "f":
            m = re.match(r"f(\d+)@\d+:([OE]-?\d+)$", e)
            if m:
                out.append("d%s:%s" % (m.group(1), m.group(2)))
    return out


def call_refs(refs):
    """refs of the call ops: list of (value, polls, [sev])"""
    out = []
    for tok in refs.split(" "):
        m = re.match(r"^D([OE]-?\d+)/(\d+):(.*)$", tok)
        if m:
            out.append((m.group(1), int(m.group(2)), m.group(3).split(",") if m.group(3) else []))
    return out


def c11_check_calls(obs, refs):
    """value equals denote; projected log equals the sequential reference log"""
    calls = [o for o in obs if o[0] == "C"]
    if len(calls) != len(refs):
        return "shape"
    for (_, evs, res), (val, _polls, sem) in zip(calls, refs):
        if res.split("/")[0] != val:
            return "value"
        if proj_events(evs) != sem:
            return "order"
    return ""


def monitor_svc(case, impl, model):
    return why_svc(case, impl, model) == ""


def why_svc(case, impl, model):
    obs = parse_trace(impl)
    if obs is None:
        return "crash"
    _, refs = split_model(model)
    return c11_check_calls(obs, call_refs(refs))


# ---------------------------------------------------------------------------------------------
# shrinking (structural)
# ---------------------------------------------------------------------------------------------
def sub_trees(x):
    h = x[0]
    if h == "A":
        return [x[1], x[2]]
    if h in ("M", "E", "K", "W"):
        return [x[2]]
    if h == "P":
        return [x[3]]
    return []


def shrink_tree(x):
    """smaller variants of a service tree"""
    for s in sub_trees(x):
        yield s
    h = x[0]
    if h == "L":
        if x[2] != "-":
            yield x[:2] + ["-"] + x[3:]
            rs = rs_list(x[2])
            if len(rs) > 1:
                yield x[:2] + ["".join(rs[1:])] + x[3:]
                yield x[:2] + ["".join(rs[:-1])] + x[3:]
        if x[3:6] != ["0", "0", "-1"]:
            yield x[:3] + ["0", "0", "-1"] + x[6:]
        if x[6] != "+0":
            yield x[:6] + ["+0"]
    elif h == "A":
        for a in shrink_tree(x[1]):
            yield ["A", a, x[2]]
        for b in shrink_tree(x[2]):
            yield ["A", x[1], b]
    elif h in ("M", "E", "K", "W"):
        for a in shrink_tree(x[2]):
            yield [h, x[1], a]
    elif h == "P":
        for a in shrink_tree(x[3]):
            yield [h, x[1], x[2], a]


def shrink_svc(case):
    es, ops = split_case(case)
    ol = ops.split()
    for i in range(len(ol)):
        yield es + " ; " + " ".join(ol[:i] + ol[i + 1:])
    try:
        x = sx_parse(es)
    except Exception:
        return
    for y in shrink_tree(x):
        yield sx_show(y) + " ; " + ops


def nontrivial_call(case, model):
    tr, _ = split_model(model)
    obs = parse_trace(tr) or []
    return any(k == "C" and (any(e.endswith(":p") for e in evs) or res.startswith("E")) for k, evs, res in obs)


# ---------------------------------------------------------------------------------------------
# factory level
# ---------------------------------------------------------------------------------------------
def fac_leaves(x):
    """leaves of the service a factory tree builds, in evaluation order (id, script, [map_err closures])"""
    h = x[0]
    if h == "FL":
        return [(x[1], x[6], [])]
    if h == "FS":
        return []
    if h == "FA":
        return fac_leaves(x[1]) + fac_leaves(x[2])
    if h == "FE":
        return [(i, s, m + [x[1]]) for (i, s, m) in fac_leaves(x[2])]
    if h in ("FM", "FI", "FC", "FK", "FW"):
        return fac_leaves(x[2])
    if h == "FP":
        return fac_leaves(x[3])
    if h == "FU":
        return fac_leaves(x[1])
    if h == "FG":
        return svc_leaves(x[1])
    if h == "FH":
        return fac_leaves(x[1])
    if h == "FT":
        return fac_leaves(x[8])
    raise ValueError("fexpr head %r" % h)


def fh_ids(x):
    """ids of the closures of the apply_cfg_factory nodes of a factory tree"""
    if not isinstance(x, list) or not x:
        return []
    out = [(x[2], set(i for i, _, _ in fac_leaves(x[1])))] if x[0] == "FH" else []
    for y in x[1:]:
        if isinstance(y, list):
            out += fh_ids(y)
    return out


def gen_fleaf(rng, ids, cty):
    i = ids[0]
    ids[0] += 1
    rs = rng.choice(REG_SCRIPTS) if rng.random() < 0.85 else rng.choice(IRR_SCRIPTS)
    kind = rng.choice(["d", "d", "c", "n"])
    return ["FL", str(i), kind, str(rng.randint(0, 2)), str(rng.randint(0, 2)), str(rng.choice([-1, -1, -1, 0, 1, 2])), rs,
            str(rng.randint(0, 2)), str(rng.randint(0, 2)), str(rng.choice([-1, -1, 0, 1, 2])), rng.choice(MAPPERS)]


def fresh(ids):
    i = ids[0]
    ids[0] += 1
    return str(i)


def gen_fexpr(rng, depth, ids, cty, maxleaves=3):
    """random factory tree, well typed for config type cty ('u' = (), 'z' = number)"""
    if depth <= 0 or ids[0] >= maxleaves + 2 or rng.random() < 0.1:
        r = rng.random()
        if r < 0.8:
            return gen_fleaf(rng, ids, cty)
        if r < 0.9:
            return ["FS", fresh(ids), str(rng.randint(0, 2)), str(rng.randint(0, 2)), str(rng.choice([-1, 0, 1])), rng.choice(MAPPERS)]
        s = gen_sexpr(rng, rng.randint(0, 1), ids, ids[0] + 2)
        return ["FG", s, fresh(ids), str(rng.randint(0, 2)), rng.choice(["-", "-", "-", "8"])]
    r = rng.random()
    d = depth - 1
    if r < 0.28:
        return ["FA", gen_fexpr(rng, d, ids, cty, maxleaves), gen_fexpr(rng, d, ids, cty, maxleaves)]
    if r < 0.36:
        return ["FM", rng.choice(MAPPERS), gen_fexpr(rng, d, ids, cty, maxleaves)]
    if r < 0.44:
        return ["FE", rng.choice(MAPPERS), gen_fexpr(rng, d, ids, cty, maxleaves)]
    if r < 0.53:
        return ["FI", rng.choice(MAPPERS), gen_fexpr(rng, d, ids, cty, maxleaves)]
    if r < 0.60:
        if rng.random() < 0.8:
            return ["FP", rng.choice(MAPPERS), rng.choice(MAPPERS), gen_fexpr(rng, d, ids, cty, maxleaves)]
        return ["FK", rng.choice(["O7", "E8"]), gen_fexpr(rng, d, ids, cty, maxleaves)]
    if r < 0.67 and cty == "z":
        return ["FC", rng.choice(MAPPERS), gen_fexpr(rng, d, ids, "z", maxleaves)]
    if r < 0.72:
        return ["FU", gen_fexpr(rng, d, ids, "u", maxleaves)]
    if r < 0.82:
        inner = gen_fexpr(rng, d, ids, "u", maxleaves)
        return ["FH", inner, fresh(ids), str(rng.randint(0, 2)), rng.choice(["-", "-", "-", "9"])]
    if r < 0.93:
        inner = gen_fexpr(rng, d, ids, cty, maxleaves)
        return ["FT", fresh(ids), str(rng.randint(0, 2)), rng.choice(["-", "-", "-", "6"]), rng.choice(["0", "1"]),
                rng.choice(["-", "-"] + MAPPERS[:3] + ["#3"]), rng.choice(MAPPERS), rng.choice(MAPPERS), inner]
    return ["FW", rng.choice(["bx", "rc", "ar"]), gen_fexpr(rng, d, ids, cty, maxleaves)]


def gen_fac_case(rng, ready_heavy):
    cty = "z" if rng.random() < 0.75 else "u"
    f = gen_fexpr(rng, rng.randint(1, 3), [0], cty)
    cfg = str(rng.randint(0, 2)) if cty == "z" else "u"
    ops = gen_ops(rng, rng.randint(1, 3), rng.randint(0, 2)) if ready_heavy else gen_ops(rng, rng.randint(0, 1), rng.randint(1, 2))
    return sx_show(f) + " ; " + cfg + " ; " + ops


def exhaustive_fac_small():
    """and_then over two leaf factories: every (delay, outcome) pair, under a few unary contexts; plus
    create/wait/configure over every regular readiness script"""
    out = []

    def fl(i, k, fail, rs="o"):
        # delay k for every config (fdm = 0); fails for config 1 iff fail
        return ["FL", str(i), "d", str(k), "0", "1" if fail else "-1", rs, "1", "1", "-1", "+%d" % (i + 1)]
    ctx = [lambda a: a, lambda a: ["FI", "#1", a], lambda a: ["FW", "bx", a], lambda a: ["FM", "*2", a],
           lambda a: ["FT", "7", "1", "-", "0", "-", "+1", "*2", a], lambda a: ["FT", "7", "1", "6", "1", "#3", "+1", "*2", a]]
    for ka, kb, ea, eb in itertools.product(range(3), range(3), (False, True), (False, True)):
        for c in ctx:
            out.append(sx_show(c(["FA", fl(0, ka, ea), fl(1, kb, eb)])) + " ; 1 ; R C0 C1")
    for rs in REG_SCRIPTS + IRR_SCRIPTS:
        for k, kc, fail in itertools.product(range(3), range(3), ("-", "9")):
            f = ["FH", ["FU", fl(0, k, False, rs)], "5", str(kc), fail]
            out.append(sx_show(f) + " ; 2 ; R R C1")
            f = ["FH", ["FE", "#4", fl(0, k, False, rs)], "5", str(kc), fail]
            out.append(sx_show(f) + " ; u ; R C1")
    return out


def fac_refs(refs):
    """-> (value, polls, [leaf(cfg)], rest-of-refs)"""
    m = re.match(r"^S(\S+)/(\d+) L(\S*)(?: (.*))?$", refs)
    if not m:
        return None
    return m.group(1), int(m.group(2)), (m.group(3).split(",") if m.group(3) else []), m.group(4) or ""


def why_fac(case, impl, model):
    obs = parse_trace(impl)
    if obs is None or not obs or obs[0][0] != "N":
        return "crash"
    _, refs = split_model(model)
    fr = fac_refs(refs)
    if fr is None:
        return "shape"
    val, _polls, leaves, rest = fr
    _, evs, res = obs[0]
    if res.split("/")[0] != val:
        return "factory-value"
    news = [e[1:] for e in evs if e[0] == "n"]
    if sorted(news) != sorted(leaves):
        return "factory-once"
    if any(e[0] == "n" for _, ev2, _ in obs[1:] for e in ev2):
        return "factory-once"
    # apply_cfg_factory: create, wait ready, THEN configure: the readiness round right before the
    # closure runs must not contain a Pending or failing leaf
    try:
        tree = sx_parse(split_case(case)[0])
    except Exception:
        return "shape"
    for gid, lids in fh_ids(tree):
        tag = "g%s(" % gid
        for k, e in enumerate(evs):
            if e.startswith(tag):
                rr = [re.match(r"r(\d+)@(\d+):(\S+)$", x) for x in evs[:k]]
                rr = [(int(m.group(2)), m.group(3)) for m in rr if m and m.group(1) in lids]
                if rr:
                    last = max(w for w, _ in rr)
                    if any(a != "o" for w, a in rr if w == last):
                        return "cfg-before-ready"
    return c11_check_calls(obs[1:], call_refs(rest))


def monitor_fac(case, impl, model):
    return why_fac(case, impl, model) == ""


def shrink_fac_tree(x):
    h = x[0]
    kids = {"FA": [1, 2], "FM": [2], "FE": [2], "FI": [2], "FC": [2], "FK": [2], "FW": [2], "FP": [3], "FU": [1], "FH": [1], "FT": [8]}.get(h, [])
    for k in kids:
        if h not in ("FU", "FH", "FC"):      # these change the config type of the child
            yield x[k]
    for k in kids:
        for y in shrink_fac_tree(x[k]):
            yield x[:k] + [y] + x[k + 1:]
    if h == "FG":
        for y in shrink_tree(x[1]):
            yield [h, y] + x[2:]
    if h == "FL":
        if x[6] != "-":
            yield x[:6] + ["-"] + x[7:]
        if x[3:6] != ["0", "0", "-1"]:
            yield x[:3] + ["0", "0", "-1"] + x[6:]
        if x[7:10] != ["0", "0", "-1"]:
            yield x[:7] + ["0", "0", "-1"] + x[10:]
    if h == "FT" and x[2:6] != ["0", "-", "0", "-"]:
        yield x[:2] + ["0", "-", "0", "-"] + x[6:]
    if h in ("FH", "FG") and x[3:5] != ["0", "-"]:
        yield x[:3] + ["0", "-"]


def shrink_fac(case):
    fs, cfg, ops = split_case(case)
    ol = ops.split()
    for i in range(len(ol)):
        yield fs + " ; " + cfg + " ; " + " ".join(ol[:i] + ol[i + 1:])
    try:
        x = sx_parse(fs)
    except Exception:
        return
    for y in shrink_fac_tree(x):
        yield sx_show(y) + " ; " + cfg + " ; " + ops


def nontrivial_fac(case, model):
    tr, _ = split_model(model)
    obs = parse_trace(tr) or []
    return bool(obs) and (any(e.endswith(":p") for e in obs[0][1]) or obs[0][2].startswith("E"))


# ---------------------------------------------------------------------------------------------
# in-Coq cross-check of a sample (guards the extraction): case/trace -> Gallina terms
# ---------------------------------------------------------------------------------------------
COQ_IMPORTS = """From AN Require Import Model.Svc.
Definition fview (o : fobs) :=
  let 'FObs r k l rest := o in
  (match r with IPending => 0 | IReady (IOk _) => 1 | IReady (IErr e) => 2 | IPanic => 3 end,
   match r with IReady (IErr e) => e | _ => 0 end, k, l, rest)%Z.
"""


def gz(x):
    return "(%d)%%Z" % int(x)


def gn(x):
    return "%d%%nat" % int(x)


def g_mapper(m):
    return "(%s %s)" % ({"+": "MAdd", "*": "MMul", "=": "MConst", "#": "MTag"}[m[0]], gz(m[1:]))


def g_rans(a):
    return {"p": "RPending", "o": "ROk"}.get(a) or "(RErr %s)" % gz(a[1:])


def g_res(r):
    return "(%s %s)" % ("Ok" if r[0] == "O" else "Err", gz(r[1:]))


def g_pres(r):
    return {"P": "PPending", "p": "PPending", "X": "PPanic"}.get(r) or "(PReady %s)" % g_res(r)


def g_beh(d, dm, ec, m):
    return "{| b_d := %s; b_dm := %s; b_ec := %s; b_m := %s |}" % (gz(d), gz(dm), gz(ec), g_mapper(m))


def g_rs(s):
    return "[" + "; ".join(g_rans(a) for a in rs_list(s)) + "]"


WK = {"bx": "WBoxed", "rd": "WRcDyn", "rc": "WRc", "bo": "WBox", "rf": "WRef", "mr": "WMutRef", "ce": "WRefCell"}


def g_sexpr(x):
    h = x[0]
    if h == "L":
        return "(Leaf %s %s (beh_of %s))" % (gn(x[1]), g_rs(x[2]), g_beh(*x[3:7]))
    if h == "F":
        return "(FnSvc %s (beh_of %s))" % (gn(x[1]), g_beh(*x[2:6]))
    if h == "A":
        return "(AndThen %s %s)" % (g_sexpr(x[1]), g_sexpr(x[2]))
    if h == "M":
        return "(Map %s %s)" % (g_mapper(x[1]), g_sexpr(x[2]))
    if h == "E":
        return "(MapErr %s %s)" % (g_mapper(x[1]), g_sexpr(x[2]))
    if h == "P":
        return "(ApplyFn (WPrePost %s %s) %s)" % (g_mapper(x[1]), g_mapper(x[2]), g_sexpr(x[3]))
    if h == "K":
        return "(ApplyFn (WSkip %s) %s)" % (g_res(x[1]), g_sexpr(x[2]))
    if h == "W":
        return "(Wrap %s %s)" % (WK[x[1]], g_sexpr(x[2]))
    raise ValueError(h)


def g_optz(s):
    return "None" if s == "-" else "(Some %s)" % gz(s)


def g_cfg(c):
    return "None" if c == "u" else "(Some %s)" % gz(c)


def g_fexpr(x):
    h = x[0]
    if h == "FL":
        kind = {"d": "LDirect", "n": "LFnFactory", "c": "LFnFactoryCfg"}[x[2]]
        fb = "{| f_d := %s; f_dm := %s; f_ec := %s; f_rs := %s; f_b := %s |}" % (gz(x[3]), gz(x[4]), gz(x[5]), g_rs(x[6]), g_beh(*x[7:11]))
        return "(FLeafF %s %s (fbeh_of %s %s))" % (gn(x[1]), kind, gn(x[1]), fb)
    if h == "FS":
        return "(FFnService %s (beh_of %s))" % (gn(x[1]), g_beh(*x[2:6]))
    if h == "FA":
        return "(FAndThen %s %s)" % (g_fexpr(x[1]), g_fexpr(x[2]))
    if h == "FM":
        return "(FMapSvc (SWMap %s) %s)" % (g_mapper(x[1]), g_fexpr(x[2]))
    if h == "FE":
        return "(FMapSvc (SWMapErr %s) %s)" % (g_mapper(x[1]), g_fexpr(x[2]))
    if h == "FP":
        return "(FMapSvc (SWApplyFn (WPrePost %s %s)) %s)" % (g_mapper(x[1]), g_mapper(x[2]), g_fexpr(x[3]))
    if h == "FK":
        return "(FMapSvc (SWApplyFn (WSkip %s)) %s)" % (g_res(x[1]), g_fexpr(x[2]))
    if h == "FI":
        return "(FMapInitErr %s %s)" % (g_mapper(x[1]), g_fexpr(x[2]))
    if h == "FC":
        return "(FMapConfig %s %s)" % (g_mapper(x[1]), g_fexpr(x[2]))
    if h == "FU":
        return "(FUnitConfig %s)" % g_fexpr(x[1])
    if h == "FG":
        return "(FApplyCfg %s {| c_id := %s; c_k := %s; c_fail := %s |})" % (g_sexpr(x[1]), gn(x[2]), gn(x[3]), g_optz(x[4]))
    if h == "FH":
        return "(FApplyCfgFactory %s {| c_id := %s; c_k := %s; c_fail := %s |})" % (g_fexpr(x[1]), gn(x[2]), gn(x[3]), g_optz(x[4]))
    if h == "FT":
        mie = "None" if x[5] == "-" else "(Some %s)" % g_mapper(x[5])
        t = "{| t_id := %s; t_k := %s; t_fail := %s; t_wf := WPrePost %s %s; t_rc := %s; t_mie := %s |}" % (
            gn(x[1]), gn(x[2]), g_optz(x[3]), g_mapper(x[6]), g_mapper(x[7]), "true" if x[4] == "1" else "false", mie)
        return "(FApplyTransform %s %s)" % (t, g_fexpr(x[8]))
    if h == "FW":
        return "(FWrap %s %s)" % ({"bx": "FWBoxed", "rc": "FWRc", "ar": "FWArc"}[x[1]], g_fexpr(x[2]))
    raise ValueError(h)


KIND = {"o": "KOk", "e": "KErr", "a": "KPre", "z": "KPost", "c": "KCfg", "i": "KInit", "t": "KTInit"}


def g_event(e):
    m = re.match(r"r(\d+)@(\d+):(\S+)$", e)
    if m:
        return "EvReady %s %s %s" % (gn(m.group(1)), gn(m.group(2)), g_rans(m.group(3)))
    m = re.match(r"c(\d+)\((-?\d+)\)$", e)
    if m:
        return "EvCall %s %s" % (gn(m.group(1)), gz(m.group(2)))
    m = re.match(r"f(\d+)@(\d+):(\S+)$", e)
    if m:
        return "EvPoll %s %s %s" % (gn(m.group(1)), gn(m.group(2)), g_pres(m.group(3)))
    m = re.match(r"x(\d+)@(\d+)$", e)
    if m:
        return "EvPollDone %s %s" % (gn(m.group(1)), gn(m.group(2)))
    m = re.match(r"m(\w)([+*=#]-?\d+)\((-?\d+)\)$", e)
    if m:
        return "EvMap %s %s %s" % (KIND[m.group(1)], g_mapper(m.group(2)), gz(m.group(3)))
    m = re.match(r"n(\d+)\((u|-?\d+)\)$", e)
    if m:
        return "EvNew %s %s" % (gn(m.group(1)), g_cfg(m.group(2)))
    m = re.match(r"i(\d+)@(\d+):([pd])$", e)
    if m:
        return "EvInit %s %s %s" % (gn(m.group(1)), gn(m.group(2)), "true" if m.group(3) == "p" else "false")
    m = re.match(r"y(\d+)@(\d+)$", e)
    if m:
        return "EvInitDone %s %s" % (gn(m.group(1)), gn(m.group(2)))
    m = re.match(r"t(\d+)$", e)
    if m:
        return "EvNewT %s" % gn(m.group(1))
    m = re.match(r"g(\d+)\((u|-?\d+)\)$", e)
    if m:
        return "EvCfgFn %s %s" % (gn(m.group(1)), g_cfg(m.group(2)))
    raise ValueError(e)


def g_events(evs):
    return "[" + "; ".join(g_event(e) for e in evs) + "]"


def g_obs(o):
    kind, evs, res = o
    if kind == "R":
        return "ObsReady %s %s" % (g_rans(res), g_events(evs))
    r, _, n = res.partition("/")
    return "ObsCall %s %s %s" % (g_pres(r), gn(n), g_events(evs))


def g_ops(ops):
    return "[" + "; ".join("OReady" if o == "R" else "OCall %s" % gz(o[1:]) for o in ops.split()) + "]"


def to_coq_svc(case, model):
    try:
        es, ops = split_case(case)
        obs = parse_trace(split_model(model)[0])
        if obs is None:
            return None
        return ("run_ops 40 %s 0 %s" % (g_sexpr(sx_parse(es)), g_ops(ops)), "[" + "; ".join(g_obs(o) for o in obs) + "]")
    except Exception:
        return None


def to_coq_fac(case, model):
    try:
        fs, cfg, ops = split_case(case)
        obs = parse_trace(split_model(model)[0])
        if not obs:
            return None
        _, evs, res = obs[0]
        r, _, n = res.partition("/")
        tag = {"P": 0, "O": 1, "X": 3}.get(r, 2)
        err = int(r[1:]) if tag == 2 else 0
        rhs = "(%s, %s, %s, %s, [%s])" % (gz(tag), gz(err), gn(n), g_events(evs), "; ".join(g_obs(o) for o in obs[1:]))
        return ("fview (run_fac 40 %s %s %s)" % (g_fexpr(sx_parse(fs)), g_cfg(cfg), g_ops(ops)), rhs)
    except Exception:
        return None


def streams(ctx):
    n = 6000 if ctx.tier == "quick" else 150000
    cases = exhaustive_small(ctx.tier != "quick") + [gen_svc_case(ctx.rng, False) for _ in range(n)]
    s1 = Stream("svc11", "svc", cases, monitor=monitor_svc, nontrivial=nontrivial_call, shrink=shrink_svc,
                compare=compare, to_coq=to_coq_svc, coq_imports=COQ_IMPORTS, finding_key=lambda c, i, m: why_svc(c, i, m),
                describe="%d structured + %d random service trees, ops mostly calls" % (len(cases) - n, n))
    nf = 6000 if ctx.tier == "quick" else 150000
    ex = exhaustive_fac_small()
    fcases = ex + [gen_fac_case(ctx.rng, False) for _ in range(nf)]
    s2 = Stream("fac11", "fac", fcases, monitor=monitor_fac, nontrivial=nontrivial_fac, shrink=shrink_fac,
                compare=compare, to_coq=to_coq_fac, coq_imports=COQ_IMPORTS, finding_key=lambda c, i, m: why_fac(c, i, m),
                describe="%d structured + %d random factory trees, then ops on the built service" % (len(ex), nf))
    return [s1, s2]
