(* Driver for the extracted local-channel / Counter / LocalWaker models (C16, C17).
   One case per stdin line, one trace per stdout line.  usage: driver <mode>
     c16      ops                      -> model trace
     mon16    ops # trace              -> "ok" | "FAIL <clause>"   (extracted C16_ok on a given trace)
     sweep16  L|prefix ops             -> "n=<count> nt=<nontrivial> h=<digest>" over all valid
                                          extensions of the prefix of total length <= L (<= 3 live senders)
     c17      cap|ops                  -> model trace
     mon17    cap|ops # trace          -> "ok" | "FAIL"
     sweep17  cap|L|prefix ops
     lw       ops                      -> model trace
     monlw    ops # trace              -> "ok" | "FAIL"
   Text formats (shared with harness/h_local):
     C16 ops   s<i>.<v> send  c<i> clone  d<i> drop sender  x<i> close  p<w> poll  f sender()  r drop receiver
     C16 obs   ok er | - | ! (dead handle) | P  I<v>  N  followed by ^<w> per wake
     C17 ops   a acquire  d<g> drop guard  v<w> available  k clone
     C17 obs   - | ! | T F   then ^<w> per wake   then /<total>
     LW  ops   r<w> register  w wake  t take         obs  R0 R1 | W^<w>.. | T<w> T-            *)
open Gen

let rec nat_of_int n = if n <= 0 then O else S (nat_of_int (n - 1))
let rec int_of_nat = function O -> 0 | S n -> 1 + int_of_nat n
let rec pos_of_int n = if n = 1 then XH else if n land 1 = 1 then XI (pos_of_int (n lsr 1)) else XO (pos_of_int (n lsr 1))
let z_of_int n = if n = 0 then Z0 else if n > 0 then Zpos (pos_of_int n) else Zneg (pos_of_int (-n))
let n_of_int n = if n = 0 then N0 else Npos (pos_of_int n)
let rec int_of_pos = function XH -> 1 | XO p -> 2 * int_of_pos p | XI p -> 2 * int_of_pos p + 1
let int_of_z = function Z0 -> 0 | Zpos p -> int_of_pos p | Zneg p -> - (int_of_pos p)
let int_of_n = function N0 -> 0 | Npos p -> int_of_pos p

let tokens s = List.filter (fun t -> t <> "") (String.split_on_char ' ' s)
let tail s k = String.sub s k (String.length s - k)
let int_tail s k = int_of_string (tail s k)

(* split "tok^1^0" into ("tok", [1;0]) *)
let split_wakes t =
  match String.split_on_char '^' t with
  | [] -> ("", [])
  | r :: ws -> (r, List.map (fun w -> nat_of_int (int_of_string w)) ws)
let show_wakes ws = String.concat "" (List.map (fun w -> "^" ^ string_of_int (int_of_nat w)) ws)

(* ---------------- C16 ---------------- *)
let parse_op16 t =
  match t.[0] with
  | 's' -> (match String.split_on_char '.' (tail t 1) with
            | [i; v] -> Send (nat_of_int (int_of_string i), z_of_int (int_of_string v))
            | _ -> failwith ("bad op " ^ t))
  | 'c' -> CloneSender (nat_of_int (int_tail t 1))
  | 'd' -> DropSender (nat_of_int (int_tail t 1))
  | 'x' -> Close (nat_of_int (int_tail t 1))
  | 'p' -> PollRecv (nat_of_int (int_tail t 1))
  | 'f' -> SenderFromReceiver
  | 'r' -> DropReceiver
  | _ -> failwith ("bad op " ^ t)

let show_ret16 = function
  | RUnit -> "-" | RInvalid -> "!" | RSent true -> "ok" | RSent false -> "er"
  | RPoll Pending -> "P" | RPoll Finished -> "N" | RPoll (Item v) -> "I" ^ string_of_int (int_of_z v)
let show_obs16 ob = show_ret16 ob.o_ret ^ show_wakes ob.o_wakes

let parse_obs16 t =
  let (r, ws) = split_wakes t in
  let ret = match r with
    | "-" -> RUnit | "!" -> RInvalid | "ok" -> RSent true | "er" -> RSent false
    | "P" -> RPoll Pending | "N" -> RPoll Finished
    | _ when r <> "" && r.[0] = 'I' -> RPoll (Item (z_of_int (int_tail r 1)))
    | _ -> failwith ("bad obs " ^ t) in
  { o_ret = ret; o_wakes = ws }

let c16 line =
  let ops = List.map parse_op16 (tokens line) in
  String.concat " " (List.map show_obs16 (chan_run ops))

let split_hash line =
  match String.index_opt line '#' with
  | None -> failwith "expected: case # trace"
  | Some k -> (String.trim (String.sub line 0 k), String.trim (tail line (k + 1)))

let mon16 line =
  let (case, tr) = split_hash line in
  match (try Some (List.map parse_obs16 (tokens tr)) with _ -> None) with
  | None -> "FAIL unparsable-trace"
  | Some obs ->
    let ops = List.map parse_op16 (tokens case) in
    if c16_ok ops obs then "ok"
    else "FAIL " ^ (match int_of_nat (c16_failing_clause ops obs) with
                    | 1 -> "fifo" | 2 -> "send_err" | 3 -> "wake" | 4 -> "wake_once" | 5 -> "end" | _ -> "?")

(* ---- digest shared with the harness: 62-bit FNV-style hash of the trace text ---- *)
let mask = max_int                       (* 2^62 - 1 *)
let h0 = 0x2bf29ce484222325
let hbyte h b = let x = ((h lxor b) * 1099511628211) land mask in x lxor (x lsr 31)
let hstr h s = let r = ref h in String.iter (fun c -> r := hbyte !r (Char.code c)) s; hbyte !r 32

let max_senders = 3

(* all valid ops in a handle situation (alive sender flags, receiver alive), [k] = value of the next send *)
let ops16 alive rx k =
  let n = List.length (List.filter (fun b -> b) alive) in
  let per_sender =
    List.concat (List.mapi (fun i b ->
      if not b then [] else
        [ "s" ^ string_of_int i ^ "." ^ string_of_int k ]
        @ (if n < max_senders then [ "c" ^ string_of_int i ] else [])
        @ [ "d" ^ string_of_int i; "x" ^ string_of_int i ]) alive) in
  per_sender @ (if rx then [ "p0"; "p1" ] @ (if n < max_senders then [ "f" ] else []) @ [ "r" ] else [])

let track16 (alive, rx, k) t =
  match t.[0] with
  | 's' -> (alive, rx, k + 1)
  | 'c' | 'f' -> (alive @ [ true ], rx, k)
  | 'd' -> let i = int_tail t 1 in (List.mapi (fun j b -> if j = i then false else b) alive, rx, k)
  | 'r' -> (alive, false, k)
  | _ -> (alive, rx, k)

let nontriv16 s = String.contains s '^' || s = "er" || s = "N"

let sweep16 line =
  match String.split_on_char '|' line with
  | [ l; prefix ] ->
    let maxlen = int_of_string (String.trim l) in
    let cnt = ref 0 and nt = ref 0 and sum = ref 0 in
    let rec go c tr h isnt depth =
      incr cnt; if isnt then incr nt; sum := (!sum + h) land mask;
      if depth < maxlen then begin
        let (alive, rx, k) = tr in
        List.iter (fun t ->
          let (c', ob) = chan_step c (parse_op16 t) in
          let s = show_obs16 ob in
          go c' (track16 tr t) (hstr h s) (isnt || nontriv16 s) (depth + 1)) (ops16 alive rx k)
      end in
    (* run the prefix *)
    let toks = tokens prefix in
    let (c, tr, h, isnt) =
      List.fold_left (fun (c, tr, h, isnt) t ->
        let (c', ob) = chan_step c (parse_op16 t) in
        let s = show_obs16 ob in
        (c', track16 tr t, hstr h s, isnt || nontriv16 s)) (chan_init, ([ true ], true, 1), h0, false) toks in
    go c tr h isnt (List.length toks);
    Printf.sprintf "n=%d nt=%d h=%x" !cnt !nt !sum
  | _ -> failwith "sweep16: L|prefix"

(* ---------------- C17 counter ---------------- *)
let parse_op17 t =
  match t.[0] with
  | 'a' -> Acquire
  | 'd' | 'u' -> DropGuard (nat_of_int (int_tail t 1))   (* u: dropped during unwinding — the same operation *)
  | 'v' -> Available (nat_of_int (int_tail t 1))
  | 'k' -> Clone
  | 'h' -> DropClone
  | 'w' -> DropClone     (* Debug-formatting a handle or a guard: like dropping a spare handle, it touches nothing *)
  | _ -> failwith ("bad op " ^ t)

let show_obs17 ob =
  (match ob.c_ret with CUnit -> "-" | CInvalid -> "!" | CAvail true -> "T" | CAvail false -> "F")
  ^ show_wakes ob.c_wakes ^ "/" ^ string_of_int (int_of_n ob.c_total)

let parse_obs17 t =
  match String.split_on_char '/' t with
  | [ a; tot ] ->
    let (r, ws) = split_wakes a in
    let ret = match r with "-" -> CUnit | "!" -> CInvalid | "T" -> CAvail true | "F" -> CAvail false
                           | _ -> failwith ("bad obs " ^ t) in
    { c_ret = ret; c_wakes = ws; c_total = n_of_int (int_of_string tot) }
  | _ -> failwith ("bad obs " ^ t)

let split_cap line =
  match String.index_opt line '|' with
  | None -> failwith "expected cap|ops"
  | Some k -> (int_of_string (String.trim (String.sub line 0 k)), tail line (k + 1))

let c17 line =
  let (cap, rest) = split_cap line in
  let ops = List.map parse_op17 (tokens rest) in
  String.concat " " (List.map show_obs17 (ctr_run (n_of_int cap) ops))

let mon17 line =
  let (case, tr) = split_hash line in
  let (cap, rest) = split_cap case in
  match (try Some (List.map parse_obs17 (tokens tr)) with _ -> None) with
  | None -> "FAIL unparsable-trace"
  | Some obs -> if c17_counter_ok (n_of_int cap) (List.map parse_op17 (tokens rest)) obs then "ok" else "FAIL"

let ops17 alive =
  [ "a" ] @ List.concat (List.mapi (fun i b -> if b then [ "d" ^ string_of_int i ] else []) alive) @ [ "v0"; "v1"; "k" ]
let track17 alive t =
  match t.[0] with
  | 'a' -> alive @ [ true ]
  | 'd' | 'u' -> let i = int_tail t 1 in List.mapi (fun j b -> if j = i then false else b) alive
  | _ -> alive
let nontriv17 s = String.contains s '^' || s.[0] = 'F'

let sweep17 line =
  match String.split_on_char '|' line with
  | [ cap; l; prefix ] ->
    let cap = int_of_string (String.trim cap) and maxlen = int_of_string (String.trim l) in
    let cnt = ref 0 and nt = ref 0 and sum = ref 0 in
    let rec go st alive h isnt depth =
      incr cnt; if isnt then incr nt; sum := (!sum + h) land mask;
      if depth < maxlen then
        List.iter (fun t ->
          let (st', ob) = ctr_step st (parse_op17 t) in
          let s = show_obs17 ob in
          go st' (track17 alive t) (hstr h s) (isnt || nontriv17 s) (depth + 1)) (ops17 alive) in
    let toks = tokens prefix in
    let (st, alive, h, isnt) =
      List.fold_left (fun (st, alive, h, isnt) t ->
        let (st', ob) = ctr_step st (parse_op17 t) in
        let s = show_obs17 ob in
        (st', track17 alive t, hstr h s, isnt || nontriv17 s)) (ctr_init (n_of_int cap), [], h0, false) toks in
    go st alive h isnt (List.length toks);
    Printf.sprintf "n=%d nt=%d h=%x" !cnt !nt !sum
  | _ -> failwith "sweep17: cap|L|prefix"

(* ---------------- LocalWaker ---------------- *)
let parse_oplw t =
  match t.[0] with
  | 'r' -> Register (nat_of_int (int_tail t 1))
  | 'w' -> Wake
  | 't' -> Take
  | _ -> failwith ("bad op " ^ t)
let show_obslw = function
  | ORegister b -> if b then "R1" else "R0"
  | OWake ws -> "W" ^ show_wakes ws
  | OTake None -> "T-"
  | OTake (Some w) -> "T" ^ string_of_int (int_of_nat w)
let parse_obslw t =
  match t.[0] with
  | 'R' -> ORegister (t = "R1")
  | 'W' -> OWake (snd (split_wakes t))
  | 'T' -> if t = "T-" then OTake None else OTake (Some (nat_of_int (int_tail t 1)))
  | _ -> failwith ("bad obs " ^ t)
let lw line = String.concat " " (List.map show_obslw (lw_run (List.map parse_oplw (tokens line))))
let monlw line =
  let (case, tr) = split_hash line in
  match (try Some (List.map parse_obslw (tokens tr)) with _ -> None) with
  | None -> "FAIL unparsable-trace"
  | Some obs -> if c17_local_waker_ok (List.map parse_oplw (tokens case)) obs then "ok" else "FAIL"

let () =
  let mode = Sys.argv.(1) in
  let f = match mode with
    | "c16" -> c16 | "mon16" -> mon16 | "sweep16" -> sweep16
    | "c17" -> c17 | "mon17" -> mon17 | "sweep17" -> sweep17
    | "lw" -> lw | "monlw" -> monlw
    | m -> failwith ("unknown mode " ^ m) in
  let interactive = String.length mode >= 3 && String.sub mode 0 3 = "mon" in
  try while true do
    let line = input_line stdin in
    print_string (try f line with Failure m -> "DRIVER-ERROR " ^ m | Invalid_argument m -> "DRIVER-ERROR " ^ m);
    print_char '\n';
    if interactive then flush stdout
  done with End_of_file -> ()
