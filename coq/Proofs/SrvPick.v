(* Proofs/SrvPick.v — a worker picking a connection up from its queue (env op Pick) is invisible to the accept side:
   it moves the oldest queued connection of one open worker generation to the end of its picked list and changes nothing else —
   no event, no counter, no flag, no waker-queue entry, no listener.  The concatenation picked ++ queue (the connections the
   worker has in progress, in dispatch order) is the same before and after.
   This is what the presentation of back-pressure episodes in the end-to-end stream relies on (DESIGN §12.5). *)
From AN Require Import Model.Srv.
From Coq Require Import List ZArith.
Import ListNotations.

(* what the accept side and the trace can see of a worker generation *)
Definition wview (w : worker) : N * bool * Z * list conn := (w_idx w, w_open w, w_cnt w, w_picked w ++ w_queue w).

Lemma replace_nth_map {A B} (f : A -> B) : forall l g x y,
  nth_error l g = Some y -> f x = f y -> map f (replace_nth g x l) = map f l.
Proof.
  induction l as [|h t IH]; intros g x y H E; destruct g; cbn in *; try discriminate.
  - inversion H; subst. rewrite E. reflexivity.
  - f_equal. eapply IH; eauto.
Qed.

Theorem pick_only_moves : forall (L : Z) st g,
  let st' := env_step L st (Pick g) in
  map wview (ws st') = map wview (ws st) /\
  trace st' = trace st /\ handles st' = handles st /\ next st' = next st /\ av st' = av st /\ paused st' = paused st /\
  ptimeout st' = ptimeout st /\ lsts st' = lsts st /\ wq st' = wq st /\ wpend st' = wpend st /\ now st' = now st /\
  stopped st' = stopped st /\ err st' = err st.
Proof.
  intros L st g. cbn [env_step].
  destruct (nth_error (ws st) g) as [w|] eqn:N; [|repeat split].
  destruct (w_open w); [|repeat split].
  destruct (w_queue w) as [|c q] eqn:Q; [repeat split|].
  cbn. repeat split.
  eapply replace_nth_map; [exact N|].
  unfold wview. cbn. rewrite Q, <- app_assoc. reflexivity.
Qed.
