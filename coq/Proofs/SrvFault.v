(* Proofs/SrvFault.v — the accept loop with worker faults (C08): a structural invariant that holds for ALL
   scripts (Kill, Respawn, late notices, any order), strong enough to show that the accept thread never
   panics (no index out of bounds, no Availability::offset panic, no `% 0`) and never spins (accept_one and
   handle_waker terminate within the model's fuel). *)
From Coq Require Import List Arith ZArith NArith Bool Lia.
From AN Require Import Model.Srv Proofs.AvailFacts Proofs.ListFacts Proofs.SrvInv.
Import ListNotations.

(* ---------- swap_remove ---------- *)
Lemma removelast_length {A} (l : list A) : length (removelast l) = length l - 1.
Proof. induction l as [|x [|y t] IH]; cbn in *; lia. Qed.

Lemma swap_remove_length {A} n (l : list A) : n < length l -> length (swap_remove n l) = length l - 1.
Proof.
  intros Hn. unfold swap_remove. destruct (rev l) as [|x r] eqn:E.
  - apply (f_equal (@length A)) in E. rewrite rev_length in E. cbn in E. lia.
  - destruct (Nat.eqb n (length (removelast l))); [|rewrite length_replace_nth]; apply removelast_length.
Qed.

Lemma in_removelast {A} (x : A) l : In x (removelast l) -> In x l.
Proof. induction l as [|y [|z t] IH]; cbn in *; intuition. Qed.

Lemma in_replace_nth {A} n (y x : A) l : In x (replace_nth n y l) -> x = y \/ In x l.
Proof.
  revert n; induction l as [|h t IH]; intros [|n]; cbn; intuition.
  destruct (IH n H0); intuition.
Qed.

Lemma last_in_rev {A} (l : list A) x r : rev l = x :: r -> In x l.
Proof. intros E. apply in_rev. rewrite E. now left. Qed.

Lemma swap_remove_in {A} n (x : A) l : In x (swap_remove n l) -> In x l.
Proof.
  unfold swap_remove. destruct (rev l) as [|y r] eqn:E; [intros []|].
  destruct (Nat.eqb n (length (removelast l))); intros H.
  - now apply in_removelast.
  - apply in_replace_nth in H as [->|H]; [eapply last_in_rev; eassumption|now apply in_removelast].
Qed.

(* every element other than the removed one survives *)
Lemma swap_remove_keeps {A} n (x y : A) l :
  nth_error l n = Some y -> In x l -> x <> y -> In x (swap_remove n l).
Proof.
  intros Hn Hin Hne. unfold swap_remove.
  destruct (rev l) as [|z r] eqn:E.
  { apply (f_equal (@rev A)) in E. rewrite rev_involutive in E. subst. destruct Hin. }
  assert (Hl : l = removelast l ++ [z]).
  { apply (f_equal (@rev A)) in E. rewrite rev_involutive in E. cbn in E. rewrite E.
    rewrite removelast_last. reflexivity. }
  set (l' := removelast l) in *.
  destruct (Nat.eqb_spec n (length l')) as [Heq|Hneq].
  - (* the last element is the removed one *)
    rewrite Hl in Hin, Hn. apply in_app_or in Hin as [Hin|[<-|[]]]; [exact Hin|].
    rewrite nth_error_app2 in Hn by lia. replace (n - length l') with 0 in Hn by lia. cbn in Hn.
    exfalso. apply Hne. now injection Hn.
  - rewrite Hl in Hin. apply in_app_or in Hin as [Hin|[<-|[]]].
    + (* x in l': it stays unless it sits at position n, but position n holds y *)
      apply In_nth_error in Hin as [k Hk].
      destruct (Nat.eq_dec k n) as [->|Hkn].
      * assert (Hlt : n < length l') by (apply nth_error_Some; rewrite Hk; discriminate).
        rewrite Hl in Hn. rewrite nth_error_app1 in Hn by exact Hlt. congruence.
      * apply (nth_error_In _ k). rewrite nth_error_replace_nth_other by (intros E0; apply Hkn; now symmetry). exact Hk.
    + (* x is the last element z: it is moved to position n *)
      assert (Hlt : n < length l').
      { assert (H : n < length l) by (apply nth_error_Some; rewrite Hn; discriminate).
        rewrite Hl, app_length in H. cbn in H. lia. }
      apply (nth_error_In _ n). apply nth_error_replace_nth_same. exact Hlt.
Qed.

(* ---------- scripts with faults ---------- *)
Definition wf_eop (o : eop) : bool := match o with Respawn i => N.ltb i 512 | _ => true end.
Definition wf_ys (ys : ysched) : bool := forallb (forallb wf_eop) ys.
Definition wf_op (o : op) : bool :=
  match o with
  | E e => wf_eop e
  | AcceptTok _ ys | HandleWaker ys | Turn ys => wf_ys ys
  | _ => true
  end.

Section Fault.
Variable L : Z.

(* workers are only ever added (Respawn) or updated in place keeping their index *)
Definition WsExt (a b : list worker) : Prop :=
  length a <= length b /\
  forall g w, nth_error a g = Some w -> exists w', nth_error b g = Some w' /\ w_idx w' = w_idx w.

Lemma WsExt_refl a : WsExt a a.
Proof. split; [lia|]. eauto. Qed.

Lemma WsExt_trans a b c : WsExt a b -> WsExt b c -> WsExt a c.
Proof.
  intros [A1 A2] [B1 B2]. split; [lia|]. intros g w Hg.
  destruct (A2 _ _ Hg) as (w' & Hg' & Hi'). destruct (B2 _ _ Hg') as (w'' & Hg'' & Hi''). exists w''. split; congruence.
Qed.

Lemma WsExt_replace a g w w' : nth_error a g = Some w -> w_idx w' = w_idx w -> WsExt a (replace_nth g w' a).
Proof.
  intros Hg Hi. split; [now rewrite length_replace_nth|]. intros g0 w0 H0.
  rewrite nth_error_replace_nth. destruct (Nat.eqb_spec g g0) as [<-|Hne]; [|eauto].
  assert (Hlt : g < length a) by (apply nth_error_Some; rewrite Hg; discriminate).
  apply Nat.ltb_lt in Hlt. rewrite Hlt. exists w'. split; congruence.
Qed.

Lemma WsExt_app a w : WsExt a (a ++ [w]).
Proof.
  split; [rewrite app_length; lia|]. intros g w0 H0. exists w0. split; [|reflexivity].
  rewrite nth_error_app1; [exact H0|]. apply nth_error_Some. rewrite H0. discriminate.
Qed.

Definition SInv (nl : nat) (st : state) : Prop :=
  err st = None /\ wf (av st) /\
  (forall g w, nth_error (ws st) g = Some w -> (w_idx w < 512)%N) /\
  (forall g, In g (handles st) -> g < length (ws st)) /\
  (next st < length (handles st) \/ (handles st = [] /\ next st = 0)) /\
  (forall i, (i < 512)%N -> getb (av st) i = true ->
     exists g w, In g (handles st) /\ nth_error (ws st) g = Some w /\ w_idx w = i) /\
  (forall g, In (IWorker g) (wq st) -> g < length (ws st)) /\
  length (lsts st) = nl.

(* the accept-thread-private part of the state is untouched by the environment *)
Lemma env_step_private st o :
  handles (env_step L st o) = handles st /\ next (env_step L st o) = next st /\
  av (env_step L st o) = av st /\ err (env_step L st o) = err st /\
  length (lsts (env_step L st o)) = length (lsts st) /\ paused (env_step L st o) = paused st /\
  stopped (env_step L st o) = stopped st.
Proof.
  assert (G : forall l s, handles (fold_left (fun s c => emit s (EvLost (c_id c))) l s) = handles s /\
                          next (fold_left (fun s c => emit s (EvLost (c_id c))) l s) = next s /\
                          av (fold_left (fun s c => emit s (EvLost (c_id c))) l s) = av s /\
                          err (fold_left (fun s c => emit s (EvLost (c_id c))) l s) = err s /\
                          length (lsts (fold_left (fun s c => emit s (EvLost (c_id c))) l s)) = length (lsts s) /\
                          paused (fold_left (fun s c => emit s (EvLost (c_id c))) l s) = paused s /\
                          stopped (fold_left (fun s c => emit s (EvLost (c_id c))) l s) = stopped s).
  { induction l as [|x l IHl]; intros s; cbn [fold_left]; [repeat split|]. apply (IHl (emit s _)). }
  destruct o as [tok c|g|g c|g|g|c|idx|tok k]; cbn [env_step].
  - destruct (nth_error (lsts st) tok); [|repeat split]. destruct (l_uds l && negb (l_linked l)); cbn; repeat split.
    apply length_replace_nth.
  - destruct (nth_error (ws st) g) as [w|]; [|repeat split]. destruct (w_open w); [|repeat split].
    destruct (w_queue w); repeat split.
  - destruct (nth_error (ws st) g) as [w|]; [|repeat split].
    destruct (remove_conn c (w_picked w)) as [[? ?]|]; [|repeat split].
    unfold guard_drop. destruct (Z.eqb _ _); repeat split.
  - destruct (nth_error (ws st) g) as [w|]; [|repeat split]. destruct (w_open w); [|repeat split].
    destruct (w_queue w); [repeat split|]. unfold guard_drop. destruct (Z.eqb _ _); repeat split.
  - destruct (nth_error (ws st) g) as [w|]; [|repeat split]. destruct (w_open w); [|repeat split].
    destruct (G (w_queue w) (emit (upd_worker st g (set_w_open (set_w_queue w []) false)) (EvKilled g))) as (G1 & G2 & G3 & G4 & G5 & G6 & G7).
    rewrite G1, G2, G3, G4, G5, G6, G7. repeat split.
  - repeat split.
  - repeat split.
  - destruct (nth_error (lsts st) tok); cbn; repeat split. apply length_replace_nth.
Qed.

Lemma fold_lost_ws l : forall s, ws (fold_left (fun s c => emit s (EvLost (c_id c))) l s) = ws s
                              /\ wq (fold_left (fun s c => emit s (EvLost (c_id c))) l s) = wq s.
Proof. induction l as [|x l IHl]; intros s; cbn [fold_left]; [split; reflexivity|]. apply (IHl (emit s _)). Qed.

Lemma env_step_ws st o : wf_eop o = true ->
  (forall g w, nth_error (ws st) g = Some w -> (w_idx w < 512)%N) ->
  WsExt (ws st) (ws (env_step L st o)) /\
  (forall g w, nth_error (ws (env_step L st o)) g = Some w -> (w_idx w < 512)%N) /\
  (forall g, In (IWorker g) (wq (env_step L st o)) -> In (IWorker g) (wq st) \/ g < length (ws (env_step L st o))).
Proof.
  intros Hwf Hidx.
  assert (Hrep : forall g w w', nth_error (ws st) g = Some w -> w_idx w' = w_idx w ->
            WsExt (ws st) (replace_nth g w' (ws st)) /\
            (forall g0 w0, nth_error (replace_nth g w' (ws st)) g0 = Some w0 -> (w_idx w0 < 512)%N)).
  { intros g w w' Hg Hi. split; [eapply WsExt_replace; eassumption|].
    intros g0 w0 H0. rewrite nth_error_replace_nth in H0. destruct (Nat.eqb g g0).
    - destruct (Nat.ltb g (length (ws st))); [|discriminate]. injection H0 as <-. rewrite Hi. eapply Hidx; eassumption.
    - eapply Hidx; eassumption. }
  assert (Hsame : WsExt (ws st) (ws st) /\ (forall g w, nth_error (ws st) g = Some w -> (w_idx w < 512)%N))
    by (split; [apply WsExt_refl|exact Hidx]).
  destruct o as [tok c|g|g c|g|g|c|idx|tok k]; cbn [env_step].
  - destruct (nth_error (lsts st) tok); [|split; [apply Hsame|split; [apply Hsame|auto]]].
    destruct (l_uds l && negb (l_linked l)); cbn; (split; [apply Hsame|split; [apply Hsame|auto]]).
  - destruct (nth_error (ws st) g) as [w|] eqn:Eg; [|split; [apply Hsame|split; [apply Hsame|auto]]].
    destruct (w_open w); [|split; [apply Hsame|split; [apply Hsame|auto]]].
    destruct (w_queue w); [split; [apply Hsame|split; [apply Hsame|auto]]|].
    cbn. destruct (Hrep g w (set_w_picked (set_w_queue w l) (w_picked w ++ [c])) Eg eq_refl). auto.
  - destruct (nth_error (ws st) g) as [w|] eqn:Eg; [|split; [apply Hsame|split; [apply Hsame|auto]]].
    destruct (remove_conn c (w_picked w)) as [[x p]|]; [|split; [apply Hsame|split; [apply Hsame|auto]]].
    destruct (Hrep g w (set_w_cnt (set_w_picked w p) (w_cnt (set_w_picked w p) - 1)) Eg eq_refl) as [R1 R2].
    unfold guard_drop. destruct (Z.eqb _ _); cbn; (split; [exact R1|split; [exact R2|]]).
    + intros g0 Hin. apply in_app_or in Hin as [Hin|[Hin|[]]]; [now left|discriminate].
    + auto.
  - destruct (nth_error (ws st) g) as [w|] eqn:Eg; [|split; [apply Hsame|split; [apply Hsame|auto]]].
    destruct (w_open w); [|split; [apply Hsame|split; [apply Hsame|auto]]].
    destruct (w_queue w) as [|c q]; [split; [apply Hsame|split; [apply Hsame|auto]]|].
    destruct (Hrep g w (set_w_cnt (set_w_queue w q) (w_cnt (set_w_queue w q) - 1)) Eg eq_refl) as [R1 R2].
    unfold guard_drop. destruct (Z.eqb _ _); cbn; (split; [exact R1|split; [exact R2|]]).
    + intros g0 Hin. apply in_app_or in Hin as [Hin|[Hin|[]]]; [now left|discriminate].
    + auto.
  - destruct (nth_error (ws st) g) as [w|] eqn:Eg; [|split; [apply Hsame|split; [apply Hsame|auto]]].
    destruct (w_open w); [|split; [apply Hsame|split; [apply Hsame|auto]]].
    destruct (fold_lost_ws (w_queue w) (emit (upd_worker st g (set_w_open (set_w_queue w []) false)) (EvKilled g))) as [F1 F2].
    rewrite F1, F2. cbn.
    destruct (Hrep g w (set_w_open (set_w_queue w []) false) Eg eq_refl) as [R1 R2]. auto.
  - cbn. split; [apply Hsame|split; [apply Hsame|]].
    intros g0 Hin. apply in_app_or in Hin as [Hin|[Hin|[]]]; [now left|destruct c; discriminate].
  - cbn [wf_eop] in Hwf. apply N.ltb_lt in Hwf. cbn.
    split; [apply WsExt_app|]. split.
    + intros g0 w0 H0. destruct (Nat.lt_ge_cases g0 (length (ws st))) as [Hlt|Hge].
      * rewrite nth_error_app1 in H0 by exact Hlt. eapply Hidx; eassumption.
      * rewrite nth_error_app2 in H0 by exact Hge. destruct (g0 - length (ws st)) as [|k]; cbn in H0.
        -- injection H0 as <-. exact Hwf.
        -- destruct k; discriminate.
    + intros g0 Hin. apply in_app_or in Hin as [Hin|[Hin|[]]]; [now left|].
      injection Hin as <-. right. rewrite app_length. cbn. lia.
  - destruct (nth_error (lsts st) tok); cbn; (split; [apply Hsame|split; [apply Hsame|auto]]).
Qed.

Lemma SInv_ext nl st st' :
  SInv nl st -> handles st' = handles st -> next st' = next st -> av st' = av st -> err st' = err st ->
  length (lsts st') = length (lsts st) ->
  WsExt (ws st) (ws st') -> (forall g w, nth_error (ws st') g = Some w -> (w_idx w < 512)%N) ->
  (forall g, In (IWorker g) (wq st') -> In (IWorker g) (wq st) \/ g < length (ws st')) ->
  SInv nl st'.
Proof.
  intros (He & Hwf & Hidx & Hh & Hnx & Hb & Hq & Hl) Eh En Ea Ee El [X1 X2] Hidx' Hq'.
  unfold SInv. rewrite Eh, En, Ea, Ee, El.
  split; [exact He|]. split; [exact Hwf|]. split; [exact Hidx'|].
  split; [intros g Hg; specialize (Hh g Hg); lia|]. split; [exact Hnx|].
  split.
  { intros i Hi Hbi. destruct (Hb i Hi Hbi) as (g & w & Hin & Hg & Hw).
    destruct (X2 _ _ Hg) as (w' & Hg' & Hi'). exists g, w'. split; [exact Hin|]. split; [exact Hg'|congruence]. }
  split; [|exact Hl].
  intros g Hin. destruct (Hq' g Hin) as [H|H]; [specialize (Hq g H); lia|exact H].
Qed.

Lemma env_step_sinv nl st o : wf_eop o = true -> SInv nl st ->
  SInv nl (env_step L st o) /\ WsExt (ws st) (ws (env_step L st o)).
Proof.
  intros Hwf HS. pose proof HS as (He & Hwfa & Hidx & Hh & Hnx & Hb & Hq & Hl).
  destruct (env_step_private st o) as (P1 & P2 & P3 & P4 & P5 & _).
  destruct (env_step_ws st o Hwf Hidx) as (W1 & W2 & W3).
  split; [|exact W1]. eapply SInv_ext; eassumption.
Qed.

Lemma env_steps_sinv nl os : forall st, forallb wf_eop os = true -> SInv nl st ->
  SInv nl (env_steps L st os) /\ WsExt (ws st) (ws (env_steps L st os)) /\
  handles (env_steps L st os) = handles st /\ next (env_steps L st os) = next st /\ av (env_steps L st os) = av st.
Proof.
  induction os as [|o os IH]; intros st Hwf HS; cbn [env_steps fold_left].
  - split; [exact HS|]. split; [apply WsExt_refl|]. repeat split.
  - cbn [forallb] in Hwf. apply andb_true_iff in Hwf as [Ho Hos].
    destruct (env_step_sinv nl st o Ho HS) as [HS1 X1].
    destruct (env_step_private st o) as (P1 & P2 & P3 & _).
    destruct (IH _ Hos HS1) as (HS2 & X2 & Q1 & Q2 & Q3). unfold env_steps in *.
    split; [exact HS2|]. split; [eapply WsExt_trans; eassumption|]. repeat split; congruence.
Qed.

(* ---------- the measure every accept-thread function respects ---------- *)
Definition MP (st : state) (ys : ysched) (st' : state) (ys' : ysched) : Prop :=
  length (wq st') + ysize ys' <= length (wq st) + ysize ys /\
  forall tok, lmeas (lsts st') tok + ysize ys' <= lmeas (lsts st) tok + ysize ys.

Lemma MP_refl st ys : MP st ys st ys.
Proof. split; [lia|]. intros tok. lia. Qed.

Lemma MP_trans s0 y0 s1 y1 s2 y2 : MP s0 y0 s1 y1 -> MP s1 y1 s2 y2 -> MP s0 y0 s2 y2.
Proof. intros [A1 A2] [B1 B2]. split; [lia|]. intros tok. specialize (A2 tok). specialize (B2 tok). lia. Qed.

Lemma MP_same st ys st' : wq st' = wq st -> lsts st' = lsts st -> MP st ys st' ys.
Proof. intros Hq Hl. unfold MP. rewrite Hq, Hl. split; [lia|]. intros tok. lia. Qed.

Lemma wf_ys_hd ys : wf_ys ys = true -> forallb wf_eop (hd [] ys) = true /\ wf_ys (tl ys) = true.
Proof. destruct ys as [|y ys]; cbn; [auto|]. intros H. now apply andb_true_iff in H. Qed.

Lemma SInv_handles_ne_next nl st : SInv nl st -> handles st <> [] -> next st < length (handles st).
Proof. intros (_ & _ & _ & _ & [H|[H _]] & _) Hne; [exact H|contradiction]. Qed.

(* clearing a flag keeps the structural invariant *)
Lemma SInv_clear nl st i : (i < 512)%N -> SInv nl st -> SInv nl (set_av st (setb (av st) i false)).
Proof.
  intros Hi (He & Hwf & Hidx & Hh & Hnx & Hb & Hq & Hl). unfold SInv. cbn.
  split; [exact He|]. split; [now apply wf_setb|]. split; [exact Hidx|]. split; [exact Hh|]. split; [exact Hnx|].
  split; [|split; assumption].
  intros j Hj Hbj. rewrite getb_setb in Hbj by assumption. destruct (N.eqb i j); [discriminate|]. now apply Hb.
Qed.

Lemma SInv_set_next nl st n : SInv nl st -> n < length (handles st) -> SInv nl (set_next_ st n).
Proof.
  intros (He & Hwf & Hidx & Hh & Hnx & Hb & Hq & Hl) Hn. unfold SInv. cbn.
  repeat (split; [assumption|]). split; [now left|]. repeat (split; [assumption|]). assumption.
Qed.

Lemma SInv_emit nl st e : SInv nl st -> SInv nl (emit st e).
Proof. intros H. exact H. Qed.

(* Accept::send_connection, any worker state *)
Lemma send_connection_sinv nl st c ys :
  SInv nl st -> wf_ys ys = true -> handles st <> [] ->
  exists st' ys' r, send_connection L st c ys = (st', ys', r) /\ SInv nl st' /\ wf_ys ys' = true /\ MP st ys st' ys' /\
    match r with
    | SOk => True
    | SRetry _ => length (handles st') < length (handles st) /\ handles st' <> []
    end.
Proof.
  intros HS Hys Hne. pose proof HS as (He & Hwf & Hidx & Hh & Hnx & Hb & Hq & Hl).
  pose proof (SInv_handles_ne_next _ _ HS Hne) as Hlt.
  destruct (wf_ys_hd _ Hys) as [Hhd Htl].
  unfold send_connection.
  destruct (nth_error_lt_Some _ _ Hlt) as [g Hg]. rewrite Hg.
  assert (Hgin : In g (handles st)) by (eapply nth_error_In; eassumption).
  pose proof (Hh g Hgin) as Hgl. destruct (nth_error_lt_Some _ _ Hgl) as [w Hw]. rewrite Hw.
  pose proof (Hidx _ _ Hw) as Hw512.
  destruct (w_open w).
  - (* the send succeeds *)
    set (st1 := emit (upd_worker st g (set_w_queue w (w_queue w ++ [c]))) _).
    assert (HS1 : SInv nl st1).
    { apply (SInv_ext nl st); try reflexivity; try exact HS.
      - unfold st1. cbn. eapply WsExt_replace; [exact Hw|reflexivity].
      - unfold st1. cbn. intros g0 w0 H0. rewrite nth_error_replace_nth in H0. destruct (Nat.eqb g g0).
        + destruct (Nat.ltb g (length (ws st))); [|discriminate]. injection H0 as <-. exact Hw512.
        + eapply Hidx; eassumption.
      - intros g0 Hin. now left. }
    destruct (env_steps_sinv nl (hd [] ys) st1 Hhd HS1) as (HS2 & X2 & Q1 & Q2 & Q3).
    set (st2 := env_steps L st1 (hd [] ys)) in *.
    assert (Hw1 : nth_error (ws st1) g = Some (set_w_queue w (w_queue w ++ [c]))).
    { unfold st1. cbn. now apply nth_error_replace_nth_same. }
    destruct (proj2 X2 _ _ Hw1) as (w2 & Hw2 & Hi2). cbn in Hi2. rewrite Hw2.
    set (st3 := upd_worker st2 g (set_w_cnt w2 (w_cnt w2 + 1))).
    assert (HS3 : SInv nl st3).
    { pose proof HS2 as (_ & _ & Hidx2 & _).
      apply (SInv_ext nl st2); try reflexivity; try exact HS2.
      - unfold st3. cbn. eapply WsExt_replace; [exact Hw2|reflexivity].
      - unfold st3. cbn. intros g0 w0 H0. rewrite nth_error_replace_nth in H0. destruct (Nat.eqb g g0).
        + destruct (Nat.ltb g (length (ws st2))); [|discriminate]. injection H0 as <-. cbn. eapply Hidx2; eassumption.
        + eapply Hidx2; eassumption.
      - intros g0 Hin. now left. }
    set (st4 := if (w_cnt w2 =? L)%Z then av_set st3 (w_idx w) false else st3).
    assert (HS4 : SInv nl st4 /\ handles st4 = handles st /\ next st4 = next st /\ wq st4 = wq st2 /\ lsts st4 = lsts st2).
    { unfold st4. destruct (w_cnt w2 =? L)%Z.
      - rewrite av_set_ok by exact Hw512. split; [apply SInv_clear; [exact Hw512|exact HS3]|].
        cbn. rewrite Q1, Q2. repeat split.
      - split; [exact HS3|]. cbn. rewrite Q1, Q2. repeat split. }
    destruct HS4 as (HS4 & E1 & E2 & E3 & E4).
    assert (Hlen4 : 0 < length (handles st4)) by (rewrite E1; lia).
    rewrite (do_set_next_ok _ Hlen4).
    exists (set_next_ st4 ((next st4 + 1) mod length (handles st4))), (tl ys), SOk.
    split; [reflexivity|]. split; [apply SInv_set_next; [exact HS4|apply Nat.mod_upper_bound; lia]|].
    split; [exact Htl|]. split; [|exact I].
    unfold MP. cbn [wq lsts set_next_]. rewrite E3, E4. rewrite (ysize_hd_tl ys).
    pose proof (env_steps_wq_len L (hd [] ys) st1) as Hwq. fold st2 in Hwq.
    assert (Hq1 : wq st1 = wq st) by reflexivity. assert (Hl1 : lsts st1 = lsts st) by reflexivity.
    split; [rewrite Hq1 in Hwq; lia|].
    intros tok. pose proof (env_steps_lmeas L (hd [] ys) st1 tok) as Hlm. fold st2 in Hlm.
    rewrite Hl1 in Hlm. lia.
  - (* the worker is gone: remove_next *)
    set (hs' := swap_remove (next st) (handles st)).
    set (st3 := set_av (emit (set_handles st hs') (EvFaulted (w_idx w))) (setb (av st) (w_idx w) false)).
    assert (Hav : av_set (emit (set_handles st hs') (EvFaulted (w_idx w))) (w_idx w) false = st3).
    { rewrite av_set_ok by exact Hw512. reflexivity. }
    rewrite Hav.
    assert (Hlen' : length hs' = length (handles st) - 1) by (apply swap_remove_length; exact Hlt).
    assert (HS3 : forall n, (n < length hs' \/ (hs' = [] /\ n = 0)) -> SInv nl (set_next_ st3 n)).
    { intros n Hn. unfold SInv, st3. cbn.
      split; [exact He|]. split; [now apply wf_setb|]. split; [exact Hidx|].
      split; [intros g0 Hin; apply Hh; eapply swap_remove_in; exact Hin|]. split; [exact Hn|].
      split; [|split; assumption].
      intros i Hi Hbi. rewrite getb_setb in Hbi by assumption.
      destruct (N.eqb_spec (w_idx w) i) as [_|Hnei]; [discriminate|].
      destruct (Hb i Hi Hbi) as (g' & w' & Hin' & Hg' & Hi').
      exists g', w'. split; [|split; assumption].
      eapply swap_remove_keeps; [exact Hg|exact Hin'|]. intros ->. rewrite Hw in Hg'. injection Hg' as <-. congruence. }
    change (handles st3) with hs'. change (next st3) with (next st).
    destruct hs' as [|h0 hr] eqn:Ehs.
    + exists (emit st3 (EvDropNoWorker (c_id c))), ys, SOk. split; [reflexivity|].
      split.
      { apply SInv_emit. assert (Hn0 : next st = 0) by (cbn in Hlen'; lia).
        exact (HS3 (next st) (or_intror (conj eq_refl Hn0))). }
      split; [exact Hys|]. split; [apply MP_same; reflexivity|exact I].
    + destruct (Nat.leb_spec (length (h0 :: hr)) (next st)) as [Hle|Hgt].
      * exists (set_next_ st3 0), ys, (SRetry c). split; [reflexivity|].
        split; [apply HS3; left; cbn; lia|]. split; [exact Hys|]. split; [apply MP_same; reflexivity|].
        unfold st3. cbn [handles set_next_ set_av emit set_handles]. split; [cbn [length] in *; lia|discriminate].
      * exists st3, ys, (SRetry c). split; [reflexivity|].
        split.
        { exact (HS3 (next st) (or_introl Hgt)). }
        split; [exact Hys|]. split; [apply MP_same; reflexivity|].
        unfold st3. cbn [handles set_next_ set_av emit set_handles]. split; [cbn [length] in *; lia|discriminate].
Qed.

(* postcondition shared by the accept-thread functions *)
Definition SPost (nl : nat) (st : state) (ys : ysched) (st' : state) (ys' : ysched) : Prop :=
  SInv nl st' /\ wf_ys ys' = true /\ MP st ys st' ys'.

Lemma SPost_refl nl st ys : SInv nl st -> wf_ys ys = true -> SPost nl st ys st ys.
Proof. intros. split; [assumption|]. split; [assumption|apply MP_refl]. Qed.

Lemma SPost_trans nl s0 y0 s1 y1 s2 y2 : SPost nl s0 y0 s1 y1 -> SPost nl s1 y1 s2 y2 -> SPost nl s0 y0 s2 y2.
Proof. intros (A1 & A2 & A3) (B1 & B2 & B3). split; [exact B1|]. split; [exact B2|eapply MP_trans; eassumption]. Qed.

(* the inner `while let Err(c) = self.send_connection(conn)` *)
Lemma forced_send_sinv nl : forall fuel st c ys,
  SInv nl st -> wf_ys ys = true -> handles st <> [] -> length (handles st) < fuel ->
  exists st' ys', forced_send L fuel st c ys = (st', ys') /\ SPost nl st ys st' ys'.
Proof.
  induction fuel as [|f IH]; intros st c ys HS Hys Hne Hf; [lia|].
  cbn [forced_send]. rewrite (proj1 HS).
  destruct (send_connection_sinv nl st c ys HS Hys Hne) as (st1 & ys1 & r & Hs & HS1 & Hys1 & HM1 & Hr). rewrite Hs.
  destruct r as [|c'].
  - exists st1, ys1. split; [reflexivity|]. split; [exact HS1|]. split; assumption.
  - destruct Hr as [Hlen Hne1].
    destruct (IH st1 c' ys1 HS1 Hys1 Hne1 ltac:(lia)) as (st2 & ys2 & Hs2 & HP2). rewrite Hs2.
    exists st2, ys2. split; [reflexivity|]. eapply SPost_trans; [|exact HP2]. split; [exact HS1|]. split; assumption.
Qed.

(* is the handle at position p flagged available? *)
Definition flag (st : state) (p : nat) : bool :=
  match nth_error (handles st) p with
  | Some g => match nth_error (ws st) g with Some w => getb (av st) (w_idx w) | None => false end
  | None => false
  end.

Lemma exists_flag nl st : SInv nl st -> available (av st) = true ->
  exists p, p < length (handles st) /\ flag st p = true.
Proof.
  intros (He & Hwf & Hidx & Hh & Hnx & Hb & Hq & Hl) Hav.
  destruct (proj1 (available_getb (av st) Hwf) Hav) as (i & Hi & Hbi).
  destruct (Hb i Hi Hbi) as (g & w & Hin & Hg & Hw).
  apply In_nth_error in Hin as [p Hp]. exists p. split; [apply nth_error_Some; rewrite Hp; discriminate|].
  unfold flag. rewrite Hp, Hg, Hw. exact Hbi.
Qed.

Lemma flag_available nl st p : SInv nl st -> flag st p = true -> available (av st) = true.
Proof.
  intros (He & Hwf & Hidx & Hh & Hnx & Hb & Hq & Hl) Hf. unfold flag in Hf.
  destruct (nth_error (handles st) p) as [g|]; [|discriminate].
  destruct (nth_error (ws st) g) as [w|] eqn:Hg; [|discriminate].
  apply available_getb; [exact Hwf|]. exists (w_idx w). split; [eapply Hidx; eassumption|exact Hf].
Qed.

(* Accept::accept_one terminates and keeps the invariant, whatever has happened to the workers *)
Lemma accept_one_sinv nl : forall n fuel st c ys,
  SInv nl st -> wf_ys ys = true -> handles st <> [] -> length (handles st) = n -> S n * S n <= fuel ->
  exists st' ys', accept_one L fuel st c ys = (st', ys') /\ SPost nl st ys st' ys'.
Proof.
  induction n as [n IHn] using lt_wf_ind.
  (* one iteration that passes over an unflagged worker *)
  assert (Hskip : forall st, SInv nl st -> handles st <> [] -> length (handles st) = n -> flag st (next st) = false ->
            forall g w, nth_error (handles st) (next st) = Some g -> nth_error (ws st) g = Some w ->
            let ev := EvSkip g (length (w_queue w) + length (w_picked w)) (pending_notice (w_idx w) (wq st)) in
            let st1 := do_set_next (av_set (emit st ev) (w_idx w) false) in
            SInv nl st1 /\ handles st1 = handles st /\ wq st1 = wq st /\ lsts st1 = lsts st /\
            next st1 = (next st + 1) mod n /\ (forall q, flag st1 q = flag st q)).
  { intros st HS Hne Hlen Hfl g w Hg Hw ev st1.
    pose proof HS as (He & Hwf & Hidx & Hh & Hnx & Hb & Hq & Hl).
    pose proof (Hidx _ _ Hw) as Hw512.
    assert (Hbit : getb (av st) (w_idx w) = false) by (unfold flag in Hfl; now rewrite Hg, Hw in Hfl).
    unfold st1. rewrite av_set_ok by exact Hw512.
    assert (Hlen0 : 0 < length (handles (set_av (emit st ev) (setb (av (emit st ev)) (w_idx w) false)))).
    { cbn. destruct (handles st); [contradiction|cbn; lia]. }
    rewrite (do_set_next_ok _ Hlen0). cbn [handles next set_av emit].
    pose proof (SInv_handles_ne_next _ _ HS Hne) as Hlt.
    split.
    { apply SInv_set_next; [apply (SInv_clear nl (emit st ev)); [exact Hw512|exact HS]|].
      cbn. apply Nat.mod_upper_bound. lia. }
    cbn. rewrite Hlen. repeat split.
    intros q. unfold flag. cbn.
    destruct (nth_error (handles st) q) as [g'|]; [|reflexivity].
    destruct (nth_error (ws st) g') as [w'|] eqn:Hw'; [|reflexivity].
    rewrite getb_setb by (try exact Hw512; eapply Hidx; eassumption).
    destruct (N.eqb_spec (w_idx w) (w_idx w')) as [E|_]; [now rewrite <- E, Hbit|reflexivity]. }
  (* a flagged handle exists at cyclic distance d *)
  assert (Hinner : forall d fuel st c ys p,
            SInv nl st -> wf_ys ys = true -> handles st <> [] -> length (handles st) = n ->
            p < n -> flag st p = true -> d = cdist n (next st) p -> d + 1 + n * n <= fuel ->
            exists st' ys', accept_one L fuel st c ys = (st', ys') /\ SPost nl st ys st' ys').
  { induction d as [d IHd] using lt_wf_ind. intros fuel st c ys p HS Hys Hne Hlen Hp Hfp Hd Hfuel.
    pose proof HS as (He & Hwf & Hidx & Hh & Hnx & Hb & Hq & Hl).
    pose proof (SInv_handles_ne_next _ _ HS Hne) as Hlt.
    destruct fuel as [|f]; [lia|]. cbn [accept_one]. rewrite He.
    destruct (nth_error_lt_Some _ _ Hlt) as [g Hg]. rewrite Hg.
    assert (Hgin : In g (handles st)) by (eapply nth_error_In; eassumption).
    destruct (nth_error_lt_Some _ _ (Hh g Hgin)) as [w Hw]. rewrite Hw.
    pose proof (Hidx _ _ Hw) as Hw512. rewrite av_get_ok by exact Hw512.
    destruct (getb (av st) (w_idx w)) eqn:Hbit.
    - (* try to send *)
      destruct (send_connection_sinv nl st c ys HS Hys Hne) as (st1 & ys1 & r & Hs & HS1 & Hys1 & HM1 & Hr). rewrite Hs.
      destruct r as [|c'].
      + exists st1, ys1. split; [reflexivity|]. split; [exact HS1|]. split; assumption.
      + destruct Hr as [Hlen1 Hne1].
        destruct (IHn (length (handles st1)) ltac:(lia) f st1 c' ys1 HS1 Hys1 Hne1 eq_refl) as (st2 & ys2 & Hs2 & HP2).
        { assert (S (length (handles st1)) <= n) by lia.
          assert (S (length (handles st1)) * S (length (handles st1)) <= n * n) by (apply Nat.mul_le_mono; lia). lia. }
        rewrite Hs2. exists st2, ys2. split; [reflexivity|]. eapply SPost_trans; [|exact HP2].
        split; [exact HS1|]. split; assumption.
    - (* pass over *)
      assert (Hfl : flag st (next st) = false) by (unfold flag; now rewrite Hg, Hw).
      destruct (Hskip st HS Hne Hlen Hfl g w Hg Hw) as (HS1 & E1 & E2 & E3 & E4 & E5).
      set (st1 := do_set_next _) in *.
      assert (Hpn : p <> next st) by (intros ->; congruence).
      assert (Hav1 : available (av st1) = true) by (eapply flag_available; [exact HS1|rewrite E5; exact Hfp]).
      rewrite Hav1.
      assert (Hd1 : cdist n (next st1) p < d).
      { rewrite E4. rewrite Hlen in Hlt. rewrite succ_mod by exact Hlt. subst d. unfold cdist.
        destruct (Nat.eqb_spec (next st + 1) n);
          destruct (Nat.leb_spec (next st) p); destruct (Nat.leb_spec 0 p);
          try destruct (Nat.leb_spec (next st + 1) p); lia. }
      destruct (IHd _ Hd1 f st1 c ys p HS1 Hys ltac:(rewrite E1; exact Hne) ltac:(rewrite E1; exact Hlen) Hp
                  ltac:(rewrite E5; exact Hfp) eq_refl ltac:(lia)) as (st2 & ys2 & Hs2 & HP2).
      rewrite Hs2. exists st2, ys2. split; [reflexivity|]. eapply SPost_trans; [|exact HP2].
      split; [exact HS1|]. split; [exact Hys|apply MP_same; assumption]. }
  intros fuel st c ys HS Hys Hne Hlen Hfuel.
  pose proof HS as (He & Hwf & Hidx & Hh & Hnx & Hb & Hq & Hl).
  destruct (existsb (flag st) (seq 0 n)) eqn:Hex.
  - apply existsb_exists in Hex as (p & Hin & Hfp). apply in_seq in Hin.
    apply (Hinner (cdist n (next st) p) fuel st c ys p); auto; try lia.
    pose proof (SInv_handles_ne_next _ _ HS Hne) as Hlt. rewrite Hlen in Hlt. unfold cdist.
    destruct (Nat.leb (next st) p); nia.
  - (* nobody is flagged: the connection is forced onto the worker `next` points at *)
    assert (Hnone : forall q, flag st q = false).
    { intros q. destruct (Nat.lt_ge_cases q n) as [Hq'|Hq'].
      - destruct (flag st q) eqn:Hfq; [|reflexivity].
        assert (existsb (flag st) (seq 0 n) = true) by (apply existsb_exists; exists q; split; [apply in_seq; lia|exact Hfq]).
        congruence.
      - unfold flag. rewrite (proj2 (nth_error_None _ _)) by lia. reflexivity. }
    pose proof (SInv_handles_ne_next _ _ HS Hne) as Hlt.
    destruct fuel as [|f]; [lia|]. cbn [accept_one]. rewrite He.
    destruct (nth_error_lt_Some _ _ Hlt) as [g Hg]. rewrite Hg.
    assert (Hgin : In g (handles st)) by (eapply nth_error_In; eassumption).
    destruct (nth_error_lt_Some _ _ (Hh g Hgin)) as [w Hw]. rewrite Hw.
    pose proof (Hidx _ _ Hw) as Hw512. rewrite av_get_ok by exact Hw512.
    pose proof (Hnone (next st)) as Hfl. assert (Hbit : getb (av st) (w_idx w) = false) by (unfold flag in Hfl; now rewrite Hg, Hw in Hfl).
    rewrite Hbit.
    destruct (Hskip st HS Hne Hlen Hfl g w Hg Hw) as (HS1 & E1 & E2 & E3 & E4 & E5).
    set (st1 := do_set_next _) in *.
    assert (Hav1 : available (av st1) = false).
    { destruct (available (av st1)) eqn:Hav; [|reflexivity].
      destruct (exists_flag nl st1 HS1 Hav) as (q & _ & Hfq). rewrite E5, Hnone in Hfq. discriminate. }
    rewrite Hav1.
    destruct (forced_send_sinv nl (S (length (handles st1))) st1 c ys HS1 Hys ltac:(rewrite E1; exact Hne) ltac:(lia))
      as (st2 & ys2 & Hs2 & HP2).
    rewrite Hs2. exists st2, ys2. split; [reflexivity|]. eapply SPost_trans; [|exact HP2].
    split; [exact HS1|]. split; [exact Hys|apply MP_same; assumption].
Qed.

(* ---------- Accept::accept and above ---------- *)
Lemma SInv_upd_lst nl st tok l : SInv nl st -> SInv nl (upd_lst st tok l).
Proof.
  intros (He & Hwf & Hidx & Hh & Hnx & Hb & Hq & Hl). unfold SInv, upd_lst. cbn.
  repeat (split; [assumption|]). now rewrite length_replace_nth.
Qed.

Lemma SInv_set_lsts nl st ls : SInv nl st -> length ls = nl -> SInv nl (set_lsts st ls).
Proof. intros (He & Hwf & Hidx & Hh & Hnx & Hb & Hq & Hl) H. unfold SInv. cbn. repeat (split; [assumption|]). exact H. Qed.

Lemma SInv_set_timeout nl st d : SInv nl st -> SInv nl (set_timeout st d).
Proof. intros H. unfold set_timeout. destruct (ptimeout st); [destruct (N.ltb d n)|]; exact H. Qed.

Lemma accept_loop_sinv nl : forall fuel st tok ys,
  SInv nl st -> wf_ys ys = true -> tok < nl -> lmeas (lsts st) tok + ysize ys < fuel ->
  exists st' ys', accept_loop L fuel st tok ys = (st', ys') /\ SPost nl st ys st' ys'.
Proof.
  induction fuel as [|f IH]; intros st tok ys HS Hys Htok Hfuel; [lia|].
  pose proof HS as (He & Hwf & Hidx & Hh & Hnx & Hb & Hq & Hl).
  cbn [accept_loop]. rewrite He.
  destruct (available (av st)) eqn:Hav; [|exists st, ys; split; [reflexivity|now apply SPost_refl]].
  assert (Hlt : tok < length (lsts st)) by (rewrite Hl; exact Htok).
  destruct (nth_error_lt_Some _ _ Hlt) as [l Hlk]. rewrite Hlk.
  assert (Hm : lmeas (lsts st) tok = length (l_backlog l) + length (l_inject l)) by (unfold lmeas; now rewrite Hlk).
  destruct (l_inject l) as [|k rest] eqn:Hinj.
  - destruct (l_backlog l) as [|c rest] eqn:Hback.
    + exists st, ys. split; [reflexivity|now apply SPost_refl].
    + set (l1 := {| l_uds := l_uds l; l_reg := l_reg l; l_edge := l_edge l; l_to := l_to l; l_backlog := rest;
                    l_inject := []; l_linked := l_linked l |}).
      set (st1 := upd_lst st tok l1).
      assert (HS1 : SInv nl st1) by (apply SInv_upd_lst; exact HS).
      assert (Hne1 : handles st1 <> []).
      { destruct (exists_flag nl st HS Hav) as (p & Hp & _). unfold st1. cbn. destruct (handles st); [cbn in Hp; lia|discriminate]. }
      destruct (accept_one_sinv nl (length (handles st1)) (accept_one_fuel st1) st1 {| c_id := c; c_tok := tok |} ys
                  HS1 Hys Hne1 eq_refl ltac:(unfold accept_one_fuel; lia)) as (st2 & ys2 & Hs2 & HS2 & Hys2 & HM2).
      rewrite Hs2.
      assert (Hm2 : lmeas (lsts st2) tok + ysize ys2 < f).
      { destruct HM2 as [_ M2]. specialize (M2 tok). unfold st1 in M2. cbn [lsts upd_lst set_lsts] in M2.
        rewrite lmeas_replace in M2 by exact Hlt. cbn [l1 l_backlog l_inject length] in M2. cbn [length] in Hm. lia. }
      destruct (IH st2 tok ys2 HS2 Hys2 Htok Hm2) as (st' & ys' & Hs' & HP').
      rewrite Hs'. exists st', ys'. split; [reflexivity|].
      eapply SPost_trans; [|exact HP']. split; [exact HS2|]. split; [exact Hys2|].
      eapply MP_trans; [|exact HM2]. unfold MP, st1. cbn [wq lsts upd_lst set_lsts]. split; [lia|].
      intros t. unfold lmeas. rewrite nth_error_replace_nth.
      destruct (Nat.eqb_spec tok t) as [<-|_]; [|lia].
      apply Nat.ltb_lt in Hlt. rewrite Hlt, Hlk. cbn [l1 l_backlog l_inject]. rewrite Hback, Hinj. cbn [length]. lia.
  - set (l1 := {| l_uds := l_uds l; l_reg := l_reg l; l_edge := l_edge l; l_to := l_to l; l_backlog := l_backlog l;
                  l_inject := rest; l_linked := l_linked l |}).
    assert (HMP1 : forall l2, length (l_backlog l2) + length (l_inject l2) <= length (l_backlog l) + length (l_inject l) ->
                              MP st ys (upd_lst st tok l2) ys).
    { intros l2 Hle. unfold MP. cbn [wq lsts upd_lst set_lsts]. split; [lia|].
      intros t. unfold lmeas. rewrite nth_error_replace_nth.
      destruct (Nat.eqb_spec tok t) as [<-|_]; [|lia].
      pose proof Hlt as Hlt'. apply Nat.ltb_lt in Hlt'. rewrite Hlt', Hlk. lia. }
    destruct k.
    + exists (upd_lst st tok l1), ys. split; [reflexivity|].
      split; [now apply SInv_upd_lst|]. split; [exact Hys|]. apply HMP1. cbn [l1 l_backlog l_inject]. rewrite Hinj. cbn. lia.
    + assert (HS1 : SInv nl (upd_lst st tok l1)) by (apply SInv_upd_lst; exact HS).
      assert (Hm1 : lmeas (lsts (upd_lst st tok l1)) tok + ysize ys < f).
      { cbn [lsts upd_lst set_lsts]. rewrite lmeas_replace by exact Hlt. cbn [l1 l_backlog l_inject]. cbn [length] in Hm. lia. }
      destruct (IH _ tok ys HS1 Hys Htok Hm1) as (st' & ys' & Hs' & HP').
      rewrite Hs'. exists st', ys'. split; [reflexivity|].
      eapply SPost_trans; [|exact HP']. split; [exact HS1|]. split; [exact Hys|].
      apply HMP1. cbn [l1 l_backlog l_inject]. rewrite Hinj. cbn. lia.
    + eexists _, ys. split; [reflexivity|].
      split; [apply SInv_set_timeout, SInv_upd_lst; exact HS|]. split; [exact Hys|].
      destruct (set_timeout_frame (upd_lst st tok (set_l_to (deregister l1) (Some (now st + 500)%N))) 510%N)
        as (F1 & F2 & _).
      eapply MP_trans; [apply HMP1 with (l2 := set_l_to (deregister l1) (Some (now st + 500)%N));
                        cbn; rewrite Hinj; cbn; lia|].
      apply MP_same; assumption.
Qed.

Lemma accept_sinv nl st tok ys :
  SInv nl st -> wf_ys ys = true -> tok < nl ->
  exists st' ys', accept L st tok ys = (st', ys') /\ SPost nl st ys st' ys'.
Proof.
  intros HS Hys Htok. unfold accept.
  destruct (paused st); [exists st, ys; split; [reflexivity|now apply SPost_refl]|].
  apply accept_loop_sinv; auto.
  unfold accept_fuel, lmeas. destruct HS as (_ & _ & _ & _ & _ & _ & _ & Hl).
  destruct (nth_error_lt_Some (lsts st) tok ltac:(lia)) as [l Hlk]. rewrite Hlk. lia.
Qed.

Lemma accept_toks_sinv nl toks : forall st ys,
  SInv nl st -> wf_ys ys = true -> Forall (fun t => t < nl) toks ->
  exists st' ys', accept_toks L st toks ys = (st', ys') /\ SPost nl st ys st' ys'.
Proof.
  induction toks as [|t r IH]; intros st ys HS Hys HF; cbn [accept_toks].
  - exists st, ys. split; [reflexivity|now apply SPost_refl].
  - inversion HF as [|? ? Ht HF']; subst.
    destruct (accept_sinv nl st t ys HS Hys Ht) as (st1 & ys1 & Hs1 & HP1). rewrite Hs1.
    destruct (IH st1 ys1 (proj1 HP1) (proj1 (proj2 HP1)) HF') as (st2 & ys2 & Hs2 & HP2). rewrite Hs2.
    exists st2, ys2. split; [reflexivity|]. eapply SPost_trans; eassumption.
Qed.

Lemma accept_all_sinv nl st ys :
  SInv nl st -> wf_ys ys = true ->
  exists st' ys', accept_all L st ys = (st', ys') /\ SPost nl st ys st' ys'.
Proof.
  intros HS Hys. unfold accept_all. apply accept_toks_sinv; auto.
  destruct HS as (_ & _ & _ & _ & _ & _ & _ & Hl). rewrite Hl.
  apply Forall_forall. intros t Ht. apply in_seq in Ht. lia.
Qed.

(* ---------- Accept::handle_waker ---------- *)
Lemma SInv_pop nl st rest x : SInv nl st -> wq st = x :: rest -> SInv nl (set_wq st rest (wpend st)).
Proof.
  intros (He & Hwf & Hidx & Hh & Hnx & Hb & Hq & Hl) Hx. unfold SInv. cbn.
  repeat (split; [assumption|]). split; [|exact Hl]. intros g Hin. apply Hq. rewrite Hx. now right.
Qed.

Lemma SInv_deregister_all nl st : SInv nl st -> SInv nl (deregister_all st).
Proof. intros HS. unfold deregister_all. apply SInv_set_lsts; [exact HS|]. rewrite map_length. apply HS. Qed.

Lemma handle_waker_sinv nl : forall fuel st ys,
  SInv nl st -> wf_ys ys = true -> length (wq st) + ysize ys < fuel ->
  exists st' ys', handle_waker L fuel st ys = (st', ys') /\ SInv nl st' /\ wf_ys ys' = true.
Proof.
  induction fuel as [|f IH]; intros st ys HS Hys Hfuel; [lia|].
  pose proof HS as (He & Hwf & Hidx & Hh & Hnx & Hb & Hq & Hl).
  cbn [handle_waker]. rewrite He.
  destruct (wq st) as [|i rest] eqn:Hqe; [exists st, ys; auto|].
  set (st0 := set_wq st rest (wpend st)).
  assert (HS0 : SInv nl st0) by (eapply SInv_pop; eassumption).
  assert (Hq0 : wq st0 = rest) by reflexivity.
  destruct i as [idx|g| | |].
  - (* WorkerAvailable(idx): honoured only if a handle owns idx *)
    set (st1 := if existsb _ (handles st0) then av_set st0 idx true else st0).
    assert (HS1 : SInv nl st1 /\ wq st1 = rest).
    { unfold st1. destruct (existsb _ (handles st0)) eqn:Hex; [|auto].
      apply existsb_exists in Hex as (g & Hin & Hg). cbn in Hin, Hg.
      destruct (nth_error (ws st) g) as [w|] eqn:Eg; [|discriminate]. apply N.eqb_eq in Hg.
      assert (H512 : (idx < 512)%N) by (rewrite <- Hg; eapply Hidx; eassumption).
      rewrite av_set_ok by exact H512. split; [|reflexivity].
      unfold SInv. cbn. split; [exact He|]. split; [now apply wf_setb|]. split; [exact Hidx|]. split; [exact Hh|].
      split; [exact Hnx|]. split; [|split; [intros g0 Hin0; apply Hq; now right|exact Hl]].
      intros j Hj Hbj. rewrite getb_setb in Hbj by assumption.
      destruct (N.eqb_spec idx j) as [<-|_]; [exists g, w; auto|now apply Hb]. }
    destruct HS1 as [HS1 Hq1].
    destruct (paused st1).
    + destruct (IH st1 ys HS1 Hys) as (st' & ys' & Hs & R); [rewrite Hq1; cbn in Hfuel; lia|].
      rewrite Hs. exists st', ys'. auto.
    + destruct (accept_all_sinv nl st1 ys HS1 Hys) as (st2 & ys2 & Hs2 & HS2 & Hys2 & [M2 _]). rewrite Hs2.
      destruct (IH st2 ys2 HS2 Hys2) as (st' & ys' & Hs & R); [rewrite Hq1 in M2; cbn in Hfuel; lia|].
      rewrite Hs. exists st', ys'. auto.
  - (* Worker(handle): a replacement joins the rotation *)
    assert (Hgl : g < length (ws st)) by (apply Hq; now left).
    destruct (nth_error_lt_Some _ _ Hgl) as [w Hw]. change (ws st0) with (ws st). rewrite Hw.
    pose proof (Hidx _ _ Hw) as H512.
    rewrite av_set_ok by exact H512.
    set (st1 := set_handles (set_av st0 (setb (av st0) (w_idx w) true)) (handles st0 ++ [g])).
    assert (HS1 : SInv nl st1).
    { unfold SInv, st1. cbn. split; [exact He|]. split; [now apply wf_setb|]. split; [exact Hidx|].
      split; [intros g0 Hin; apply in_app_or in Hin as [Hin|[<-|[]]]; [now apply Hh|exact Hgl]|].
      split; [left; rewrite app_length; cbn; destruct Hnx as [Hn|[_ Hn]]; lia|].
      split; [|split; [intros g0 Hin0; apply Hq; now right|exact Hl]].
      intros j Hj Hbj. rewrite getb_setb in Hbj by assumption.
      destruct (N.eqb_spec (w_idx w) j) as [<-|_].
      - exists g, w. split; [apply in_or_app; right; now left|auto].
      - destruct (Hb j Hj Hbj) as (g' & w' & Hin' & R). exists g', w'. split; [apply in_or_app; now left|exact R]. }
    destruct (paused st1).
    + destruct (IH st1 ys HS1 Hys) as (st' & ys' & Hs & R); [unfold st1; cbn; cbn in Hfuel; lia|].
      rewrite Hs. exists st', ys'. auto.
    + destruct (accept_all_sinv nl st1 ys HS1 Hys) as (st2 & ys2 & Hs2 & HS2 & Hys2 & [M2 _]). rewrite Hs2.
      destruct (IH st2 ys2 HS2 Hys2) as (st' & ys' & Hs & R); [unfold st1 in M2; cbn in M2, Hfuel; lia|].
      rewrite Hs. exists st', ys'. auto.
  - (* Pause *)
    set (st1 := if paused st0 then st0 else emit (deregister_all (set_paused st0 true)) EvPauseOn).
    assert (HS1 : SInv nl st1 /\ wq st1 = rest).
    { unfold st1. destruct (paused st0); [auto|]. split; [|reflexivity].
      apply SInv_emit. apply (SInv_deregister_all nl (set_paused st0 true)). exact HS0. }
    destruct HS1 as [HS1 Hq1].
    destruct (IH st1 ys HS1 Hys) as (st' & ys' & Hs & R); [rewrite Hq1; cbn in Hfuel; lia|].
    rewrite Hs. exists st', ys'. auto.
  - (* Resume *)
    destruct (paused st0).
    + set (st1 := emit (set_lsts (set_paused st0 false) (map register (lsts st0))) EvPauseOff).
      assert (HS1 : SInv nl st1).
      { unfold st1. apply SInv_emit. apply (SInv_set_lsts nl (set_paused st0 false)); [exact HS0|]. rewrite map_length. exact Hl. }
      destruct (accept_all_sinv nl st1 ys HS1 Hys) as (st2 & ys2 & Hs2 & HS2 & Hys2 & [M2 _]). rewrite Hs2.
      destruct (IH st2 ys2 HS2 Hys2) as (st' & ys' & Hs & R); [unfold st1 in M2; cbn in M2, Hfuel; lia|].
      rewrite Hs. exists st', ys'. auto.
    + destruct (IH st0 ys HS0 Hys) as (st' & ys' & Hs & R); [rewrite Hq0; cbn in Hfuel; lia|].
      rewrite Hs. exists st', ys'. auto.
  - (* Stop *)
    eexists _, ys. split; [reflexivity|]. split; [|exact Hys].
    apply SInv_emit. destruct (paused st0); [exact HS0|]. apply SInv_deregister_all in HS0. exact HS0.
Qed.

Lemma process_timeout_sinv nl st : SInv nl st -> SInv nl (process_timeout st).
Proof.
  intros HS. unfold process_timeout. destruct (ptimeout st); [|exact HS].
  destruct (fold_left _ _ _) as [ls pt] eqn:E.
  assert (Hlen : length ls = nl).
  { pose proof (process_timeout_lsts_len (paused st) (now st) (lsts st) ([], None)) as Hl.
    rewrite E in Hl. cbn in Hl. rewrite Hl. apply HS. }
  pose proof (SInv_set_lsts nl st ls HS Hlen) as H1. exact H1.
Qed.

(* ---------- every operation, every run, from the initial state ---------- *)
Lemma step_sinv nl st o :
  wf_op o = true -> tok_ok nl o = true -> SInv nl st -> SInv nl (step L st o).
Proof.
  intros Hwf Htok HS. destruct o as [e|tok ys|ys| |ys|ms]; cbn [step wf_op tok_ok] in *.
  - now apply env_step_sinv.
  - destruct (live st); [|exact HS]. apply Nat.ltb_lt in Htok.
    destruct (accept_sinv nl st tok ys HS Hwf Htok) as (st' & ys' & Hs & HP). rewrite Hs. exact (proj1 HP).
  - destruct (live st); [|exact HS].
    destruct (handle_waker_sinv nl (handle_waker_fuel st ys) st ys HS Hwf) as (st' & ys' & Hs & HS' & _).
    { unfold handle_waker_fuel. lia. }
    rewrite Hs. exact HS'.
  - destruct (live st); [|exact HS]. now apply process_timeout_sinv.
  - destruct (live st); [|exact HS].
    set (st0 := emit _ _).
    assert (HS0 : SInv nl st0).
    { unfold st0. apply SInv_emit. apply (SInv_ext nl st); try reflexivity; try exact HS.
      - cbn. unfold clear_edges. now rewrite map_length.
      - apply WsExt_refl.
      - apply HS.
      - intros g Hin. now left. }
    destruct (accept_toks_sinv nl (ready_toks 0 (lsts st)) st0 ys HS0 Hwf) as (st1 & ys1 & Hs1 & HS1 & Hys1 & _).
    { apply Forall_forall. intros t Ht. apply ready_toks_bound in Ht.
      destruct HS as (_ & _ & _ & _ & _ & _ & _ & Hl). rewrite Hl in Ht. lia. }
    rewrite Hs1. destruct (wpend st).
    + destruct (handle_waker_sinv nl (handle_waker_fuel st1 ys1) st1 ys1 HS1 Hys1) as (st2 & ys2 & Hs2 & HS2 & _).
      { unfold handle_waker_fuel. lia. }
      rewrite Hs2. destruct (live st2); [now apply process_timeout_sinv|exact HS2].
    + destruct (live st1); [now apply process_timeout_sinv|exact HS1].
  - exact HS.
Qed.

Lemma run_sinv nl os : forall st,
  forallb wf_op os = true -> forallb (tok_ok nl) os = true -> SInv nl st -> SInv nl (run L st os).
Proof.
  induction os as [|o os IH]; intros st Hwf Htok HS; cbn [run fold_left]; [exact HS|].
  cbn [forallb] in Hwf, Htok. apply andb_true_iff in Hwf as [Ho Hos]. apply andb_true_iff in Htok as [To Tos].
  apply IH; auto. now apply step_sinv.
Qed.

Lemma init_sinv W kinds : 1 <= W <= 512 -> SInv (length kinds) (init W kinds).
Proof.
  intros HW. destruct (init_av_bits W ltac:(lia)) as [Hwf Hb].
  unfold SInv, init. cbn. rewrite seq_length, map_length, seq_length.
  split; [reflexivity|]. split; [exact Hwf|].
  assert (Hws : forall g w, nth_error (map mk_worker (seq 0 W)) g = Some w -> g < W /\ w = mk_worker g).
  { intros g w Hg. assert (Hlt : g < W).
    { pose proof (nth_error_Some_lt _ _ _ Hg) as H. now rewrite map_length, seq_length in H. }
    rewrite nth_error_map, nth_error_seq0 in Hg by exact Hlt. cbn in Hg. injection Hg as <-. auto. }
  split; [intros g w Hg; destruct (Hws _ _ Hg) as [Hlt ->]; cbn; lia|].
  split; [intros g Hin; apply in_seq in Hin; lia|]. split; [left; lia|].
  split; [|split; [intros g []|apply map_length]].
  intros i Hi Hbi. rewrite Hb in Hbi by exact Hi. apply Nat.ltb_lt in Hbi.
  exists (N.to_nat i), (mk_worker (N.to_nat i)). split; [apply in_seq; lia|].
  split; [rewrite nth_error_map, nth_error_seq0 by exact Hbi; reflexivity|cbn; apply N2Nat.id].
Qed.

(* C08, first half: for EVERY script the accept thread neither panics nor spins *)
Theorem no_panic_no_spin W kinds os :
  1 <= W <= 512 -> forallb wf_op os = true -> forallb (tok_ok (length kinds)) os = true ->
  err (run L (init W kinds) os) = None.
Proof. intros HW Hwf Htok. exact (proj1 (run_sinv _ os _ Hwf Htok (init_sinv W kinds HW))). Qed.

Theorem reachable_sinv W kinds os :
  1 <= W <= 512 -> forallb wf_op os = true -> forallb (tok_ok (length kinds)) os = true ->
  SInv (length kinds) (run L (init W kinds) os).
Proof. intros HW Hwf Htok. exact (run_sinv _ os _ Hwf Htok (init_sinv W kinds HW)). Qed.

End Fault.
