(* Proofs/ListFacts.v — small list lemmas shared by the server proofs *)
From Coq Require Import List Arith Lia.
From AN Require Import Model.Srv.
Import ListNotations.

Lemma length_replace_nth {A} n (x : A) l : length (replace_nth n x l) = length l.
Proof. revert n; induction l as [|h t IH]; intros [|n]; cbn; auto. Qed.

Lemma nth_error_replace_nth_same {A} n (x : A) l :
  n < length l -> nth_error (replace_nth n x l) n = Some x.
Proof.
  revert n; induction l as [|h t IH]; intros [|n] H; cbn in *; try lia; auto. apply IH; lia.
Qed.

Lemma nth_error_replace_nth_other {A} n m (x : A) l :
  n <> m -> nth_error (replace_nth n x l) m = nth_error l m.
Proof.
  revert n m; induction l as [|h t IH]; intros [|n] [|m] H; cbn; auto; try congruence.
Qed.

Lemma nth_error_replace_nth {A} n m (x : A) l :
  nth_error (replace_nth n x l) m =
  if Nat.eqb n m then (if Nat.ltb n (length l) then Some x else None) else nth_error l m.
Proof.
  destruct (Nat.eqb_spec n m) as [<-|Hne].
  - destruct (Nat.ltb_spec n (length l)) as [Hlt|Hge].
    + now apply nth_error_replace_nth_same.
    + apply nth_error_None. now rewrite length_replace_nth.
  - now apply nth_error_replace_nth_other.
Qed.

Lemma nth_error_seq0 W n : n < W -> nth_error (seq 0 W) n = Some n.
Proof.
  intros H. rewrite nth_error_nth' with (d := 0) by now rewrite seq_length.
  now rewrite seq_nth.
Qed.

Lemma succ_mod n W : n < W -> (n + 1) mod W = if Nat.eqb (n + 1) W then 0 else n + 1.
Proof.
  intros H. destruct (Nat.eqb_spec (n + 1) W) as [<-|Hne].
  - apply Nat.mod_same. lia.
  - apply Nat.mod_small. lia.
Qed.

Lemma nth_error_Some_lt {A} (l : list A) n x : nth_error l n = Some x -> n < length l.
Proof. intros H. apply nth_error_Some. congruence. Qed.

Lemma nth_error_lt_Some {A} (l : list A) n : n < length l -> exists x, nth_error l n = Some x.
Proof. intros H. destruct (nth_error l n) eqn:E; eauto. apply nth_error_None in E. lia. Qed.
