(* Props/C15.v — LinesCodec frames lines exactly.
   ONLY statements, each closed by `exact <lemma>`, with Print Assumptions. *)
From AN Require Import Model.Lines Proofs.LinesFacts.

(* Repeated decode yields exactly the lines of the reference splitter (split at every
   LF, one trailing CR stripped, UTF-8 checked), leaves exactly the unterminated tail,
   and the fuel of the model never runs out. *)
Theorem C15_spec : forall src, decode_all src = Some (ref_lines src).
Proof. exact decode_all_spec. Qed.

(* The reference splitter really is "split at every LF". *)
Theorem C15_ref_split : forall l ls r,
  ref_split [] l = (ls, r) ->
  l = concat (map (fun s => s ++ [10]) ls) ++ r
  /\ Forall (fun s => ~ In 10 s) ls /\ ~ In 10 r.
Proof. exact ref_split_correct. Qed.

(* End of stream: a non-empty unterminated tail is one more line (one trailing CR
   stripped and left in the buffer); a tail that is empty or only CR yields nothing. *)
Theorem C15_eof : forall r, ~ In 10 r ->
  decode_all_eof r = Some (ref_eof_tail r, if ends_cr r then [13] else []).
Proof. exact decode_all_eof_tail. Qed.

(* End of stream on ANY buffer (complete lines still in it: a Framed built from parts with a pre-filled read buffer
   whose transport reports EOF at once calls decode_eof first): repeated decode_eof yields the lines of the reference
   splitter and then the tail, exactly what decode followed by decode_eof yields. *)
Theorem C15_eof_all : forall src,
  decode_all_eof src =
  let '(its, r) := ref_lines src in Some (its ++ ref_eof_tail r, if ends_cr r then [13] else []).
Proof. exact decode_all_eof_spec. Qed.

(* What the harness observes on any input (decode until None, then decode_eof until None). *)
Theorem C15_run : forall src,
  run_lines src =
  let '(its, r) := ref_lines src in
  Some (its, ref_eof_tail r, if ends_cr r then [13] else []).
Proof. exact run_lines_spec. Qed.

(* Invalid UTF-8 is an error; an Ok item is byte-for-byte the line. *)
Theorem C15_invalid_ok : forall l s, finish l = IOk s -> s = l /\ valid l = true.
Proof. exact finish_ok. Qed.
Theorem C15_invalid_err : forall l, finish l = IErr <-> valid l = false.
Proof. exact finish_err. Qed.

(* Encoding appends the bytes and exactly one LF. *)
Theorem C15_encode : forall s dst, encode s dst = dst ++ s ++ [10].
Proof. reflexivity. Qed.

(* Round trip. *)
Theorem C15_roundtrip : forall ss,
  Forall good ss -> decode_all (encode_all ss) = Some (map IOk ss, []).
Proof. exact roundtrip. Qed.

(* non-vacuity: a CRLF line, an invalid line, a multi-byte line and a CR tail *)
Example C15_example :
  run_lines [97; 13; 10; 255; 10; 195; 169; 10; 98; 13]
  = Some ([IOk [97]; IErr; IOk [195; 169]], [IOk [98]], [13]).
Proof. vm_compute. reflexivity. Qed.
Example C15_good_example : Forall good [[97; 13; 98]; []; [195; 169]].
Proof. repeat constructor; cbn; intuition discriminate. Qed.

Print Assumptions C15_spec.
Print Assumptions C15_ref_split.
Print Assumptions C15_eof.
Print Assumptions C15_eof_all.
Print Assumptions C15_run.
Print Assumptions C15_invalid_ok.
Print Assumptions C15_invalid_err.
Print Assumptions C15_encode.
Print Assumptions C15_roundtrip.
