(* Proofs/CounterFacts.v — invariants and checker soundness for Model/Counter.v (C17). *)
From Coq Require Import Lia.
From AN Require Import Model.Counter.

(* ---------------- handle tables ---------------- *)
Lemma live_app_true : forall l, live (l ++ [true]) = S (live l).
Proof.
  induction l as [|b t IH]; cbn [live app]; [reflexivity|].
  rewrite IH. destruct b; lia.
Qed.

Lemma live_kill : forall l i, alive l i = true -> live l = S (live (kill i l)).
Proof.
  unfold alive. induction l as [|b t IH]; intros i H.
  - destruct i; discriminate.
  - destruct i as [|j]; cbn [nth] in H.
    + subst b. reflexivity.
    + cbn [kill live]. rewrite (IH j H). destruct b; lia.
Qed.

Lemma alive_live_pos : forall l i, alive l i = true -> (0 < live l)%nat.
Proof. intros l i H. rewrite (live_kill l i H). lia. Qed.

Lemma alive_app_true : forall l i, alive (l ++ [true]) i = alive l i || Nat.eqb i (length l).
Proof.
  unfold alive. induction l as [|b t IH]; intros i.
  - destruct i as [|[|j]]; reflexivity.
  - destruct i as [|j]; cbn [app nth length].
    + rewrite orb_false_r. reflexivity.
    + apply IH.
Qed.

Lemma alive_kill_same : forall l i, alive (kill i l) i = false.
Proof.
  unfold alive. induction l as [|b t IH]; intros [|j]; cbn [kill nth]; auto.
Qed.

Lemma alive_kill_other : forall l i j, i <> j -> alive (kill i l) j = alive l j.
Proof.
  unfold alive. induction l as [|b t IH]; intros [|i] [|j] Hne; cbn [kill nth]; auto.
  - contradiction.
Qed.

Lemma wakers_eqb_refl : forall l, wakers_eqb l l = true.
Proof. induction l as [|x t IH]; cbn; [reflexivity|]. rewrite Nat.eqb_refl. exact IH. Qed.

Lemma wakers_eqb_eq : forall a b, wakers_eqb a b = true -> a = b.
Proof.
  induction a as [|x a IH]; destruct b as [|y b]; cbn; intros H; try discriminate; [reflexivity|].
  apply andb_true_iff in H. destruct H as [H1 H2].
  apply Nat.eqb_eq in H1. subst y. f_equal. auto.
Qed.

Lemma mem_waker_single : forall w, mem_waker w [w] = true.
Proof. intros w. cbn. rewrite Nat.eqb_refl. reflexivity. Qed.

Lemma discharge_nil : forall x, discharge x [] = x.
Proof. destruct x; reflexivity. Qed.

(* ---------------- LocalWaker ---------------- *)
Lemma lw_wake_spec : forall l,
  lw_wake l = (None, match l with Some w => [w] | None => [] end).
Proof. destruct l; reflexivity. Qed.

Lemma lw_check_run_from : forall s l, lw_check l s (lw_run_from l s) = true.
Proof.
  induction s as [|o s IH]; intros l; [reflexivity|].
  destruct o as [w| |]; cbn [lw_run_from lw_step lw_register lw_take].
  - cbn [lw_check]. rewrite IH. destruct l; reflexivity.
  - rewrite lw_wake_spec. cbn [lw_check]. rewrite IH, wakers_eqb_refl. reflexivity.
  - cbn [lw_check]. rewrite IH. destruct l as [w|]; cbn [opt_waker_eqb]; [rewrite Nat.eqb_refl|]; reflexivity.
Qed.

Lemma local_waker_holds : forall s, C17_local_waker_ok s (lw_run s) = true.
Proof. intros s. apply lw_check_run_from. Qed.

(* ---------------- Counter: state after a script, invariant ---------------- *)
Fixpoint ctr_exec (st : ctr_state) (s : list ctr_op) : ctr_state :=
  match s with
  | [] => st
  | o :: s' => ctr_exec (fst (ctr_step st o)) s'
  end.

Definition ctr_inv (cap : N) (st : ctr_state) : Prop :=
  count (inner st) = N.of_nat (live (guards st))
  /\ capacity (inner st) = cap
  /\ ((count (inner st) < cap)%N -> task (inner st) = None).

Lemma ctr_inv_init : forall cap, ctr_inv cap (ctr_init cap).
Proof. intros cap. repeat split. Qed.

Lemma counter_dec_spec : forall c,
  counter_dec c =
  (mkCounter (count c - 1) (capacity c) (if (count c =? capacity c)%N then None else task c),
   if (count c =? capacity c)%N then match task c with Some w => [w] | None => [] end else []).
Proof.
  intros c. unfold counter_dec. destruct (count c =? capacity c)%N; [|reflexivity].
  rewrite lw_wake_spec. reflexivity.
Qed.

Lemma counter_available_spec : forall c w,
  counter_available c w =
  if (count c <? capacity c)%N then (c, true)
  else (mkCounter (count c) (capacity c) (Some w), false).
Proof. intros c w. unfold counter_available. destruct (count c <? capacity c)%N; reflexivity. Qed.

Lemma ctr_step_valid_guards : forall st o st' ob,
  ctr_valid (guards st) o = true -> ctr_step st o = (st', ob) ->
  guards st' = guards_after (guards st) o.
Proof.
  intros st o st' ob Hv Hs. destruct o as [|g|w| |]; cbn [ctr_step ctr_valid] in *.
  - inversion Hs. reflexivity.
  - rewrite Hv in Hs. destruct (counter_dec (inner st)) as [c ws]. inversion Hs. reflexivity.
  - destruct (counter_available (inner st) w) as [c b]. inversion Hs. reflexivity.
  - inversion Hs. reflexivity.
  - inversion Hs. reflexivity.
Qed.

Lemma ctr_step_invalid : forall st o,
  ctr_valid (guards st) o = false ->
  exists t, ctr_step st o = (st, CObs CInvalid [] t).
Proof.
  intros st o Hv. destruct o as [|g|w| |]; cbn [ctr_valid] in Hv; try discriminate.
  cbn [ctr_step]. rewrite Hv. eexists. reflexivity.
Qed.

Lemma ctr_inv_step : forall cap st o,
  ctr_inv cap st -> ctr_inv cap (fst (ctr_step st o)).
Proof.
  intros cap st o (Hc & Hcap & Ht). unfold ctr_inv.
  destruct o as [|g|w| |]; cbn [ctr_step].
  - cbn [fst inner guards counter_inc count capacity task]. rewrite live_app_true.
    repeat split; [lia|assumption|]. intros H. apply Ht. lia.
  - destruct (alive (guards st) g) eqn:Ha; [|repeat split; assumption].
    rewrite counter_dec_spec. cbn [fst inner guards count capacity task].
    pose proof (live_kill _ _ Ha) as Hl.
    repeat split; [lia|assumption|].
    intros Hlt. destruct (count (inner st) =? capacity (inner st))%N eqn:E; [reflexivity|].
    apply N.eqb_neq in E. apply Ht. lia.
  - rewrite counter_available_spec.
    destruct (count (inner st) <? capacity (inner st))%N eqn:E; cbn [fst inner guards count capacity task].
    + repeat split; assumption.
    + repeat split; try assumption. intros Hlt. apply N.ltb_ge in E. lia.
  - repeat split; assumption.
  - repeat split; assumption.
Qed.

Lemma ctr_inv_exec : forall cap s st, ctr_inv cap st -> ctr_inv cap (ctr_exec st s).
Proof.
  induction s as [|o s IH]; intros st H; [exact H|].
  cbn [ctr_exec]. apply IH. apply ctr_inv_step. exact H.
Qed.

(* `available` and `total` in every reachable state (state form of C17, first clause) *)
Lemma reachable_available_total : forall cap s w,
  let st := ctr_exec (ctr_init cap) s in
  counter_total (inner st) = N.of_nat (live (guards st))
  /\ snd (counter_available (inner st) w) = (N.of_nat (live (guards st)) <? cap)%N.
Proof.
  intros cap s w st.
  destruct (ctr_inv_exec cap s _ (ctr_inv_init cap)) as (Hc & Hcap & _). fold st in Hc, Hcap.
  split; [exact Hc|].
  rewrite counter_available_spec, Hcap, <- Hc.
  destruct (count (inner st) <? cap)%N; reflexivity.
Qed.

(* `dec` never runs at count = 0: a live guard implies count >= 1 *)
Lemma no_underflow : forall cap s g,
  let st := ctr_exec (ctr_init cap) s in
  alive (guards st) g = true -> (0 < count (inner st))%N.
Proof.
  intros cap s g st Ha.
  destruct (ctr_inv_exec cap s _ (ctr_inv_init cap)) as (Hc & _). fold st in Hc.
  rewrite Hc. pose proof (alive_live_pos _ _ Ha). lia.
Qed.

(* while the counter is available no waker is registered (no stale waker can be woken later) *)
Lemma no_stale_waker : forall cap s,
  let st := ctr_exec (ctr_init cap) s in
  (count (inner st) < cap)%N -> task (inner st) = None.
Proof.
  intros cap s st. destruct (ctr_inv_exec cap s _ (ctr_inv_init cap)) as (_ & _ & Ht). exact Ht.
Qed.

(* ---------------- generic soundness of ctr_check by simulation ---------------- *)
Section CheckSound.
  Variable A : Type.
  Variable f : list bool -> A -> ctr_op -> ctr_obs -> option A.
  Variable R : ctr_state -> A -> Prop.
  Hypothesis Hstep : forall st a o st' ob,
    R st a -> ctr_valid (guards st) o = true -> ctr_step st o = (st', ob) ->
    exists a', f (guards st) a o ob = Some a' /\ R st' a'.

  Lemma ctr_check_sound : forall s st a,
    R st a -> ctr_check f (guards st) a s (ctr_run_from st s) = true.
  Proof.
    induction s as [|o s IH]; intros st a HR; [reflexivity|].
    cbn [ctr_run_from]. destruct (ctr_step st o) as [st' ob] eqn:Hs.
    cbn [ctr_check]. destruct (ctr_valid (guards st) o) eqn:Hv.
    - destruct (Hstep _ _ _ _ _ HR Hv Hs) as (a' & Hf & HR').
      rewrite Hf. rewrite <- (ctr_step_valid_guards _ _ _ _ Hv Hs). apply IH. exact HR'.
    - destruct (ctr_step_invalid _ _ Hv) as (t & Hi). rewrite Hi in Hs. inversion Hs. subst st' ob.
      cbn [c_ret]. apply IH. exact HR.
  Qed.
End CheckSound.

(* ---------------- the three Counter clauses ---------------- *)
Lemma available_holds : forall cap s, available_ok cap s (ctr_run cap s) = true.
Proof.
  intros cap s. unfold available_ok, ctr_run.
  apply (ctr_check_sound unit (avail_f cap) (fun st _ => ctr_inv cap st)) with (st := ctr_init cap);
    [|apply ctr_inv_init].
  intros st [] o st' ob Hinv Hv Hs.
  exists tt. split; [|rewrite <- (f_equal fst Hs : fst (ctr_step st o) = st'); apply ctr_inv_step; exact Hinv].
  destruct Hinv as (Hc & Hcap & _).
  destruct o as [|g|w| |]; cbn [ctr_step ctr_valid] in *.
  - inversion Hs. subst. unfold avail_f. cbn [c_ret c_total guards_after counter_total counter_inc count andb].
    rewrite live_app_true, Hc.
    replace (N.of_nat (live (guards st)) + 1 =? N.of_nat (S (live (guards st))))%N with true; [reflexivity|].
    symmetry. apply N.eqb_eq. lia.
  - rewrite Hv in Hs. rewrite counter_dec_spec in Hs. inversion Hs. subst.
    unfold avail_f. cbn [c_ret c_total guards_after counter_total count andb].
    pose proof (live_kill _ _ Hv) as Hl.
    replace (count (inner st) - 1 =? N.of_nat (live (kill g (guards st))))%N with true; [reflexivity|].
    symmetry. apply N.eqb_eq. lia.
  - rewrite counter_available_spec in Hs. rewrite Hcap, Hc in Hs.
    destruct (N.of_nat (live (guards st)) <? cap)%N eqn:E; inversion Hs; subst;
      unfold avail_f; cbn [c_ret c_total guards_after counter_total count inner]; rewrite E; cbn [Bool.eqb andb];
      unfold counter_total; rewrite ?Hc; rewrite N.eqb_refl; reflexivity.
  - inversion Hs. subst. unfold avail_f, counter_total. cbn [c_ret c_total guards_after andb].
    rewrite Hc, N.eqb_refl. reflexivity.
  - inversion Hs. subst. unfold avail_f, counter_total. cbn [c_ret c_total guards_after andb].
    rewrite Hc, N.eqb_refl. reflexivity.
Qed.

Lemma cwake_holds : forall cap s, cwake_ok cap s (ctr_run cap s) = true.
Proof.
  intros cap s. unfold cwake_ok, ctr_run.
  apply (ctr_check_sound (option waker) (cwake_f cap)
           (fun st waiting => ctr_inv cap st /\ forall w, waiting = Some w -> task (inner st) = Some w))
    with (st := ctr_init cap); [|split; [apply ctr_inv_init|discriminate]].
  intros st waiting o st' ob [Hinv Hw] Hv Hs.
  assert (Hinv' : ctr_inv cap st').
  { rewrite <- (f_equal fst Hs : fst (ctr_step st o) = st'). apply ctr_inv_step. exact Hinv. }
  destruct Hinv as (Hc & Hcap & _). subst cap.
  destruct o as [|g|w| |]; cbn [ctr_step ctr_valid] in *.
  - inversion Hs. subst. cbn [cwake_f c_wakes]. rewrite discharge_nil.
    eexists. split; [reflexivity|]. split; [exact Hinv'|]. exact Hw.
  - rewrite Hv in Hs. rewrite counter_dec_spec in Hs. rewrite Hc in Hs. inversion Hs. subst.
    cbn [cwake_f c_wakes].
    destruct (N.of_nat (live (guards st)) =? capacity (inner st))%N eqn:E.
    + destruct waiting as [w|].
      * rewrite (Hw w eq_refl), mem_waker_single.
        eexists. split; [reflexivity|]. split; [exact Hinv'|discriminate].
      * eexists. split; [reflexivity|]. split; [exact Hinv'|discriminate].
    + rewrite discharge_nil. eexists. split; [reflexivity|]. split; [exact Hinv'|]. exact Hw.
  - rewrite counter_available_spec in Hs.
    destruct (count (inner st) <? capacity (inner st))%N; inversion Hs; subst; cbn [cwake_f c_ret c_wakes].
    + rewrite discharge_nil. eexists. split; [reflexivity|]. split; [exact Hinv'|]. exact Hw.
    + eexists. split; [reflexivity|]. split; [exact Hinv'|].
      intros w0 H0. inversion H0. reflexivity.
  - inversion Hs. subst. cbn [cwake_f c_wakes]. rewrite discharge_nil.
    eexists. split; [reflexivity|]. split; [exact Hinv'|]. exact Hw.
  - inversion Hs. subst. cbn [cwake_f c_wakes]. rewrite discharge_nil.
    eexists. split; [reflexivity|]. split; [exact Hinv'|]. exact Hw.
Qed.

Lemma cwake_only_holds : forall cap s, cwake_only_ok cap s (ctr_run cap s) = true.
Proof.
  intros cap s. unfold cwake_only_ok, ctr_run.
  apply (ctr_check_sound (option waker) (cwake_only_f cap)
           (fun st reg => ctr_inv cap st /\ reg = task (inner st)))
    with (st := ctr_init cap); [|split; [apply ctr_inv_init|reflexivity]].
  intros st reg o st' ob [Hinv Hr] Hv Hs.
  assert (Hinv' : ctr_inv cap st').
  { rewrite <- (f_equal fst Hs : fst (ctr_step st o) = st'). apply ctr_inv_step. exact Hinv. }
  destruct Hinv as (Hc & Hcap & _). subst reg cap.
  destruct o as [|g|w| |]; cbn [ctr_step ctr_valid] in *.
  - inversion Hs. subst. cbn [cwake_only_f c_wakes wakers_eqb].
    eexists. split; [reflexivity|]. split; [exact Hinv'|reflexivity].
  - rewrite Hv in Hs. rewrite counter_dec_spec in Hs. rewrite Hc in Hs. inversion Hs. subst.
    cbn [cwake_only_f c_wakes].
    destruct (N.of_nat (live (guards st)) =? capacity (inner st))%N eqn:E.
    + rewrite wakers_eqb_refl. eexists. split; [reflexivity|]. split; [exact Hinv'|reflexivity].
    + cbn [wakers_eqb]. eexists. split; [reflexivity|]. split; [exact Hinv'|reflexivity].
  - rewrite counter_available_spec in Hs.
    destruct (count (inner st) <? capacity (inner st))%N; inversion Hs; subst;
      cbn [cwake_only_f c_ret c_wakes wakers_eqb];
      (eexists; split; [reflexivity|]; split; [exact Hinv'|reflexivity]).
  - inversion Hs. subst. cbn [cwake_only_f c_wakes wakers_eqb].
    eexists. split; [reflexivity|]. split; [exact Hinv'|reflexivity].
  - inversion Hs. subst. cbn [cwake_only_f c_wakes wakers_eqb].
    eexists. split; [reflexivity|]. split; [exact Hinv'|reflexivity].
Qed.

Lemma counter_holds : forall cap s, C17_counter_ok cap s (ctr_run cap s) = true.
Proof.
  intros cap s. unfold C17_counter_ok.
  rewrite available_holds, cwake_holds, cwake_only_holds. reflexivity.
Qed.
