(* Proofs/SvcFacts.v — lemmas about Model/Svc.v (C11, C12). *)
From AN Require Import Model.Svc.

Local Open Scope nat_scope.

(* ------------------------------------------------------------------------------------------ *)
(* Readiness                                                                                   *)
(* ------------------------------------------------------------------------------------------ *)
Definition has_err (ls : list leaf_t) : bool := existsb (fun x => is_rerr (snd (fst x))) ls.

Lemma polled_no_err : forall ls, has_err ls = false -> polled ls = ls.
Proof.
  unfold has_err. induction ls as [|[[id r] ms] t IH]; cbn; intros H; [reflexivity|].
  apply orb_false_iff in H as [H1 H2]. rewrite H1, IH by assumption. reflexivity.
Qed.

Lemma polled_app : forall la lb,
  polled (la ++ lb) = if has_err la then polled la else la ++ polled lb.
Proof.
  unfold has_err. induction la as [|[[id r] ms] t IH]; cbn; intros lb; [reflexivity|].
  destruct (is_rerr r); cbn; [reflexivity|]. rewrite IH.
  match goal with |- context [existsb ?f t] => destruct (existsb f t) end; reflexivity.
Qed.

Lemma conj_ready_err_iff : forall ls, is_rerr (conj_ready ls) = has_err ls.
Proof.
  unfold has_err. induction ls as [|[[id r] ms] t IH]; cbn; [reflexivity|].
  destruct r; cbn; [|exact IH|reflexivity].
  rewrite <- IH. destruct (conj_ready t); reflexivity.
Qed.

Lemma conj_ready_app : forall la lb,
  conj_ready (la ++ lb) =
  match conj_ready la with
  | RErr x => RErr x
  | RPending => match conj_ready lb with RErr x => RErr x | _ => RPending end
  | ROk => conj_ready lb
  end.
Proof.
  induction la as [|[[id r] ms] t IH]; cbn; intros lb; [reflexivity|].
  destruct r; cbn; try reflexivity; rewrite IH.
  - destruct (conj_ready t); try reflexivity. destruct (conj_ready lb); reflexivity.
  - reflexivity.
Qed.

Definition add_m (m : mapper) (x : leaf_t) : leaf_t := let '(id, r, ms) := x in (id, r, ms ++ [m]).

Lemma leaves_maperr : forall m a, leaves (MapErr m a) = map (add_m m) (leaves a).
Proof. reflexivity. Qed.

Lemma polled_map_add : forall m ls, polled (map (add_m m) ls) = map (add_m m) (polled ls).
Proof.
  induction ls as [|[[id r] ms] t IH]; cbn; [reflexivity|].
  destruct (is_rerr r); cbn; [reflexivity|]. now rewrite IH.
Qed.

Lemma conj_ready_map_add : forall m ls,
  conj_ready (map (add_m m) ls) = fst (map_rerr m (conj_ready ls)).
Proof.
  induction ls as [|[[id r] ms] t IH]; cbn; [reflexivity|].
  destruct r; cbn.
  - rewrite IH. destruct (conj_ready t); reflexivity.
  - exact IH.
  - now rewrite fold_left_app.
Qed.

Lemma ready_evs_app : forall a b, ready_evs (a ++ b) = ready_evs a ++ ready_evs b.
Proof. intros. unfold ready_evs. apply filter_app. Qed.

Lemma ev_of_add : forall w m x, ev_of w (add_m m x) = ev_of w x.
Proof. intros w m [[id r] ms]. reflexivity. Qed.

(* exact characterisation of one poll_ready *)
Lemma poll_ready_spec : forall e w e' r l,
  poll_ready e w = (e', r, l) ->
  r = conj_ready (leaves e) /\ ready_evs l = map (ev_of w) (polled (leaves e)).
Proof.
  induction e as [id rs beh|id beh|a IHa b IHb|m a IHa|m a IHa|wf a IHa|k a IHa];
    intros w e' r l H; cbn [poll_ready] in H.
  - destruct rs as [|x rs]; inversion H; subst; cbn; split; try reflexivity;
      destruct r; reflexivity.
  - inversion H; subst. split; reflexivity.
  - destruct (poll_ready a w) as [[a' ra] la] eqn:Ea.
    destruct (IHa _ _ _ _ Ea) as [Ra La].
    cbn [leaves]. rewrite conj_ready_app, polled_app, <- conj_ready_err_iff, <- Ra.
    destruct ra as [| |x].
    + destruct (poll_ready b w) as [[b' rb] lb] eqn:Eb.
      destruct (IHb _ _ _ _ Eb) as [Rb Lb]. rewrite <- Rb. cbn [is_rerr].
      assert (HE : has_err (leaves a) = false) by (rewrite <- conj_ready_err_iff, <- Ra; reflexivity).
      rewrite polled_no_err in La by assumption.
      destruct rb; inversion H; subst; (split; [reflexivity|]);
        now rewrite ready_evs_app, La, Lb, map_app.
    + destruct (poll_ready b w) as [[b' rb] lb] eqn:Eb.
      destruct (IHb _ _ _ _ Eb) as [Rb Lb]. rewrite <- Rb. cbn [is_rerr].
      assert (HE : has_err (leaves a) = false) by (rewrite <- conj_ready_err_iff, <- Ra; reflexivity).
      rewrite polled_no_err in La by assumption.
      destruct rb; inversion H; subst; (split; [reflexivity|]);
        now rewrite ready_evs_app, La, Lb, map_app.
    + inversion H; subst. cbn [is_rerr]. split; [reflexivity|assumption].
  - destruct (poll_ready a w) as [[a' ra] la] eqn:Ea. inversion H; subst. eauto.
  - destruct (poll_ready a w) as [[a' ra] la] eqn:Ea.
    destruct (IHa _ _ _ _ Ea) as [Ra La].
    destruct (map_rerr m ra) as [r' lm] eqn:Em. inversion H; subst.
    rewrite leaves_maperr, conj_ready_map_add, polled_map_add, map_map, Em.
    split; [reflexivity|]. rewrite ready_evs_app, La.
    assert (ready_evs lm = []) as ->.
    { unfold map_rerr in Em. destruct (conj_ready (leaves a)); inversion Em; reflexivity. }
    rewrite app_nil_r. apply map_ext. intros x. now rewrite ev_of_add.
  - destruct (poll_ready a w) as [[a' ra] la] eqn:Ea. inversion H; subst. eauto.
  - destruct (poll_ready a w) as [[a' ra] la] eqn:Ea. inversion H; subst. eauto.
Qed.

Lemma conj_ready_ok_iff : forall ls,
  conj_ready ls = ROk <-> Forall (fun x : leaf_t => snd (fst x) = ROk) ls.
Proof.
  induction ls as [|[[id r] ms] t IH]; cbn.
  - split; auto.
  - destruct r; cbn.
    + split; [destruct (conj_ready t); discriminate|intros H; inversion H; discriminate].
    + rewrite IH. split; [intros; constructor; auto|intros H; now inversion H].
    + split; [discriminate|intros H; inversion H; discriminate].
Qed.

Lemma conj_ready_not_err : forall ls,
  is_rerr (conj_ready ls) = false -> polled ls = ls.
Proof. intros ls H. apply polled_no_err. now rewrite <- conj_ready_err_iff. Qed.

(* Ready(Ok) iff every leaf answered Ready(Ok); all of them were polled, once, in order, with w *)
Lemma ready_ok_iff : forall e w e' r l,
  poll_ready e w = (e', r, l) ->
  (r = ROk <-> Forall (fun x : leaf_t => snd (fst x) = ROk) (leaves e)).
Proof.
  intros e w e' r l H. destruct (poll_ready_spec _ _ _ _ _ H) as [-> _]. apply conj_ready_ok_iff.
Qed.

Lemma ready_not_err_all_polled : forall e w e' r l,
  poll_ready e w = (e', r, l) -> is_rerr r = false ->
  ready_evs l = map (ev_of w) (leaves e).
Proof.
  intros e w e' r l H Hr. destruct (poll_ready_spec _ _ _ _ _ H) as [-> ->].
  now rewrite conj_ready_not_err.
Qed.

Lemma ready_evs_In : forall ev l, In ev (ready_evs l) -> In ev l.
Proof. intros ev l H. unfold ready_evs in H. now apply filter_In in H. Qed.

(* Pending: every leaf (so in particular every leaf that answers Pending) was polled with w *)
Lemma ready_pending_waker : forall e w e' l,
  poll_ready e w = (e', RPending, l) ->
  forall id a ms, In (id, a, ms) (leaves e) -> In (EvReady id w a) l.
Proof.
  intros e w e' l H id a ms Hin. apply ready_evs_In.
  rewrite (ready_not_err_all_polled _ _ _ _ _ H eq_refl).
  change (EvReady id w a) with (ev_of w (id, a, ms)). now apply in_map.
Qed.

Lemma conj_ready_pending_ex : forall ls,
  conj_ready ls = RPending -> exists id ms, In (id, RPending, ms) ls.
Proof.
  induction ls as [|[[id r] ms] t IH]; cbn; [discriminate|].
  destruct r; intros H.
  - exists id, ms. now left.
  - destruct (IH H) as (i & m & Hi). exists i, m. now right.
  - discriminate.
Qed.

Lemma conj_ready_err_split : forall ls x,
  conj_ready ls = RErr x ->
  exists pre id e0 ms post,
    ls = pre ++ (id, RErr e0, ms) :: post
    /\ has_err pre = false
    /\ x = fold_left (fun v m => app_m m v) ms e0
    /\ polled ls = pre ++ [(id, RErr e0, ms)].
Proof.
  induction ls as [|[[id r] ms] t IH]; cbn; intros x H; [discriminate|].
  destruct r.
  - destruct (conj_ready t) eqn:E; try discriminate. inversion H; subst.
    destruct (IH _ eq_refl) as (pre & i & e0 & m & post & -> & Hp & Hx & Hq).
    exists ((id, RPending, ms) :: pre), i, e0, m, post.
    split; [reflexivity|]. split; [exact Hp|]. split; [exact Hx|].
    cbn [polled app is_rerr]. now rewrite Hq.
  - destruct (IH _ H) as (pre & i & e0 & m & post & -> & Hp & Hx & Hq).
    exists ((id, ROk, ms) :: pre), i, e0, m, post.
    split; [reflexivity|]. split; [exact Hp|]. split; [exact Hx|].
    cbn [polled app is_rerr]. now rewrite Hq.
  - inversion H; subst. exists [], id, e, ms, t. cbn. auto.
Qed.

Lemma ready_not_err_state : forall e w e' r l,
  poll_ready e w = (e', r, l) -> is_rerr r = false -> e' = advance e.
Proof.
  induction e as [id rs beh|id beh|a IHa b IHb|m a IHa|m a IHa|wf a IHa|k a IHa];
    intros w e' r l H Hr; cbn [poll_ready] in H; cbn [advance].
  - destruct rs; inversion H; reflexivity.
  - inversion H; reflexivity.
  - destruct (poll_ready a w) as [[a' ra] la] eqn:Ea.
    destruct ra as [| |x];
      [| |inversion H; subst; discriminate];
      destruct (poll_ready b w) as [[b' rb] lb] eqn:Eb;
      destruct rb; inversion H; subst; try discriminate;
      now rewrite (IHa _ _ _ _ Ea eq_refl), (IHb _ _ _ _ Eb eq_refl).
  - destruct (poll_ready a w) as [[a' ra] la] eqn:Ea. inversion H; subst.
    now rewrite (IHa _ _ _ _ Ea Hr).
  - destruct (poll_ready a w) as [[a' ra] la] eqn:Ea.
    destruct (map_rerr m ra) as [r' lm] eqn:Em. inversion H; subst.
    assert (is_rerr ra = false) by (destruct ra; cbn in Em; inversion Em; subst; auto).
    now rewrite (IHa _ _ _ _ Ea H0).
  - destruct (poll_ready a w) as [[a' ra] la] eqn:Ea. inversion H; subst.
    now rewrite (IHa _ _ _ _ Ea Hr).
  - destruct (poll_ready a w) as [[a' ra] la] eqn:Ea. inversion H; subst.
    now rewrite (IHa _ _ _ _ Ea Hr).
Qed.

(* ------------------------------------------------------------------------------------------ *)
(* Futures: liveness invariant                                                                 *)
(* ------------------------------------------------------------------------------------------ *)
Definition callev (ev : event) : Prop :=
  match ev with EvCall _ _ | EvMap _ _ _ => True | _ => False end.


Fixpoint live (f : sfut) : Prop :=
  match f with
  | FLeaf _ _ _ done => done = false
  | FReady v => v <> None
  | FAndA fut kb kev => live fut /\ (forall v, live (kb v)) /\ (forall v, Forall callev (kev v))
  | FAndATaken _ => False
  | FAndB fut => live fut
  | FMapOk _ _ fut => live fut
  | FMapEr _ _ fut => live fut
  end.


Lemma callev_okev : forall w l, Forall callev l -> Forall (okev w) l.
Proof.
  intros w l H. eapply Forall_impl; [|exact H]. intros [] Hc; cbn in *; auto; contradiction.
Qed.

Lemma ends_pending_app : forall w a b, ends_pending w b -> ends_pending w (a ++ b).
Proof. intros w a b (l0 & id & ->). exists (a ++ l0), id. now rewrite app_assoc. Qed.

Lemma live_poll : forall f w f' r l,
  live f -> poll f w = (f', r, l) ->
  r <> PPanic /\ Forall (okev w) l /\ (r = PPending -> live f' /\ ends_pending w l).
Proof.
  induction f as [id k out done|v|fut IH kb IHk kev|fut IH|fut IH|kd m fut IH|kd m fut IH];
    intros w f' r l HL H; cbn [poll live] in *.
  - subst done. destruct k; inversion H; subst; (split; [discriminate|]);
      (split; [repeat constructor|]); intros E; try discriminate.
    split; [reflexivity|]. exists [], id. reflexivity.
  - destruct v as [x|]; [|contradiction]. inversion H; subst.
    split; [discriminate|]. split; [constructor|discriminate].
  - destruct HL as (HL1 & HL2 & HL3).
    destruct (poll fut w) as [[fut' r1] l1] eqn:E1.
    destruct (IH _ _ _ _ HL1 E1) as (N1 & O1 & P1).
    destruct r1 as [|[v|x]|].
    + inversion H; subst. split; [assumption|]. split; [assumption|].
      intros _. destruct (P1 eq_refl) as [L1 EP]. cbn [live]. auto.
    + destruct (poll (kb v) w) as [[fb' r2] l2] eqn:E2.
      destruct (IHk v _ _ _ _ (HL2 v) E2) as (N2 & O2 & P2).
      inversion H; subst. split; [assumption|]. split.
      * apply Forall_app; split; [assumption|]. apply Forall_app; split; [|assumption].
        apply callev_okev, HL3.
      * intros E. destruct (P2 E) as [L2 EP]. split; [exact L2|].
        rewrite app_assoc. now apply ends_pending_app.
    + inversion H; subst. split; [discriminate|]. split; [assumption|discriminate].
    + contradiction.
  - contradiction.
  - destruct (poll fut w) as [[fut' r1] l1] eqn:E1.
    destruct (IH _ _ _ _ HL E1) as (N1 & O1 & P1). inversion H; subst. auto.
  - destruct (poll fut w) as [[fut' r1] l1] eqn:E1.
    destruct (IH _ _ _ _ HL E1) as (N1 & O1 & P1).
    destruct r1 as [|[v|x]|]; inversion H; subst; try contradiction.
    + auto.
    + split; [discriminate|]. split; [|discriminate].
      apply Forall_app; split; [assumption|repeat constructor].
    + split; [discriminate|]. split; [assumption|discriminate].
  - destruct (poll fut w) as [[fut' r1] l1] eqn:E1.
    destruct (IH _ _ _ _ HL E1) as (N1 & O1 & P1).
    destruct r1 as [|[v|x]|]; inversion H; subst; try contradiction.
    + auto.
    + split; [discriminate|]. split; [assumption|discriminate].
    + split; [discriminate|]. split; [|discriminate].
      apply Forall_app; split; [assumption|repeat constructor].
Qed.

Lemma call_evs_callev : forall e req, Forall callev (call_evs e req).
Proof.
  induction e as [id rs beh|id beh|a IHa b IHb|m a IHa|m a IHa|wf a IHa|k a IHa]; intros req;
    cbn [call_evs]; auto; try (repeat constructor; fail).
  destruct wf; [constructor; [exact I|apply IHa]|constructor].
Qed.

Lemma live_call : forall e req, live (call_fut e req).
Proof.
  induction e as [id rs beh|id beh|a IHa b IHb|m a IHa|m a IHa|wf a IHa|k a IHa]; intros req;
    cbn [call_fut live]; auto.
  - split; [apply IHa|]. split; [intros; apply IHb|intros; apply call_evs_callev].
  - destruct wf; cbn [live]; [apply IHa|discriminate].
Qed.


Lemma polls_live : forall n w f, live f -> Forall good_poll (polls n w f).
Proof.
  induction n as [|n IH]; intros w f HL; cbn [polls]; [constructor|].
  destruct (poll f w) as [[f' r] l] eqn:E.
  destruct (live_poll _ _ _ _ _ HL E) as (N & O & P).
  constructor.
  - cbn. split; [assumption|]. split; [assumption|]. intros Er. now destruct (P Er).
  - destruct r; try constructor. apply IH. now destruct (P eq_refl).
Qed.

Lemma drive_polls : forall n w f,
  snd (drive n w f) = concat (map (fun x : nat * pres * list event => snd x) (polls n w f)).
Proof.
  induction n as [|n IH]; intros w f; cbn [drive polls]; [reflexivity|].
  destruct (poll f w) as [[f' r] l] eqn:E.
  destruct r; cbn; try (now rewrite app_nil_r).
  specialize (IH (S w) f'). destruct (drive n (S w) f') as [[r2 c] l2]. cbn in *. now rewrite IH.
Qed.

(* ------------------------------------------------------------------------------------------ *)
(* Futures: value and order                                                                    *)
(* ------------------------------------------------------------------------------------------ *)
(* f, polled with wakers w, w+1, ..., answers Pending k times, then Ready r; L is the whole log *)
Inductive Run : sfut -> nat -> nat -> res -> list event -> Prop :=
| RunDone f w f' r l : poll f w = (f', PReady r, l) -> Run f w 0 r l
| RunStep f w f' l k r L :
    poll f w = (f', PPending, l) -> Run f' (S w) k r L -> Run f w (S k) r (l ++ L).

Lemma drive_of_Run : forall f w k r L, Run f w k r L ->
  forall n, k < n -> drive n w f = (PReady r, S k, L).
Proof.
  induction 1 as [f w f' r l H|f w f' l k r L H HR IH]; intros n Hn;
    (destruct n as [|n]; [lia|]); cbn [drive]; rewrite H.
  - reflexivity.
  - rewrite (IH n) by lia. reflexivity.
Qed.

Lemma Run_leaf : forall k id out w,
  exists L, Run (FLeaf id k out false) w k out L /\ proj L = [SDone id out].
Proof.
  induction k as [|k IH]; intros id out w.
  - eexists. split; [eapply RunDone; reflexivity|reflexivity].
  - destruct (IH id out (S w)) as (L & HR & HP).
    eexists. split; [eapply RunStep; [reflexivity|exact HR]|]. exact HP.
Qed.

Definition map_ok_res (m : mapper) (r : res) : res := match r with Ok v => Ok (app_m m v) | Err x => Err x end.
Definition map_er_res (m : mapper) (r : res) : res := match r with Ok v => Ok v | Err x => Err (app_m m x) end.

Lemma Run_mapok : forall kd m f w k r L, Run f w k r L ->
  Run (FMapOk kd m f) w k (map_ok_res m r)
      (L ++ match r with Ok v => [EvMap kd m v] | Err _ => [] end).
Proof.
  induction 1 as [f w f' r l H|f w f' l k r L H HR IH].
  - eapply RunDone. cbn [poll]. rewrite H. destruct r; cbn; [reflexivity|now rewrite app_nil_r].
  - rewrite <- app_assoc. eapply RunStep; [|exact IH]. cbn [poll]. now rewrite H.
Qed.

Lemma Run_maper : forall kd m f w k r L, Run f w k r L ->
  Run (FMapEr kd m f) w k (map_er_res m r)
      (L ++ match r with Ok _ => [] | Err x => [EvMap kd m x] end).
Proof.
  induction 1 as [f w f' r l H|f w f' l k r L H HR IH].
  - eapply RunDone. cbn [poll]. rewrite H. destruct r; cbn; [now rewrite app_nil_r|reflexivity].
  - rewrite <- app_assoc. eapply RunStep; [|exact IH]. cbn [poll]. now rewrite H.
Qed.

Lemma Run_andB : forall f w k r L, Run f w k r L -> Run (FAndB f) w k r L.
Proof.
  induction 1 as [f w f' r l H|f w f' l k r L H HR IH].
  - eapply RunDone. cbn [poll]. now rewrite H.
  - eapply RunStep; [|exact IH]. cbn [poll]. now rewrite H.
Qed.

Lemma Run_andA_err : forall kb kev f w k x L, Run f w k (Err x) L ->
  Run (FAndA f kb kev) w k (Err x) L.
Proof.
  intros kb kev f w k x L H. remember (Err x) as r eqn:Er.
  induction H as [f w f' r l H|f w f' l k r L H HR IH]; subst.
  - eapply RunDone. cbn [poll]. now rewrite H.
  - eapply RunStep; [|now apply IH]. cbn [poll]. now rewrite H.
Qed.

Lemma Run_andA_ok : forall kb kev f w ka v La, Run f w ka (Ok v) La ->
  forall k2 r Lb, Run (kb v) (w + ka) k2 r Lb ->
  Run (FAndA f kb kev) w (ka + k2) r (La ++ kev v ++ Lb).
Proof.
  intros kb kev f w ka v La H. remember (Ok v) as r0 eqn:Er.
  induction H as [f w f' r1 l H|f w f' l k r1 L H HR IH]; subst; intros k2 r Lb HB.
  - rewrite Nat.add_0_r in HB. cbn [Nat.add].
    inversion HB as [g w0 g' r2 l2 HP|g w0 g' l2 k3 r2 L2 HP HR2]; subst.
    + eapply RunDone. cbn [poll]. rewrite H, HP. reflexivity.
    + rewrite !app_assoc. eapply RunStep; [|apply Run_andB; exact HR2].
      cbn [poll]. rewrite H, HP. now rewrite <- app_assoc.
  - cbn [Nat.add]. rewrite <- app_assoc. eapply RunStep; [cbn [poll]; now rewrite H|].
    apply IH; [reflexivity|]. now rewrite <- Nat.add_succ_comm in HB.
Qed.

Lemma proj_app : forall a b, proj (a ++ b) = proj a ++ proj b.
Proof. intros. unfold proj. apply flat_map_app. Qed.

(* main refinement lemma: value, number of polls, and the projected log *)
Lemma call_Run : forall e req w,
  exists L, Run (call_fut e req) w (delay e req) (denote e req) L
            /\ proj (call_evs e req ++ L) = sem e req.
Proof.
  induction e as [id rs beh|id beh|a IHa b IHb|m a IHa|m a IHa|wf a IHa|k a IHa]; intros req w;
    cbn [call_fut call_evs delay denote sem].
  - destruct (Run_leaf (fst (beh req)) id (snd (beh req)) w) as (L & HR & HP).
    exists L. split; [exact HR|]. rewrite proj_app, HP. reflexivity.
  - destruct (Run_leaf (fst (beh req)) id (snd (beh req)) w) as (L & HR & HP).
    exists L. split; [exact HR|]. rewrite proj_app, HP. reflexivity.
  - destruct (IHa req w) as (La & HRa & HPa).
    destruct (denote a req) as [v|x] eqn:Da.
    + destruct (IHb v (w + delay a req)) as (Lb & HRb & HPb).
      exists (La ++ call_evs b v ++ Lb). split.
      * now apply Run_andA_ok.
      * rewrite app_assoc, proj_app, HPa, HPb. reflexivity.
    + exists La. split.
      * rewrite Nat.add_0_r. now apply Run_andA_err.
      * rewrite HPa. now rewrite app_nil_r.
  - destruct (IHa req w) as (La & HRa & HPa).
    eexists. split; [apply (Run_mapok KOk m _ _ _ _ _ HRa)|].
    rewrite app_assoc, proj_app, HPa. destruct (denote a req); reflexivity.
  - destruct (IHa req w) as (La & HRa & HPa).
    eexists. split; [apply (Run_maper KErr m _ _ _ _ _ HRa)|].
    rewrite app_assoc, proj_app, HPa. destruct (denote a req); reflexivity.
  - destruct wf as [pre post|r].
    + destruct (IHa (app_m pre req) w) as (La & HRa & HPa).
      eexists. split; [apply (Run_mapok KPost post _ _ _ _ _ HRa)|].
      rewrite <- app_comm_cons.
      change (proj (EvMap KPre pre req :: ?X)) with (SMap KPre pre req :: proj X).
      rewrite app_assoc, proj_app, HPa.
      destruct (denote a (app_m pre req)); reflexivity.
    + exists []. split; [eapply RunDone; reflexivity|reflexivity].
  - apply IHa.
Qed.

(* ------------------------------------------------------------------------------------------ *)
(* Statements used by Props/C11.v and Props/C12.v (service level)                              *)
(* ------------------------------------------------------------------------------------------ *)
Lemma run_call_spec : forall e req w n, delay e req < n ->
  exists L, run_call n w e req = (PReady (denote e req), S (delay e req), L) /\ proj L = sem e req.
Proof.
  intros e req w n Hn. destruct (call_Run e req w) as (L & HR & HP).
  exists (call_evs e req ++ L). split; [|exact HP].
  unfold run_call. now rewrite (drive_of_Run _ _ _ _ _ HR n Hn).
Qed.

Lemma run_call_value : forall e req w n, delay e req < n ->
  fst (run_call n w e req) = (PReady (denote e req), S (delay e req)).
Proof. intros e req w n Hn. destruct (run_call_spec e req w n Hn) as (L & -> & _). reflexivity. Qed.

Lemma run_call_order : forall e req w n, delay e req < n ->
  proj (snd (run_call n w e req)) = sem e req.
Proof. intros e req w n Hn. destruct (run_call_spec e req w n Hn) as (L & -> & HP). exact HP. Qed.

Lemma call_polls_good : forall e req n w, Forall good_poll (polls n w (call_fut e req)).
Proof. intros. apply polls_live, live_call. Qed.

Lemma run_call_log : forall n w e req,
  snd (run_call n w e req)
  = call_evs e req ++ concat (map (fun x : nat * pres * list event => snd x) (polls n w (call_fut e req))).
Proof.
  intros. unfold run_call. rewrite <- drive_polls.
  destruct (drive n w (call_fut e req)) as [[r c] l]. reflexivity.
Qed.

Lemma ready_pending_has_pending : forall e w e' l,
  poll_ready e w = (e', RPending, l) -> exists id ms, In (id, RPending, ms) (leaves e).
Proof.
  intros e w e' l H. destruct (poll_ready_spec _ _ _ _ _ H) as [E _].
  now apply conj_ready_pending_ex.
Qed.

Lemma ready_err_first : forall e w e' x l,
  poll_ready e w = (e', RErr x, l) ->
  exists pre id e0 ms post,
    leaves e = pre ++ (id, RErr e0, ms) :: post
    /\ Forall (fun y : leaf_t => is_rerr (snd (fst y)) = false) pre
    /\ x = fold_left (fun v m => app_m m v) ms e0
    /\ ready_evs l = map (ev_of w) (pre ++ [(id, RErr e0, ms)]).
Proof.
  intros e w e' x l H. destruct (poll_ready_spec _ _ _ _ _ H) as [E L].
  destruct (conj_ready_err_split _ _ (eq_sym E)) as (pre & id & e0 & ms & post & Hl & Hp & Hx & Hq).
  exists pre, id, e0, ms, post. repeat split; try assumption.
  - apply Forall_forall. intros y Hy.
    destruct (is_rerr (snd (fst y))) eqn:Ey; [|reflexivity].
    assert (HT : has_err pre = true) by (unfold has_err; apply existsb_exists; eauto).
    rewrite HT in Hp. discriminate.
  - now rewrite L, Hq.
Qed.

(* ============================================================================================ *)
(* Factory level                                                                                *)
(* ============================================================================================ *)

(* ---- facts about poll_ready needed by apply_cfg_factory's readiness wait ---- *)
Lemma poll_ready_indep : forall e w, fst (poll_ready e w) = fst (poll_ready e 0).
Proof.
  induction e as [id rs beh|id beh|a IHa b IHb|m a IHa|m a IHa|wf a IHa|k a IHa]; intros w;
    cbn [poll_ready].
  - destruct rs; reflexivity.
  - reflexivity.
  - specialize (IHa w). specialize (IHb w).
    destruct (poll_ready a w) as [[a1 r1] l1], (poll_ready a 0) as [[a0 r0] l0].
    cbn in IHa. inversion IHa; subst.
    destruct (poll_ready b w) as [[b1 s1] m1], (poll_ready b 0) as [[b0 s0] m0].
    cbn in IHb. inversion IHb; subst.
    destruct r0; try reflexivity; destruct s0; reflexivity.
  - specialize (IHa w). destruct (poll_ready a w) as [[a1 r1] l1], (poll_ready a 0) as [[a0 r0] l0].
    cbn in IHa. inversion IHa; subst. reflexivity.
  - specialize (IHa w). destruct (poll_ready a w) as [[a1 r1] l1], (poll_ready a 0) as [[a0 r0] l0].
    cbn in IHa. inversion IHa; subst. destruct (map_rerr m r0). reflexivity.
  - specialize (IHa w). destruct (poll_ready a w) as [[a1 r1] l1], (poll_ready a 0) as [[a0 r0] l0].
    cbn in IHa. inversion IHa; subst. reflexivity.
  - specialize (IHa w). destruct (poll_ready a w) as [[a1 r1] l1], (poll_ready a 0) as [[a0 r0] l0].
    cbn in IHa. inversion IHa; subst. reflexivity.
Qed.

Lemma poll_ready_len : forall e w e' r l,
  poll_ready e w = (e', r, l) ->
  script_len e' <= script_len e /\ (r = RPending -> script_len e' < script_len e).
Proof.
  induction e as [id rs beh|id beh|a IHa b IHb|m a IHa|m a IHa|wf a IHa|k a IHa];
    intros w e' r l H; cbn [poll_ready] in H.
  - destruct rs as [|x rs]; inversion H; subst; cbn; split; try lia; discriminate.
  - inversion H; subst. split; [lia|discriminate].
  - destruct (poll_ready a w) as [[a' ra] la] eqn:Ea. destruct (IHa _ _ _ _ Ea) as [A1 A2].
    destruct ra as [| |x].
    + destruct (poll_ready b w) as [[b' rb] lb] eqn:Eb. destruct (IHb _ _ _ _ Eb) as [B1 B2].
      specialize (A2 eq_refl). destruct rb; inversion H; subst; cbn; split; try lia; discriminate.
    + destruct (poll_ready b w) as [[b' rb] lb] eqn:Eb. destruct (IHb _ _ _ _ Eb) as [B1 B2].
      destruct rb; inversion H; subst; cbn; split; try lia; try discriminate.
      intros _. specialize (B2 eq_refl). lia.
    + inversion H; subst. cbn. split; [lia|discriminate].
  - destruct (poll_ready a w) as [[a' ra] la] eqn:Ea. inversion H; subst. cbn. eauto.
  - destruct (poll_ready a w) as [[a' ra] la] eqn:Ea. destruct (IHa _ _ _ _ Ea) as [A1 A2].
    destruct (map_rerr m ra) as [r' lm] eqn:Em. inversion H; subst. cbn. split; [assumption|].
    intros ->. apply A2. destruct ra; cbn in Em; inversion Em; reflexivity.
  - destruct (poll_ready a w) as [[a' ra] la] eqn:Ea. inversion H; subst. cbn. eauto.
  - destruct (poll_ready a w) as [[a' ra] la] eqn:Ea. inversion H; subst. cbn. eauto.
Qed.

Lemma poll_ready_fokev : forall e w e' r l, poll_ready e w = (e', r, l) -> Forall (fokev w) l.
Proof.
  induction e as [id rs beh|id beh|a IHa b IHb|m a IHa|m a IHa|wf a IHa|k a IHa];
    intros w e' r l H; cbn [poll_ready] in H.
  - destruct rs; inversion H; subst; repeat constructor.
  - inversion H; subst. constructor.
  - destruct (poll_ready a w) as [[a' ra] la] eqn:Ea. pose proof (IHa _ _ _ _ Ea) as A.
    destruct ra as [| |x]; [| |inversion H; subst; assumption];
      destruct (poll_ready b w) as [[b' rb] lb] eqn:Eb; pose proof (IHb _ _ _ _ Eb) as B;
      destruct rb; inversion H; subst; apply Forall_app; auto.
  - destruct (poll_ready a w) as [[a' ra] la] eqn:Ea. inversion H; subst. eauto.
  - destruct (poll_ready a w) as [[a' ra] la] eqn:Ea. pose proof (IHa _ _ _ _ Ea) as A.
    destruct (map_rerr m ra) as [r' lm] eqn:Em. inversion H; subst.
    apply Forall_app; split; [assumption|].
    destruct ra; cbn in Em; inversion Em; subst; repeat constructor.
  - destruct (poll_ready a w) as [[a' ra] la] eqn:Ea. inversion H; subst. eauto.
  - destruct (poll_ready a w) as [[a' ra] la] eqn:Ea. inversion H; subst. eauto.
Qed.

Lemma wait_ready_enough : forall n e, script_len e < n ->
  snd (fst (wait_ready n e)) <> RPending.
Proof.
  induction n as [|n IH]; intros e Hn; [lia|]. cbn [wait_ready].
  destruct (poll_ready e 0) as [[e' r] l] eqn:E.
  destruct (poll_ready_len _ _ _ _ _ E) as [L1 L2].
  destruct r; cbn; try discriminate.
  specialize (IH e'). destruct (wait_ready n e') as [[k r2] e2]. cbn in *.
  apply IH. specialize (L2 eq_refl). lia.
Qed.

(* ---- liveness invariant of factory futures ---- *)
Definition newtev (ev : event) : Prop :=
  match ev with EvNewT _ | EvCfgFn _ _ | EvMap _ _ _ => True | _ => False end.

Fixpoint flive (f : ffut) : Prop :=
  match f with
  | FFLeaf _ _ _ done => done = false
  | FFReady v => v <> None
  | FFAnd fa fb a b => (a = None -> flive fa) /\ (b = None -> flive fb)
  | FFMapSvc _ st fut => st <> OptNone /\ flive fut
  | FFMapInitErr _ _ fut => flive fut
  | FFBox fut done => done = false /\ flive fut
  | FFTrA fut kt kev => flive fut /\ (forall s, flive (kt s)) /\ (forall s, Forall newtev (kev s))
  | FFTrB fut => flive fut
  | FFCfgA fut cfg kc kev =>
      flive fut /\ cfg <> None /\ (forall c s, flive (kc c s)) /\ (forall c s, Forall newtev (kev c s))
  | FFCfgB _ cfg kc kev =>
      cfg <> None /\ (forall c s, flive (kc c s)) /\ (forall c s, Forall newtev (kev c s))
  | FFCfgC fut => flive fut
  end.

Lemma newtev_fokev : forall w l, Forall newtev l -> Forall (fokev w) l.
Proof.
  intros w l H. eapply Forall_impl; [|exact H]. intros [] Hc; cbn in *; auto; contradiction.
Qed.

Lemma has_pending_app_l : forall w a b, has_pending w a -> has_pending w (a ++ b).
Proof. intros w a b [id [H|H]]; exists id; [left|right]; apply in_or_app; auto. Qed.
Lemma has_pending_app_r : forall w a b, has_pending w b -> has_pending w (a ++ b).
Proof. intros w a b [id [H|H]]; exists id; [left|right]; apply in_or_app; auto. Qed.

Lemma ready_pending_has_event : forall s w s' l,
  poll_ready s w = (s', RPending, l) -> has_pending w l.
Proof.
  intros s w s' l H. destruct (ready_pending_has_pending _ _ _ _ H) as (id & ms & Hin).
  exists id. right. eapply ready_pending_waker; eauto.
Qed.

(* the B step of apply_cfg_factory, shared by the A and B cases *)
Lemma flive_cfgB : forall s cfg kc kev w f' r l,
  (forall c s0 w0 f0 r0 l0, flive (kc c s0) -> fpoll (kc c s0) w0 = (f0, r0, l0) ->
     r0 <> IPanic /\ Forall (fokev w0) l0 /\ (r0 = IPending -> flive f0 /\ has_pending w0 l0)) ->
  flive (FFCfgB s cfg kc kev) -> fpoll (FFCfgB s cfg kc kev) w = (f', r, l) ->
  r <> IPanic /\ Forall (fokev w) l /\ (r = IPending -> flive f' /\ has_pending w l).
Proof.
  intros s cfg kc kev w f' r l IHk (HC & HK & HE) H. cbn [fpoll] in H.
  destruct (poll_ready s w) as [[s' rr] lr] eqn:Er.
  pose proof (poll_ready_fokev _ _ _ _ _ Er) as Ok1.
  destruct rr as [| |x].
  - inversion H; subst. split; [discriminate|]. split; [assumption|]. intros _.
    split; [cbn [flive]; auto|]. eapply ready_pending_has_event; eauto.
  - destruct cfg as [c|]; [|contradiction].
    destruct (fpoll (kc c s') w) as [[fc' r3] l3] eqn:E3.
    destruct (IHk _ _ _ _ _ _ (HK c s') E3) as (N3 & O3 & P3).
    inversion H; subst. split; [assumption|]. split.
    + apply Forall_app; split; [assumption|]. apply Forall_app; split; [|assumption].
      apply newtev_fokev, HE.
    + intros E. destruct (P3 E) as [L3 HP]. split; [exact L3|].
      apply has_pending_app_r, has_pending_app_r, HP.
  - inversion H; subst. split; [discriminate|]. split; [assumption|discriminate].
Qed.

Lemma flive_poll : forall f w f' r l,
  flive f -> fpoll f w = (f', r, l) ->
  r <> IPanic /\ Forall (fokev w) l /\ (r = IPending -> flive f' /\ has_pending w l).
Proof.
  induction f as [id k out done|v|fa IHa fb IHb a b|sw st fut IH|kd m fut IH|fut IH done
                  |fut IH kt IHk kev|fut IH|fut IH cfg kc IHk kev|s cfg kc IHk kev|fut IH];
    intros w f' r l HL H.
  - cbn [fpoll flive] in *. subst done.
    destruct k; inversion H; subst; (split; [discriminate|]); (split; [repeat constructor|]);
      intros E; try discriminate.
    split; [reflexivity|]. exists id. left. now left.
  - cbn [fpoll flive] in *. destruct v as [x|]; [|contradiction]. inversion H; subst.
    split; [discriminate|]. split; [constructor|discriminate].
  - cbn [flive] in HL. destruct HL as [HA HB]. cbn [fpoll] in H.
    destruct a as [sa|].
    + (* a already there *)
      destruct b as [sb|].
      * inversion H; subst. split; [discriminate|]. split; [constructor|discriminate].
      * destruct (fpoll fb w) as [[fb' rb] lb] eqn:Eb.
        destruct (IHb _ _ _ _ (HB eq_refl) Eb) as (N & O & P).
        destruct rb as [|[sb|e]|]; inversion H; subst; cbn [app].
        -- split; [discriminate|]. split; [assumption|]. intros _.
           destruct (P eq_refl) as [L HP]. split; [|assumption]. cbn [flive]. split; [discriminate|auto].
        -- split; [discriminate|]. split; [assumption|discriminate].
        -- split; [discriminate|]. split; [assumption|discriminate].
        -- contradiction.
    + destruct (fpoll fa w) as [[fa' ra] la] eqn:Ea.
      destruct (IHa _ _ _ _ (HA eq_refl) Ea) as (NA & OA & PA).
      destruct ra as [|[sa|e]|].
      * (* a pending *)
        destruct b as [sb|].
        -- inversion H; subst. rewrite app_nil_r. split; [discriminate|]. split; [assumption|].
           intros _. destruct (PA eq_refl) as [L HP]. split; [|assumption].
           cbn [flive]. split; [auto|discriminate].
        -- destruct (fpoll fb w) as [[fb' rb] lb] eqn:Eb.
           destruct (IHb _ _ _ _ (HB eq_refl) Eb) as (N & O & P).
           destruct (PA eq_refl) as [LA HPA].
           destruct rb as [|[sb|e]|]; inversion H; subst.
           ++ split; [discriminate|]. split; [apply Forall_app; auto|]. intros _.
              destruct (P eq_refl) as [LB HPB]. split; [cbn [flive]; auto|].
              now apply has_pending_app_l.
           ++ split; [discriminate|]. split; [apply Forall_app; auto|]. intros _.
              split; [cbn [flive]; split; [auto|discriminate]|]. now apply has_pending_app_l.
           ++ split; [discriminate|]. split; [apply Forall_app; auto|discriminate].
           ++ contradiction.
      * (* a ready with a service *)
        destruct b as [sb|].
        -- inversion H; subst. rewrite app_nil_r. split; [discriminate|]. split; [assumption|discriminate].
        -- destruct (fpoll fb w) as [[fb' rb] lb] eqn:Eb.
           destruct (IHb _ _ _ _ (HB eq_refl) Eb) as (N & O & P).
           destruct rb as [|[sb|e]|]; inversion H; subst.
           ++ split; [discriminate|]. split; [apply Forall_app; auto|]. intros _.
              destruct (P eq_refl) as [LB HPB]. split; [cbn [flive]; split; [discriminate|auto]|].
              now apply has_pending_app_r.
           ++ split; [discriminate|]. split; [apply Forall_app; auto|discriminate].
           ++ split; [discriminate|]. split; [apply Forall_app; auto|discriminate].
           ++ contradiction.
      * inversion H; subst. split; [discriminate|]. split; [assumption|discriminate].
      * contradiction.
  - cbn [flive] in HL. destruct HL as [HS HF]. cbn [fpoll] in H.
    destruct (fpoll fut w) as [[fut' r1] l1] eqn:E1.
    destruct (IH _ _ _ _ HF E1) as (N1 & O1 & P1).
    destruct r1 as [|[s|e]|].
    + inversion H; subst. split; [discriminate|]. split; [assumption|]. intros _.
      destruct (P1 eq_refl). cbn [flive]. auto.
    + destruct st; [| contradiction |]; inversion H; subst;
        (split; [discriminate|]); (split; [assumption|discriminate]).
    + inversion H; subst. split; [discriminate|]. split; [assumption|discriminate].
    + contradiction.
  - cbn [flive] in HL. cbn [fpoll] in H.
    destruct (fpoll fut w) as [[fut' r1] l1] eqn:E1.
    destruct (IH _ _ _ _ HL E1) as (N1 & O1 & P1).
    destruct r1 as [|ir|].
    + inversion H; subst. split; [discriminate|]. split; [assumption|]. intros _.
      destruct (P1 eq_refl). cbn [flive]. auto.
    + destruct (map_ierr kd m ir) as [ir' lm] eqn:Em. inversion H; subst.
      split; [discriminate|]. split; [|discriminate].
      apply Forall_app; split; [assumption|].
      destruct ir; cbn in Em; inversion Em; subst; repeat constructor.
    + contradiction.
  - cbn [flive] in HL. destruct HL as [-> HF]. cbn [fpoll] in H.
    destruct (fpoll fut w) as [[fut' r1] l1] eqn:E1.
    destruct (IH _ _ _ _ HF E1) as (N1 & O1 & P1).
    destruct r1 as [|[s|e]|]; inversion H; subst; try contradiction.
    + split; [discriminate|]. split; [assumption|]. intros _.
      destruct (P1 eq_refl). cbn [flive]. auto.
    + split; [discriminate|]. split; [assumption|discriminate].
    + split; [discriminate|]. split; [assumption|discriminate].
  - cbn [flive] in HL. destruct HL as (HF & HK & HE). cbn [fpoll] in H.
    destruct (fpoll fut w) as [[fut' r1] l1] eqn:E1.
    destruct (IH _ _ _ _ HF E1) as (N1 & O1 & P1).
    destruct r1 as [|[s|e]|].
    + inversion H; subst. split; [discriminate|]. split; [assumption|]. intros _.
      destruct (P1 eq_refl). cbn [flive]. auto.
    + destruct (fpoll (kt s) w) as [[ft' r2] l2] eqn:E2.
      destruct (IHk s _ _ _ _ (HK s) E2) as (N2 & O2 & P2).
      inversion H; subst. split; [assumption|]. split.
      * apply Forall_app; split; [assumption|]. apply Forall_app; split; [|assumption].
        apply newtev_fokev, HE.
      * intros E. destruct (P2 E) as [L2 HP]. split; [exact L2|].
        apply has_pending_app_r, has_pending_app_r, HP.
    + inversion H; subst. split; [discriminate|]. split; [assumption|discriminate].
    + contradiction.
  - cbn [flive] in HL. cbn [fpoll] in H.
    destruct (fpoll fut w) as [[fut' r1] l1] eqn:E1.
    destruct (IH _ _ _ _ HL E1) as (N1 & O1 & P1). inversion H; subst. auto.
  - (* FFCfgA *)
    cbn [flive] in HL. destruct HL as (HF & HC & HK & HE).
    assert (IHk' : forall c s0 w0 f0 r0 l0, flive (kc c s0) -> fpoll (kc c s0) w0 = (f0, r0, l0) ->
       r0 <> IPanic /\ Forall (fokev w0) l0 /\ (r0 = IPending -> flive f0 /\ has_pending w0 l0))
      by (intros; eapply IHk; eauto).
    cbn [fpoll] in H.
    destruct (fpoll fut w) as [[fut' r1] l1] eqn:E1.
    destruct (IH _ _ _ _ HF E1) as (N1 & O1 & P1).
    destruct r1 as [|[s|e]|].
    + inversion H; subst. split; [discriminate|]. split; [assumption|]. intros _.
      destruct (P1 eq_refl). cbn [flive]. auto.
    + (* same as a poll of state B, with l1 in front *)
      assert (HB : flive (FFCfgB s cfg kc kev)) by (cbn [flive]; auto).
      destruct (fpoll (FFCfgB s cfg kc kev) w) as [[fB rB] lB] eqn:EB.
      destruct (flive_cfgB _ _ _ _ _ _ _ _ IHk' HB EB) as (NB & OB & PB).
      cbn [fpoll] in EB.
      destruct (poll_ready s w) as [[s' rr] lr] eqn:Er.
      destruct rr as [| |x].
      * inversion EB; subst. inversion H; subst. split; [discriminate|].
        split; [apply Forall_app; auto|]. intros _. destruct (PB eq_refl) as [LB HP].
        split; [assumption|]. now apply has_pending_app_r.
      * destruct cfg as [c|]; [|contradiction].
        destruct (fpoll (kc c s') w) as [[fc' r3] l3] eqn:E3.
        inversion EB; subst. inversion H; subst. split; [assumption|].
        split; [apply Forall_app; auto|]. intros E. destruct (PB E) as [LB HP].
        split; [assumption|]. now apply has_pending_app_r.
      * inversion EB; subst. inversion H; subst. split; [discriminate|].
        split; [apply Forall_app; auto|discriminate].
    + inversion H; subst. split; [discriminate|]. split; [assumption|discriminate].
    + contradiction.
  - eapply flive_cfgB; [intros; eapply IHk; eauto|eauto|eauto].
  - cbn [flive] in HL. cbn [fpoll] in H.
    destruct (fpoll fut w) as [[fut' r1] l1] eqn:E1.
    destruct (IH _ _ _ _ HL E1) as (N1 & O1 & P1). inversion H; subst. auto.
Qed.

Lemma new_evs_newtev_tr : forall t s, flive (tr_fut t s).
Proof. intros t s. unfold tr_fut. destruct (t_mie t); reflexivity. Qed.

Lemma flive_new : forall f c, flive (new_fut f c).
Proof.
  induction f as [id k beh|id beh|a IHa b IHb|sw a IHa|m a IHa|m a IHa|a IHa|s cs|a IHa cs|t a IHa|k a IHa];
    intros c; cbn [new_fut flive]; auto.
  - discriminate.
  - split; [destruct sw; discriminate|apply IHa].
  - split; [apply IHa|]. split; [discriminate|]. split; [reflexivity|].
    intros; repeat constructor.
  - split; [apply IHa|]. split; [apply new_evs_newtev_tr|]. intros; repeat constructor.
  - destruct k; cbn [flive]; auto.
Qed.

Lemma fpolls_live : forall n w f, flive f -> Forall fgood_poll (fpolls n w f).
Proof.
  induction n as [|n IH]; intros w f HL; cbn [fpolls]; [constructor|].
  destruct (fpoll f w) as [[f' r] l] eqn:E.
  destruct (flive_poll _ _ _ _ _ HL E) as (N & O & P).
  constructor.
  - cbn. split; [assumption|]. split; [assumption|]. intros Er. now destruct (P Er).
  - destruct r; try constructor. apply IH. now destruct (P eq_refl).
Qed.

Lemma fdrive_fpolls : forall n w f,
  snd (fdrive n w f) = concat (map (fun x : nat * ipres * list event => snd x) (fpolls n w f)).
Proof.
  induction n as [|n IH]; intros w f; cbn [fdrive fpolls]; [reflexivity|].
  destruct (fpoll f w) as [[f' r] l] eqn:E.
  destruct r; cbn; try (now rewrite app_nil_r).
  specialize (IH (S w) f'). destruct (fdrive n (S w) f') as [[r2 c] l2]. cbn in *. now rewrite IH.
Qed.

(* ---- value: f, polled with wakers w, w+1, ..., answers Pending k times and then Ready r ---- *)
Inductive FRun : ffut -> nat -> nat -> ires -> Prop :=
| FRunDone f w f' r l : fpoll f w = (f', IReady r, l) -> FRun f w 0 r
| FRunStep f w f' l k r : fpoll f w = (f', IPending, l) -> FRun f' (S w) k r -> FRun f w (S k) r.

Lemma fdrive_of_FRun : forall f w k r, FRun f w k r ->
  forall n, k < n -> fst (fdrive n w f) = (IReady r, S k).
Proof.
  induction 1 as [f w f' r l H|f w f' l k r H HR IH]; intros n Hn;
    (destruct n as [|n]; [lia|]); cbn [fdrive]; rewrite H.
  - reflexivity.
  - specialize (IH n ltac:(lia)). destruct (fdrive n (S w) f') as [[r2 c] l2]. cbn in *.
    now inversion IH.
Qed.

Lemma FRun_leaf : forall k id out w, FRun (FFLeaf id k out false) w k out.
Proof.
  induction k as [|k IH]; intros id out w.
  - eapply FRunDone. reflexivity.
  - eapply FRunStep; [reflexivity|apply IH].
Qed.

Lemma FRun_mapsvc : forall sw st f w k r, st <> OptNone -> FRun f w k r ->
  FRun (FFMapSvc sw st f) w k (imap (sw_app sw) r).
Proof.
  intros sw st f w k r Hs H. induction H as [f w f' r l H|f w f' l k r H HR IH].
  - destruct r as [s|e]; destruct st; try contradiction;
      eapply FRunDone; cbn [fpoll]; rewrite H; reflexivity.
  - eapply FRunStep; [|exact IH]. cbn [fpoll]. now rewrite H.
Qed.

Lemma FRun_mie : forall kd m f w k r, FRun f w k r -> FRun (FFMapInitErr kd m f) w k (imap_err m r).
Proof.
  intros kd m f w k r H. induction H as [f w f' r l H|f w f' l k r H HR IH].
  - destruct r as [s|e]; eapply FRunDone; cbn [fpoll]; rewrite H; reflexivity.
  - eapply FRunStep; [|exact IH]. cbn [fpoll]. now rewrite H.
Qed.

Lemma FRun_box : forall f w k r, FRun f w k r -> FRun (FFBox f false) w k (imap (Wrap WBoxed) r).
Proof.
  intros f w k r H. induction H as [f w f' r l H|f w f' l k r H HR IH].
  - destruct r as [s|e]; eapply FRunDone; cbn [fpoll]; rewrite H; reflexivity.
  - eapply FRunStep; [|exact IH]. cbn [fpoll]. now rewrite H.
Qed.

Lemma FRun_trB : forall f w k r, FRun f w k r -> FRun (FFTrB f) w k r.
Proof.
  intros f w k r H. induction H as [f w f' r l H|f w f' l k r H HR IH].
  - eapply FRunDone. cbn [fpoll]. now rewrite H.
  - eapply FRunStep; [|exact IH]. cbn [fpoll]. now rewrite H.
Qed.

Lemma FRun_trA_err : forall kt kev f w k e, FRun f w k (IErr e) -> FRun (FFTrA f kt kev) w k (IErr e).
Proof.
  intros kt kev f w k e H. remember (IErr e) as r eqn:Er.
  induction H as [f w f' r l H|f w f' l k r H HR IH]; subst.
  - eapply FRunDone. cbn [fpoll]. now rewrite H.
  - eapply FRunStep; [|now apply IH]. cbn [fpoll]. now rewrite H.
Qed.

Lemma FRun_trA_ok : forall kt kev f w ka s, FRun f w ka (IOk s) ->
  forall k2 r, FRun (kt s) (w + ka) k2 r -> FRun (FFTrA f kt kev) w (ka + k2) r.
Proof.
  intros kt kev f w ka s H. remember (IOk s) as r0 eqn:Er.
  induction H as [f w f' r1 l H|f w f' l k r1 H HR IH]; subst; intros k2 r HB.
  - rewrite Nat.add_0_r in HB. cbn [Nat.add].
    inversion HB as [g w0 g' r2 l2 HP|g w0 g' l2 k3 r2 HP HR2]; subst.
    + eapply FRunDone. cbn [fpoll]. rewrite H, HP. reflexivity.
    + eapply FRunStep; [|apply FRun_trB; exact HR2]. cbn [fpoll]. rewrite H, HP. reflexivity.
  - cbn [Nat.add]. eapply FRunStep; [cbn [fpoll]; now rewrite H|].
    apply IH; [reflexivity|]. now rewrite <- Nat.add_succ_comm in HB.
Qed.

Lemma FRun_cfgC : forall f w k r, FRun f w k r -> FRun (FFCfgC f) w k r.
Proof.
  intros f w k r H. induction H as [f w f' r l H|f w f' l k r H HR IH].
  - eapply FRunDone. cbn [fpoll]. now rewrite H.
  - eapply FRunStep; [|exact IH]. cbn [fpoll]. now rewrite H.
Qed.

Lemma poll_ready_at : forall e w,
  exists l, poll_ready e w = (fst (fst (poll_ready e 0)), snd (fst (poll_ready e 0)), l).
Proof.
  intros e w. pose proof (poll_ready_indep e w) as H.
  destruct (poll_ready e w) as [[e1 r1] l1]. exists l1. cbn in H. rewrite <- H. reflexivity.
Qed.

(* the readiness wait of state B followed by the configure future *)
Lemma FRun_cfgB : forall kc kev c n s w kr rr s',
  wait_ready n s = (kr, rr, s') -> rr <> RPending ->
  match rr with
  | RErr e => FRun (FFCfgB s (Some c) kc kev) w kr (IErr e)
  | _ => forall k2 r, FRun (kc c s') (w + kr) k2 r -> FRun (FFCfgB s (Some c) kc kev) w (kr + k2) r
  end.
Proof.
  intros kc kev c. induction n as [|n IH]; intros s w kr rr s' HW HN; cbn [wait_ready] in HW.
  - inversion HW; subst. contradiction.
  - destruct (poll_ready_at s w) as (lw & Ew).
    destruct (poll_ready s 0) as [[e0 r0] l0] eqn:E0. cbn [fst snd] in Ew.
    destruct r0 as [| |x].
    + destruct (wait_ready n e0) as [[k r2] e2] eqn:EW. inversion HW; subst.
      specialize (IH e0 (S w) k rr s' EW HN).
      destruct rr as [| |x]; [contradiction| |].
      * intros k2 r HR. cbn [Nat.add]. eapply FRunStep; [cbn [fpoll]; rewrite Ew; reflexivity|].
        apply IH. now rewrite <- Nat.add_succ_comm in HR.
      * eapply FRunStep; [cbn [fpoll]; rewrite Ew; reflexivity|exact IH].
    + inversion HW; subst. intros k2 r HR. rewrite Nat.add_0_r in HR. cbn [Nat.add].
      inversion HR as [g w0 g' r2 l2 HP|g w0 g' l2 k3 r2 HP HR2]; subst.
      * eapply FRunDone. cbn [fpoll]. rewrite Ew, HP. reflexivity.
      * eapply FRunStep; [|apply FRun_cfgC; exact HR2]. cbn [fpoll]. rewrite Ew, HP. reflexivity.
    + inversion HW; subst. eapply FRunDone. cbn [fpoll]. rewrite Ew. reflexivity.
Qed.

(* a poll of state A whose inner future is ready = that event prefix + a poll of state B *)
Lemma fpoll_cfgA_ready : forall fut cfg kc kev w fut' s l,
  fpoll fut w = (fut', IReady (IOk s), l) ->
  fpoll (FFCfgA fut cfg kc kev) w
  = let '(f', r, l2) := fpoll (FFCfgB s cfg kc kev) w in (f', r, l ++ l2).
Proof.
  intros fut cfg kc kev w fut' s l H. cbn [fpoll]. rewrite H.
  destruct (poll_ready s w) as [[s' rr] lr].
  destruct rr; try reflexivity. destruct cfg as [c|]; [|reflexivity].
  destruct (fpoll (kc c s') w) as [[fc' r3] l3]. reflexivity.
Qed.

Lemma FRun_cfgA_err : forall cfg kc kev f w k e, FRun f w k (IErr e) -> FRun (FFCfgA f cfg kc kev) w k (IErr e).
Proof.
  intros cfg kc kev f w k e H. remember (IErr e) as r eqn:Er.
  induction H as [f w f' r l H|f w f' l k r H HR IH]; subst.
  - eapply FRunDone. cbn [fpoll]. now rewrite H.
  - eapply FRunStep; [|now apply IH]. cbn [fpoll]. now rewrite H.
Qed.

Lemma FRun_cfgA_ok : forall cfg kc kev f w ka s, FRun f w ka (IOk s) ->
  forall k2 r, FRun (FFCfgB s cfg kc kev) (w + ka) k2 r -> FRun (FFCfgA f cfg kc kev) w (ka + k2) r.
Proof.
  intros cfg kc kev f w ka s H. remember (IOk s) as r0 eqn:Er.
  induction H as [f w f' r1 l H|f w f' l k r1 H HR IH]; subst; intros k2 r HB.
  - rewrite Nat.add_0_r in HB. cbn [Nat.add].
    pose proof (fpoll_cfgA_ready _ cfg kc kev _ _ _ _ H) as EA.
    inversion HB as [g w0 g' r2 l2 HP|g w0 g' l2 k3 r2 HP HR2]; subst; rewrite HP in EA.
    + eapply FRunDone. exact EA.
    + eapply FRunStep; [exact EA|exact HR2].
  - cbn [Nat.add]. eapply FRunStep; [cbn [fpoll]; now rewrite H|].
    apply IH; [reflexivity|]. now rewrite <- Nat.add_succ_comm in HB.
Qed.

(* ---- and_then factory: both futures are polled every round until each has produced ---- *)
Definition and_out_l (sb : sexpr) (ra : ires) : ires := match ra with IOk sa => IOk (AndThen sa sb) | IErr e => IErr e end.
Definition and_out_r (sa : sexpr) (rb : ires) : ires := match rb with IOk sb => IOk (AndThen sa sb) | IErr e => IErr e end.

Lemma FRun_and_right : forall fa sa fb w k rb, FRun fb w k rb ->
  FRun (FFAnd fa fb (Some sa) None) w k (and_out_r sa rb).
Proof.
  intros fa sa fb w k rb H. induction H as [f w f' r l H|f w f' l k r H HR IH].
  - destruct r as [sb|e]; eapply FRunDone; cbn [fpoll]; rewrite H; reflexivity.
  - eapply FRunStep; [|exact IH]. cbn [fpoll]. rewrite H. reflexivity.
Qed.

Lemma FRun_and_left : forall fb sb fa w k ra, FRun fa w k ra ->
  FRun (FFAnd fa fb None (Some sb)) w k (and_out_l sb ra).
Proof.
  intros fb sb fa w k ra H. induction H as [f w f' r l H|f w f' l k r H HR IH].
  - destruct r as [sa|e]; eapply FRunDone; cbn [fpoll]; rewrite H; reflexivity.
  - eapply FRunStep; [|exact IH]. cbn [fpoll]. rewrite H. reflexivity.
Qed.

Lemma fjoin_S : forall ka ra kb rb,
  fjoin (S ka, ra) (S kb, rb) = (S (fst (fjoin (ka, ra) (kb, rb))), snd (fjoin (ka, ra) (kb, rb))).
Proof.
  intros ka ra kb rb. unfold fjoin. destruct ra, rb; cbn [fst snd]; try reflexivity.
  change (S ka <=? S kb) with (ka <=? kb). destruct (ka <=? kb); reflexivity.
Qed.

Lemma FRun_and : forall fa w ka ra, FRun fa w ka ra ->
  forall fb kb rb, FRun fb w kb rb ->
  FRun (FFAnd fa fb None None) w (fst (fjoin (ka, ra) (kb, rb))) (snd (fjoin (ka, ra) (kb, rb))).
Proof.
  intros fa w ka ra H.
  induction H as [fa w fa' ra la H|fa w fa' la ka ra H HR IH]; intros fb kb rb HB.
  - destruct ra as [sa|ea].
    + inversion HB as [g w0 g' r2 l2 HP|g w0 g' l2 k3 r2 HP HR2]; subst.
      * destruct rb as [sb|eb]; cbn [fjoin fst snd Nat.max]; eapply FRunDone; cbn [fpoll];
          rewrite H, HP; reflexivity.
      * assert (E : fjoin (0, IOk sa) (S k3, rb) = (S k3, and_out_r sa rb))
          by (destruct rb; reflexivity).
        rewrite E. cbn [fst snd]. eapply FRunStep; [|apply FRun_and_right; exact HR2].
        cbn [fpoll]. rewrite H, HP. reflexivity.
    + assert (E : fjoin (0, IErr ea) (kb, rb) = (0, IErr ea)) by (destruct rb; reflexivity).
      rewrite E. cbn [fst snd]. eapply FRunDone. cbn [fpoll]. rewrite H. reflexivity.
  - inversion HB as [g w0 g' r2 l2 HP|g w0 g' l2 k3 r2 HP HR2]; subst.
    + destruct rb as [sb|eb].
      * assert (E : fjoin (S ka, ra) (0, IOk sb) = (S ka, and_out_l sb ra))
          by (destruct ra; reflexivity).
        rewrite E. cbn [fst snd]. eapply FRunStep; [|apply FRun_and_left; exact HR].
        cbn [fpoll]. rewrite H, HP. reflexivity.
      * assert (E : fjoin (S ka, ra) (0, IErr eb) = (0, IErr eb)) by (destruct ra; reflexivity).
        rewrite E. cbn [fst snd]. eapply FRunDone. cbn [fpoll]. rewrite H, HP. reflexivity.
    + rewrite fjoin_S. cbn [fst snd]. eapply FRunStep; [|apply IH; exact HR2].
      cbn [fpoll]. rewrite H, HP. reflexivity.
Qed.

(* main refinement lemma at factory level *)
Lemma new_FRun : forall f c w, FRun (new_fut f c) w (fst (fsem f c)) (snd (fsem f c)).
Proof.
  induction f as [id k beh|id beh|a IHa b IHb|sw a IHa|m a IHa|m a IHa|a IHa|s cs|a IHa cs|t a IHa|k a IHa];
    intros c w; cbn [new_fut fsem].
  - apply FRun_leaf.
  - eapply FRunDone. reflexivity.
  - specialize (IHa c w). specialize (IHb c w).
    destruct (fsem a c) as [ka ra], (fsem b c) as [kb rb]. now apply FRun_and.
  - specialize (IHa c w). destruct (fsem a c) as [ka ra]. cbn [fst snd] in *.
    apply FRun_mapsvc; [destruct sw; discriminate|assumption].
  - specialize (IHa c w). destruct (fsem a c) as [ka ra]. cbn [fst snd] in *. now apply FRun_mie.
  - apply IHa.
  - apply IHa.
  - cbn [fst snd]. apply FRun_leaf.
  - specialize (IHa None w). destruct (fsem a None) as [ka ra]. cbn [fst snd] in IHa.
    destruct ra as [s|e]; [|cbn [fst snd]; now apply FRun_cfgA_err].
    destruct (wait_ready (S (script_len s)) s) as [[kr rr] s'] eqn:EW.
    pose proof (wait_ready_enough (S (script_len s)) s ltac:(lia)) as HN. rewrite EW in HN. cbn in HN.
    pose proof (FRun_cfgB (fun c' s0 => FFLeaf (c_id cs) (c_k cs) (cfg_out cs c' s0) false)
                          (fun c' _ => [EvCfgFn (c_id cs) c']) c _ _ (w + ka) _ _ _ EW HN) as HB.
    destruct rr as [| |x]; [contradiction| |]; cbn [fst snd].
    + rewrite <- Nat.add_assoc. eapply FRun_cfgA_ok; [exact IHa|]. apply HB. apply FRun_leaf.
    + eapply FRun_cfgA_ok; [exact IHa|exact HB].
  - specialize (IHa c w). destruct (fsem a c) as [ka ra]. cbn [fst snd] in IHa.
    destruct ra as [s|e]; cbn [fst snd]; [|now apply FRun_trA_err].
    eapply FRun_trA_ok; [exact IHa|]. unfold tr_fut.
    destruct (t_mie t) as [m|]; [apply FRun_mie|]; apply FRun_leaf.
  - destruct k; [|apply IHa|apply IHa].
    specialize (IHa c w). destruct (fsem a c) as [ka ra]. cbn [fst snd] in *. now apply FRun_box.
Qed.

Lemma fokev_no_new : forall w l, Forall (fokev w) l -> new_events l = [].
Proof.
  induction 1 as [|ev l H HF IH]; [reflexivity|]. unfold new_events in *. cbn [flat_map].
  rewrite IH. destruct ev; cbn in H; try contradiction; reflexivity.
Qed.

Lemma new_events_app : forall a b, new_events (a ++ b) = new_events a ++ new_events b.
Proof. intros. unfold new_events. apply flat_map_app. Qed.

Lemma new_evs_leaves : forall f c, new_events (new_evs f c) = fleaves f c.
Proof.
  induction f as [id k beh|id beh|a IHa b IHb|sw a IHa|m a IHa|m a IHa|a IHa|s cs|a IHa cs|t a IHa|k a IHa];
    intros c; cbn [new_evs fleaves]; auto.
  - now rewrite new_events_app, IHa, IHb.
  - rewrite new_events_app, IHa. destruct c; reflexivity.
Qed.

Lemma fpolls_no_new : forall n w f, flive f ->
  new_events (concat (map (fun x : nat * ipres * list event => snd x) (fpolls n w f))) = [].
Proof.
  intros n w f HL. pose proof (fpolls_live n w f HL) as H.
  induction H as [|[[wi r] l] t Hg HF IH]; [reflexivity|].
  cbn [map concat snd]. rewrite new_events_app, IH, app_nil_r.
  destruct Hg as (_ & O & _). eapply fokev_no_new; eauto.
Qed.

(* ---- statements used by Props ---- *)
Lemma run_new_value : forall f c w n, fst (fsem f c) < n ->
  fst (run_new n w f c) = (IReady (snd (fsem f c)), S (fst (fsem f c))).
Proof.
  intros f c w n Hn. unfold run_new.
  pose proof (fdrive_of_FRun _ _ _ _ (new_FRun f c w) n Hn) as H.
  destruct (fdrive n w (new_fut f c)) as [[r k] l]. cbn in *. exact H.
Qed.

Lemma run_new_once : forall f c w n, new_events (snd (run_new n w f c)) = fleaves f c.
Proof.
  intros f c w n. unfold run_new.
  pose proof (fdrive_fpolls n w (new_fut f c)) as H.
  destruct (fdrive n w (new_fut f c)) as [[r k] l]. cbn [snd] in *.
  rewrite new_events_app, new_evs_leaves, H, fpolls_no_new by apply flive_new.
  apply app_nil_r.
Qed.

Lemma new_polls_good : forall f c n w, Forall fgood_poll (fpolls n w (new_fut f c)).
Proof. intros. apply fpolls_live, flive_new. Qed.

Lemma run_new_log : forall n w f c,
  snd (run_new n w f c)
  = new_evs f c ++ concat (map (fun x : nat * ipres * list event => snd x) (fpolls n w (new_fut f c))).
Proof.
  intros. unfold run_new. rewrite <- fdrive_fpolls.
  destruct (fdrive n w (new_fut f c)) as [[r k] l]. reflexivity.
Qed.

(* ---- the reference functions spelled out per combinator (definitional) ---- *)
Lemma spec_ref_and_then : forall a b req,
  denote (AndThen a b) req = match denote a req with Ok v => denote b v | Err x => Err x end
  /\ sem (AndThen a b) req = sem a req ++ match denote a req with Ok v => sem b v | Err _ => [] end.
Proof. split; reflexivity. Qed.

Lemma spec_ref_map : forall m a req,
  denote (Map m a) req = match denote a req with Ok v => Ok (app_m m v) | Err x => Err x end
  /\ sem (Map m a) req = sem a req ++ match denote a req with Ok v => [SMap KOk m v] | Err _ => [] end.
Proof. split; reflexivity. Qed.

Lemma spec_ref_map_err : forall m a req,
  denote (MapErr m a) req = match denote a req with Ok v => Ok v | Err x => Err (app_m m x) end
  /\ sem (MapErr m a) req = sem a req ++ match denote a req with Ok _ => [] | Err x => [SMap KErr m x] end.
Proof. split; reflexivity. Qed.

Lemma spec_ref_apply_fn : forall pre post a req,
  denote (ApplyFn (WPrePost pre post) a) req
  = match denote a (app_m pre req) with Ok v => Ok (app_m post v) | Err x => Err x end
  /\ sem (ApplyFn (WPrePost pre post) a) req
     = SMap KPre pre req :: sem a (app_m pre req)
       ++ match denote a (app_m pre req) with Ok v => [SMap KPost post v] | Err _ => [] end.
Proof. split; reflexivity. Qed.

Lemma spec_ref_apply_fn_skip : forall r a req,
  denote (ApplyFn (WSkip r) a) req = r /\ sem (ApplyFn (WSkip r) a) req = [].
Proof. split; reflexivity. Qed.

Lemma spec_wrappers_transparent : forall k a,
  (forall n w req, run_call n w (Wrap k a) req = run_call n w a req)
  /\ (forall req, denote (Wrap k a) req = denote a req)
  /\ (forall w, poll_ready (Wrap k a) w = let '(a', r, l) := poll_ready a w in (Wrap k a', r, l)).
Proof. split; [|split]; reflexivity. Qed.

Lemma spec_ref_factory_and_then : forall a b c ka kb sa sb ea eb,
  fsem (FAndThen a b) c = fjoin (fsem a c) (fsem b c)
  /\ fjoin (ka, IOk sa) (kb, IOk sb) = (Nat.max ka kb, IOk (AndThen sa sb))
  /\ fjoin (ka, IErr ea) (kb, IOk sb) = (ka, IErr ea)
  /\ fjoin (ka, IOk sa) (kb, IErr eb) = (kb, IErr eb)
  /\ fjoin (ka, IErr ea) (kb, IErr eb) = (if (ka <=? kb)%nat then (ka, IErr ea) else (kb, IErr eb)).
Proof. repeat split; reflexivity. Qed.

Lemma spec_ref_factory_wrappers : forall sw m k a c,
  fsem (FMapSvc sw a) c = (let '(n, r) := fsem a c in (n, imap (sw_app sw) r))
  /\ fsem (FMapInitErr m a) c = (let '(n, r) := fsem a c in (n, imap_err m r))
  /\ fsem (FWrap FWBoxed a) c = (let '(n, r) := fsem a c in (n, imap (Wrap WBoxed) r))
  /\ (k <> FWBoxed -> fsem (FWrap k a) c = fsem a c).
Proof. repeat split. destruct k; [contradiction|reflexivity|reflexivity]. Qed.

Lemma spec_ref_factory_config : forall m a b cs c,
  fleaves (FMapConfig m a) c = fleaves a (map_cfg m c)
  /\ fleaves (FUnitConfig a) c = fleaves a None
  /\ fleaves (FApplyCfgFactory a cs) c = fleaves a None
  /\ fleaves (FAndThen a b) c = fleaves a c ++ fleaves b c
  /\ fsem (FMapConfig m a) c = fsem a (map_cfg m c)
  /\ fsem (FUnitConfig a) c = fsem a None.
Proof. repeat split. Qed.
