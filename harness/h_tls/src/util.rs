//! Shared helpers: hex, in-memory `ActixStream`, run-time generated certificates, TLS configs.
use std::{
    cell::Cell,
    io,
    pin::Pin,
    rc::Rc,
    sync::Arc,
    task::{Context, Poll},
};

use actix_rt::net::{ActixStream, Ready};
use tokio::io::{AsyncRead, AsyncWrite, DuplexStream, ReadBuf};
use tokio_rustls::rustls;

pub fn unhex(s: &str) -> Vec<u8> {
    (0..s.len() / 2)
        .map(|i| u8::from_str_radix(&s[2 * i..2 * i + 2], 16).unwrap())
        .collect()
}
pub fn hex(b: &[u8]) -> String {
    b.iter().map(|x| format!("{:02x}", x)).collect()
}

/// `key=value` fields separated by ';'
pub fn field<'a>(case: &'a str, key: &str) -> Option<&'a str> {
    case.split(';').find_map(|kv| {
        let (k, v) = kv.split_once('=')?;
        (k == key).then_some(v)
    })
}

/// xorshift PRNG for payloads (seeded from the case)
pub struct Rng(pub u64);
impl Rng {
    pub fn next(&mut self) -> u64 {
        let mut x = self.0 | 1;
        x ^= x << 13;
        x ^= x >> 7;
        x ^= x << 17;
        self.0 = x;
        x
    }
    pub fn bytes(&mut self, n: usize) -> Vec<u8> {
        (0..n).map(|_| (self.next() >> 24) as u8).collect()
    }
}

/// What the wrapped transport did since the counters were last reset (per-poll IO recorder).
#[derive(Default)]
pub struct IoStats {
    pub reads: Cell<u32>,
    pub read_pending: Cell<u32>,
    pub read_bytes: Cell<u64>,
    pub writes: Cell<u32>,
    pub write_pending: Cell<u32>,
    pub eof: Cell<u32>,
    /// back-pressure: while set, every other poll_write answers Pending and the others accept at most 1000 bytes
    pub throttle: Cell<bool>,
    pub tick: Cell<u32>,
}
impl IoStats {
    pub fn reset(&self) {
        self.reads.set(0);
        self.read_pending.set(0);
        self.read_bytes.set(0);
        self.writes.set(0);
        self.write_pending.set(0);
        self.eof.set(0);
    }
    pub fn touched(&self) -> bool {
        self.reads.get() + self.writes.get() > 0
    }
    pub fn blocked(&self) -> bool {
        self.read_pending.get() + self.write_pending.get() > 0
    }
}

/// One end of a `tokio::io::duplex` pipe as an `ActixStream` (always "ready": readiness of an
/// in-memory pipe is signalled through poll_read/poll_write themselves).
pub struct Mem {
    pub io: DuplexStream,
    pub stats: Rc<IoStats>,
}
impl Mem {
    pub fn new(io: DuplexStream) -> Self {
        Mem { io, stats: Rc::new(IoStats::default()) }
    }
}
impl AsyncRead for Mem {
    fn poll_read(mut self: Pin<&mut Self>, cx: &mut Context<'_>, buf: &mut ReadBuf<'_>) -> Poll<io::Result<()>> {
        let before = buf.filled().len();
        let r = Pin::new(&mut self.io).poll_read(cx, buf);
        let st = &self.stats;
        st.reads.set(st.reads.get() + 1);
        match &r {
            Poll::Pending => st.read_pending.set(st.read_pending.get() + 1),
            Poll::Ready(Ok(())) => {
                let n = buf.filled().len() - before;
                if n == 0 {
                    st.eof.set(st.eof.get() + 1);
                }
                st.read_bytes.set(st.read_bytes.get() + n as u64);
            }
            Poll::Ready(Err(_)) => {}
        }
        r
    }
}
impl AsyncWrite for Mem {
    fn poll_write(mut self: Pin<&mut Self>, cx: &mut Context<'_>, buf: &[u8]) -> Poll<io::Result<usize>> {
        let r = if self.stats.throttle.get() {
            let t = self.stats.tick.get() + 1;
            self.stats.tick.set(t);
            if t % 2 == 1 {
                cx.waker().wake_by_ref();
                Poll::Pending
            } else {
                let n = buf.len().min(1000);
                Pin::new(&mut self.io).poll_write(cx, &buf[..n])
            }
        } else {
            Pin::new(&mut self.io).poll_write(cx, buf)
        };
        let st = &self.stats;
        st.writes.set(st.writes.get() + 1);
        if r.is_pending() {
            st.write_pending.set(st.write_pending.get() + 1);
        }
        r
    }
    fn poll_flush(mut self: Pin<&mut Self>, cx: &mut Context<'_>) -> Poll<io::Result<()>> {
        Pin::new(&mut self.io).poll_flush(cx)
    }
    fn poll_shutdown(mut self: Pin<&mut Self>, cx: &mut Context<'_>) -> Poll<io::Result<()>> {
        Pin::new(&mut self.io).poll_shutdown(cx)
    }
}
impl ActixStream for Mem {
    fn poll_read_ready(&self, _: &mut Context<'_>) -> Poll<io::Result<Ready>> {
        Poll::Ready(Ok(Ready::READABLE))
    }
    fn poll_write_ready(&self, _: &mut Context<'_>) -> Poll<io::Result<Ready>> {
        Poll::Ready(Ok(Ready::WRITABLE))
    }
}

// ------------------------------------------------------------------------------------------
// certificates (generated once per process with rcgen)
// ------------------------------------------------------------------------------------------

pub struct Ident {
    pub sans: Vec<&'static str>,
    pub trusted: bool,
    pub chain_der: Vec<Vec<u8>>, // leaf first
    pub key_der: Vec<u8>,        // PKCS#8
}

pub struct Pki {
    pub ca1_der: Vec<u8>, // the only trust anchor of the clients
    pub idents: Vec<Ident>,
}

/// identity table; index = `cert=<n>` in the cases.  (sans, issuer: 1 = trusted CA1, 2 = unknown CA2, 0 = self-signed)
pub const IDENTS: &[(&[&str], u8)] = &[
    (&["a.test", "*.w.test"], 1),
    (&["b.test"], 1),
    (&["a.test", "*.w.test"], 2),
    (&["127.0.0.1"], 1),
    (&["a.test"], 0),
    (&["a.test", "127.0.0.1", "::1"], 1),
];

pub fn make_pki() -> Pki {
    use rcgen::{BasicConstraints, CertificateParams, DnType, IsCa, KeyPair, KeyUsagePurpose};
    let mk_ca = |name: &str| {
        let mut p = CertificateParams::new(Vec::<String>::new()).unwrap();
        p.is_ca = IsCa::Ca(BasicConstraints::Unconstrained);
        p.distinguished_name.push(DnType::CommonName, name);
        p.key_usages = vec![KeyUsagePurpose::KeyCertSign, KeyUsagePurpose::DigitalSignature, KeyUsagePurpose::CrlSign];
        let key = KeyPair::generate().unwrap();
        let cert = p.self_signed(&key).unwrap();
        (cert, key)
    };
    let (ca1, ca1k) = mk_ca("verif CA1");
    let (ca2, ca2k) = mk_ca("verif CA2");
    let mut idents = Vec::new();
    for (sans, issuer) in IDENTS {
        let mut p = CertificateParams::new(sans.iter().map(|s| s.to_string()).collect::<Vec<_>>()).unwrap();
        p.distinguished_name.push(DnType::CommonName, "verif leaf");
        let key = KeyPair::generate().unwrap();
        let (cert, chain_tail) = match issuer {
            1 => (p.signed_by(&key, &ca1, &ca1k).unwrap(), vec![ca1.der().to_vec()]),
            2 => (p.signed_by(&key, &ca2, &ca2k).unwrap(), vec![ca2.der().to_vec()]),
            _ => (p.self_signed(&key).unwrap(), vec![]),
        };
        let mut chain_der = vec![cert.der().to_vec()];
        chain_der.extend(chain_tail);
        idents.push(Ident { sans: sans.to_vec(), trusted: *issuer == 1, chain_der, key_der: key.serialize_der() });
    }
    Pki { ca1_der: ca1.der().to_vec(), idents }
}

pub fn install_provider() {
    let _ = rustls::crypto::ring::default_provider().install_default();
}

pub fn rustls_server_config(id: &Ident) -> rustls::ServerConfig {
    use rustls_pki_types::{CertificateDer, PrivateKeyDer, PrivatePkcs8KeyDer};
    let chain: Vec<CertificateDer<'static>> = id.chain_der.iter().map(|d| CertificateDer::from(d.clone())).collect();
    let key = PrivateKeyDer::Pkcs8(PrivatePkcs8KeyDer::from(id.key_der.clone()));
    rustls::ServerConfig::builder().with_no_client_auth().with_single_cert(chain, key).unwrap()
}

/// the older rustls acceptors of actix-tls (same certificate, each version's own config types)
pub fn rustls22_server_config(id: &Ident) -> rustls_022::ServerConfig {
    use rustls_pki_types::{CertificateDer, PrivateKeyDer, PrivatePkcs8KeyDer};
    let chain: Vec<CertificateDer<'static>> = id.chain_der.iter().map(|d| CertificateDer::from(d.clone())).collect();
    let key = PrivateKeyDer::Pkcs8(PrivatePkcs8KeyDer::from(id.key_der.clone()));
    rustls_022::ServerConfig::builder().with_no_client_auth().with_single_cert(chain, key).unwrap()
}
pub fn rustls21_server_config(id: &Ident) -> rustls_021::ServerConfig {
    let chain = id.chain_der.iter().map(|d| rustls_021::Certificate(d.clone())).collect();
    rustls_021::ServerConfig::builder()
        .with_safe_defaults()
        .with_no_client_auth()
        .with_single_cert(chain, rustls_021::PrivateKey(id.key_der.clone()))
        .unwrap()
}
pub fn rustls20_server_config(id: &Ident) -> rustls_020::ServerConfig {
    let chain = id.chain_der.iter().map(|d| rustls_020::Certificate(d.clone())).collect();
    rustls_020::ServerConfig::builder()
        .with_safe_defaults()
        .with_no_client_auth()
        .with_single_cert(chain, rustls_020::PrivateKey(id.key_der.clone()))
        .unwrap()
}
pub fn native_acceptor(id: &Ident) -> tokio_native_tls::TlsAcceptor {
    use openssl::{pkey::PKey, x509::X509};
    let mut pem = Vec::new();
    for d in &id.chain_der {
        pem.extend(X509::from_der(d).unwrap().to_pem().unwrap());
    }
    let key = PKey::private_key_from_der(&id.key_der).unwrap().private_key_to_pem_pkcs8().unwrap();
    let ident = tokio_native_tls::native_tls::Identity::from_pkcs8(&pem, &key).unwrap();
    tokio_native_tls::TlsAcceptor::from(tokio_native_tls::native_tls::TlsAcceptor::new(ident).unwrap())
}

pub fn rustls_client_config(pki: &Pki) -> Arc<rustls::ClientConfig> {
    use rustls_pki_types::CertificateDer;
    let mut roots = rustls::RootCertStore::empty();
    roots.add(CertificateDer::from(pki.ca1_der.clone())).unwrap();
    Arc::new(rustls::ClientConfig::builder().with_root_certificates(roots).with_no_client_auth())
}

/// client configs of the older rustls connectors of actix-tls (one trust anchor: CA1)
pub fn rustls22_client_config(pki: &Pki) -> Arc<rustls_022::ClientConfig> {
    use rustls_pki_types::CertificateDer;
    let mut roots = rustls_022::RootCertStore::empty();
    roots.add(CertificateDer::from(pki.ca1_der.clone())).unwrap();
    Arc::new(rustls_022::ClientConfig::builder().with_root_certificates(roots).with_no_client_auth())
}
pub fn rustls21_client_config(pki: &Pki) -> Arc<rustls_021::ClientConfig> {
    let mut roots = rustls_021::RootCertStore::empty();
    roots.add(&rustls_021::Certificate(pki.ca1_der.clone())).unwrap();
    Arc::new(rustls_021::ClientConfig::builder().with_safe_defaults().with_root_certificates(roots).with_no_client_auth())
}
pub fn rustls20_client_config(pki: &Pki) -> Arc<rustls_020::ClientConfig> {
    let mut roots = rustls_020::RootCertStore::empty();
    roots.add(&rustls_020::Certificate(pki.ca1_der.clone())).unwrap();
    Arc::new(rustls_020::ClientConfig::builder().with_safe_defaults().with_root_certificates(roots).with_no_client_auth())
}
pub fn native_connector(pki: &Pki) -> tokio_native_tls::native_tls::TlsConnector {
    use tokio_native_tls::native_tls::{Certificate, TlsConnector};
    TlsConnector::builder()
        .disable_built_in_roots(true)
        .add_root_certificate(Certificate::from_der(&pki.ca1_der).unwrap())
        .build()
        .unwrap()
}

/// rustls client restricted to TLS 1.2 (more handshake flights than 1.3: more places to stall)
pub fn rustls_client_config_tls12(pki: &Pki) -> Arc<rustls::ClientConfig> {
    use rustls_pki_types::CertificateDer;
    let mut roots = rustls::RootCertStore::empty();
    roots.add(CertificateDer::from(pki.ca1_der.clone())).unwrap();
    Arc::new(
        rustls::ClientConfig::builder_with_protocol_versions(&[&rustls::version::TLS12])
            .with_root_certificates(roots)
            .with_no_client_auth(),
    )
}

pub fn openssl_acceptor(id: &Ident) -> openssl::ssl::SslAcceptor {
    use openssl::{pkey::PKey, ssl::{SslAcceptor, SslMethod}, x509::X509};
    let mut b = SslAcceptor::mozilla_intermediate_v5(SslMethod::tls()).unwrap();
    b.set_private_key(&PKey::private_key_from_der(&id.key_der).unwrap()).unwrap();
    b.set_certificate(&X509::from_der(&id.chain_der[0]).unwrap()).unwrap();
    for extra in &id.chain_der[1..] {
        b.add_extra_chain_cert(X509::from_der(extra).unwrap()).unwrap();
    }
    b.build()
}

pub fn openssl_connector(pki: &Pki) -> openssl::ssl::SslConnector {
    openssl_connector_max(pki, None)
}

pub fn openssl_connector_max(pki: &Pki, max: Option<openssl::ssl::SslVersion>) -> openssl::ssl::SslConnector {
    use openssl::{ssl::{SslConnector, SslMethod}, x509::{store::X509StoreBuilder, X509}};
    let mut b = SslConnector::builder(SslMethod::tls()).unwrap();
    b.set_max_proto_version(max).unwrap();
    // exactly one trust anchor: replace the default store
    let mut store = X509StoreBuilder::new().unwrap();
    store.add_cert(X509::from_der(&pki.ca1_der).unwrap()).unwrap();
    b.set_cert_store(store.build());
    b.build()
}

/// hang watchdog only (real time, generous): never an oracle
pub const WATCHDOG: std::time::Duration = std::time::Duration::from_secs(30);
