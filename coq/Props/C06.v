(* Props/C06.v — shutdown: graceful waits for connections, forced does not, stop always completes.
   ONLY statements, each closed by `exact <lemma>`, non-vacuity Examples, Print Assumptions.

   Worker level: Model/Wrk.v (ServerWorker::poll; the stop handler at the top of poll, the
   Shutdown state with its 1 s timer, `WorkerCounter::total()`), modelling /repo AFTER the two
   repairs this property led to (known_findings.txt: D6 total() counts live guards, D7 a worker
   whose connection channel closed waits for its stop command).  Theorems are for ALL states `s`
   (hence for all reachable ones, `Inv` holds on every reachable state: WrkFacts.reachable_inv)
   or for ALL configurations and op histories.
   Server level: Model/SrvStop.v (command loop, Stop handler, join_all, signal mapping), for
   ALL scripts of user stops / signals / worker acknowledgements / accept-thread exit / polls.

   PARTIAL (runtime behaviour, observed only end-to-end by the thorough tier): that the arbiter /
   runtime teardown which follows a resolved worker future closes the connections still in
   progress, `thread::join`, OS signal delivery.  "No dispatch after the Stop interest was
   processed" belongs to the accept-loop model (Srv), not to this file. *)
From AN Require Import Model.Wrk Proofs.WrkFacts Model.SrvStop Proofs.SrvStopFacts.

(* ========================================================================================= *)
(* worker level                                                                              *)
(* ========================================================================================= *)

(* C06_forced: a forced stop at the head of the stop queue is acknowledged (false: connections
   were in flight) and the worker future resolves in the very next poll, whatever is in
   progress; everything still queued is dropped with the future (released, never called) and
   every other pending stop loses its sender (its future resolves) — see C06_dropped. *)
Theorem C06_forced : forall c s sid rest,
  sq s = (false, sid) :: rest -> inprog s <> [] ->
  poll c s = (set_ws (set_svcs (set_sq s rest) (shutdown_svcs true (svcs s))) WDone,
              StopAck sid false :: Done
              :: drop_obs (set_svcs (set_sq s rest) (shutdown_svcs true (svcs s)))).
Proof. exact stop_forced. Qed.

(* C06_idle: with nothing in progress any stop is acknowledged `true` at once (connections
   still queued are dropped with the future: released, C06_dropped). *)
Theorem C06_idle : forall c s g sid rest,
  sq s = (g, sid) :: rest -> inprog s = [] ->
  poll c s = (set_ws (set_sq s rest) WDone, StopAck sid true :: Done :: drop_obs (set_sq s rest)).
Proof. exact stop_idle. Qed.

Theorem C06_dropped : forall s,
  (forall x, In x (cq s) -> In (Released (snd x)) (drop_obs s))
  /\ (forall x, In x (sq s) -> In (StopLost (snd x)) (drop_obs s))
  /\ (forall dl st sid, ws s = WShutdown dl st sid -> In (StopLost sid) (drop_obs s)).
Proof. exact drop_obs_spec. Qed.

(* C06_graceful, entering: with n > 0 in flight a graceful stop is not acknowledged by the poll
   that picks it up; the timer starts (deadline now + 1 s, start_from = now); the queue is
   drained: released, not called. *)
Theorem C06_graceful_enter : forall c s sid rest,
  sq s = (true, sid) :: rest -> inprog s <> [] ->
  exists o cnt,
    drain c (cq s) (counter s) = (cnt, o) /\
    poll c s = (set_counter (set_cq (set_ws (set_svcs (set_sq s rest) (shutdown_svcs false (svcs s)))
                                            (WShutdown (now s + 1000) (now s) sid)) []) cnt,
                (match ws s with WShutdown _ _ sid0 => [StopLost sid0] | _ => [] end) ++ o)
    /\ no_ack_done o /\ (forall x, In x (cq s) -> In (Released (snd x)) o).
Proof. exact stop_graceful_enter. Qed.

(* C06_graceful, waiting: before the tick nothing is acknowledged ... *)
Theorem C06_graceful_before_tick : forall c s dl start sid,
  ws s = WShutdown dl start sid -> sq s = [] -> (now s < dl)%Z ->
  exists o cnt, drain c (cq s) (counter s) = (cnt, o) /\
    poll c s = (set_counter (set_cq s []) cnt, o) /\ no_ack_done o
    /\ (forall x, In x (cq s) -> In (Released (snd x)) o).
Proof. exact shutdown_before_tick. Qed.

(* ... at a tick: idle => ack true and Done; *)
Theorem C06_graceful_tick_idle : forall c s dl start sid,
  ws s = WShutdown dl start sid -> sq s = [] -> (dl <= now s)%Z -> inprog s = [] ->
  exists o, In (StopAck sid true) o /\ In Done o /\ calls_of o = []
    /\ (forall x, In x (cq s) -> In (Released (snd x)) o)
    /\ ws (fst (poll c s)) = WDone /\ snd (poll c s) = o.
Proof. exact shutdown_tick_idle. Qed.

(* not idle and shutdown_timeout elapsed since start_from => ack false and Done; *)
Theorem C06_graceful_tick_timeout : forall c s dl start sid,
  ws s = WShutdown dl start sid -> sq s = [] -> (dl <= now s)%Z ->
  inprog s <> [] -> (c_timeout c <= now s - start)%Z ->
  exists o, In (StopAck sid false) o /\ In Done o /\ calls_of o = []
    /\ (forall x, In x (cq s) -> In (Released (snd x)) o)
    /\ ws (fst (poll c s)) = WDone /\ snd (poll c s) = o.
Proof. exact shutdown_tick_timeout. Qed.

(* otherwise the timer is re-armed for now + 1 s and nothing is acknowledged.  Together: from a
   Shutdown state, a poll at any time >= deadline and >= start_from + shutdown_timeout resolves
   the worker; the deadline is always the last such poll's time + 1 s (variant: ticks). *)
Theorem C06_graceful_tick_wait : forall c s dl start sid,
  ws s = WShutdown dl start sid -> sq s = [] -> (dl <= now s)%Z ->
  inprog s <> [] -> (now s - start < c_timeout c)%Z ->
  exists o cnt, drain c (cq s) (counter s) = (cnt, o) /\
    poll c s = (set_ws (set_counter (set_cq s []) cnt) (WShutdown (now s + 1000) start sid), o)
    /\ no_ack_done o /\ (forall x, In x (cq s) -> In (Released (snd x)) o).
Proof. exact shutdown_tick_wait. Qed.

(* C06_graceful, safety for every poll of every reachable state: an acknowledgement `true`
   means that NO connection is in progress (exactly: also inside the accept side's send/inc gap); *)
Theorem C06_ack_true_means_idle : forall c ops sid,
  let s := exec c (init c) ops in finished s = false ->
  In (StopAck sid true) (snd (poll c s)) -> inprog s = [].
Proof. intros c ops sid s. exact (ack_true_means_idle c s sid (reachable_inv c ops)). Qed.

(* an acknowledgement `false` has exactly two causes: a forced stop, or shutdown_timeout elapsed
   since the graceful stop was picked up; *)
Theorem C06_ack_false_cause : forall c ops sid,
  let s := exec c (init c) ops in finished s = false ->
  In (StopAck sid false) (snd (poll c s)) ->
  (exists rest, sq s = (false, sid) :: rest)
  \/ (exists dl start, ws s = WShutdown dl start sid /\ (c_timeout c <= now s - start)%Z).
Proof. intros c ops sid s. exact (ack_false_means_forced_or_timeout c s sid (reachable_inv c ops)). Qed.

(* the worker future resolves only together with an acknowledgement, or because BOTH the accept
   side and the server side have dropped their handles (a server dropped without stop). *)
Theorem C06_done_cause : forall c ops,
  let s := exec c (init c) ops in finished s = false ->
  In Done (snd (poll c s)) ->
  (exists sid b, In (StopAck sid b) (snd (poll c s))) \/ (cq_open s = false /\ sq_open s = false).
Proof. intros c ops s. exact (done_means_ack_or_closed c s (reachable_inv c ops)). Qed.

(* C06_drain: once the worker has left the serving states (a graceful stop was picked up) no
   service is ever called again, whatever is pushed afterwards. *)
Theorem C06_drain : forall c ops ops2,
  let s := exec c (init c) ops in ~ live s -> calls_of (concat (run c s ops2)) = [].
Proof. intros c ops ops2 s. exact (no_call_after_shutdown c ops2 s (reachable_inv c ops)). Qed.

(* C06_total_wrap — the upstream wart is gone: `total()` no longer reads the shared atomic
   (`load - 1`, which under-counted and could underflow in the accept side's send/inc gap; see
   the corpus scripts and known_findings.txt) but counts the live guards, so it is exactly the
   number of connections in progress in every state, gap or not; and the value a guard drop sees
   in `Counter::dec` is >= 1, so `fetch_sub(1) - 1` cannot underflow either. *)
Theorem C06_total_exact : forall s, total s = Z.of_nat (length (inprog s)).
Proof. exact total_exact. Qed.

Theorem C06_dec_no_underflow : forall c ops cid,
  let s := exec c (init c) ops in finished s = false ->
  mem_nat cid (inprog s) = true -> (1 <= counter s)%Z.
Proof. intros c ops cid s. exact (finish_pre_positive c s cid (reachable_inv c ops)). Qed.

(* ========================================================================================= *)
(* server level                                                                              *)
(* ========================================================================================= *)

(* C06_signal_map *)
Theorem C06_signal_map :
  map_signal SigInt = mkStop false None true /\ map_signal SigTerm = mkStop true None true
  /\ map_signal SigQuit = mkStop false None true.
Proof. repeat split. Qed.

(* join_all: an input that holds its result keeps it, a Future takes its worker's answer; *)
Theorem C06_join_all_results : forall res aks i res' o,
  join_poll i res aks = (res', o) ->
  forall j r a, nth_error res j = Some r -> nth_error aks j = Some a ->
  nth_error res' j = Some (match r with Some x => Some x | None => ack_result a end).
Proof. exact join_poll_res. Qed.

(* only inputs that are still Futures are polled (none after completion); *)
Theorem C06_join_all_polls : forall res aks i res' o,
  join_poll i res aks = (res', o) ->
  forall m rdy, In (OJoinPolled m rdy) o ->
  exists j a, m = i + j /\ nth_error res j = Some None /\ nth_error aks j = Some a
              /\ rdy = match a with WPending => false | _ => true end.
Proof. exact join_poll_polled. Qed.

(* ready iff all inputs hold results, which are returned in input order. *)
Theorem C06_join_all_ready : forall res l, join_results res = Some l <-> res = map Some l.
Proof. exact join_results_some. Qed.

(* C06_server, order: at any point of any run, what has happened of the stop sequence is
   determined by the control state: wake the accept loop with Stop; one stop per worker handle,
   in order; join_all done (iff graceful); accept thread joined; completion signalled;
   System::stop (iff requested); command loop ended => the Server future resolves.  Exactly one
   Stop is ever handled. *)
Theorem C06_server_order : forall cf ops, core (srv_trace cf ops) = shape cf (ctl (srv_final cf ops)).
Proof. exact server_order. Qed.

(* graceful: the accept thread is joined (and completion signalled) only after every worker has
   acknowledged its stop or dropped the sender; forced stops do not wait (shape: no OJoinDone) *)
Theorem C06_server_graceful_waits : forall cf ops c,
  past_join (ctl (srv_final cf ops)) c -> sc_graceful c = true ->
  length (acks (srv_final cf ops)) = s_workers cf
  /\ Forall (fun a => a <> WPending) (acks (srv_final cf ops)).
Proof. exact server_graceful_waits. Qed.

Theorem C06_server_joined_accept : forall cf ops c,
  ctl (srv_final cf ops) = SSleep c \/ ctl (srv_final cf ops) = SDone c ->
  accept_exited (srv_final cf ops) = true.
Proof. exact server_joined_accept. Qed.

(* every stop future resolves: when the command loop has ended, every stop issued so far — the
   one that was handled, a second one queued behind it, one whose future was dropped unpolled
   (the command is sent eagerly, handle.rs) — has resolved; a later one resolves at once. *)
Theorem C06_stops_resolve : forall cf ops c,
  ctl (srv_final cf ops) = SDone c ->
  forall n, n < next_stop (srv_final cf ops) -> In (OResolved n) (srv_trace cf ops).
Proof. exact server_stops_resolve. Qed.

Theorem C06_stop_after_done : forall cf s g c, ctl s = SDone c ->
  snd (srv_step cf s (UStop g)) = [OResolved (next_stop s)].
Proof. exact stop_after_done_resolves. Qed.

(* and the loop does end: once every worker has answered, the accept thread has exited and the
   300 ms timer (System::stop path) has fired, three control steps reach the end. *)
Theorem C06_server_completes : forall cf ops c,
  let s := srv_final cf ops in
  cur_cmd (ctl s) = Some c \/ ctl s = SSleep c ->
  Forall (fun a => a <> WPending) (acks s) -> accept_exited s = true -> timer_fired s = true ->
  ctl (spolls cf 3 s) = SDone c.
Proof. exact server_completes. Qed.

(* ========================================================================================= *)
(* non-vacuity                                                                               *)
(* ========================================================================================= *)

(* graceful stop with one connection in progress, timeout 2 s: first tick not done, connection
   finishes at 1.5 s, second tick: ack true *)
Example C06_example_graceful :
  let c := mkCfg 3 2000 [([], [])] in
  trace c [PushConn 0 0; AcceptInc; PollW; PushStop true; PollW; Advance 1000; PollW;
           Advance 500; Finish 0; Advance 500; PollW]
  = [ []; []; [PollReady 0 ROk; PollReady 0 ROk; Call 0 0; PollReady 0 ROk]; []; []; []; []; [];
      [Released 0]; []; [StopAck 0 true; Done] ].
Proof. vm_compute. reflexivity. Qed.

(* the timeout is reached with the connection still held: ack false at the 2 s tick *)
Example C06_example_timeout :
  let c := mkCfg 3 2000 [([], [])] in
  trace c [PushConn 0 0; AcceptInc; PollW; PushStop true; PollW; Advance 1000; PollW; Advance 999; PollW;
           Advance 1; PollW]
  = [ []; []; [PollReady 0 ROk; PollReady 0 ROk; Call 0 0; PollReady 0 ROk]; []; []; []; []; []; [];
      []; [StopAck 0 false; Done] ].
Proof. vm_compute. reflexivity. Qed.

(* forced with a connection in progress; a second (graceful) stop queued behind it loses its
   sender; a queued connection is released, never called *)
Example C06_example_forced :
  let c := mkCfg 3 5000 [([], [])] in
  trace c [PushConn 0 0; AcceptInc; PollW; PushConn 0 1; AcceptInc; PushStop false; PushStop true; PollW]
  = [ []; []; [PollReady 0 ROk; PollReady 0 ROk; Call 0 0; PollReady 0 ROk]; []; []; []; [];
      [StopAck 0 false; Done; Released 1; StopLost 1] ].
Proof. vm_compute. reflexivity. Qed.

(* the hypotheses of the tick theorems are reachable: a Shutdown state with the timer due *)
Example C06_example_tick_state :
  let c := mkCfg 3 2000 [([], [])] in
  let s := exec c (init c) [PushConn 0 0; AcceptInc; PollW; PushStop true; PollW; Advance 1000] in
  ws s = WShutdown 1000 0 0 /\ sq s = [] /\ (1000 <= now s)%Z
  /\ inprog s <> [] /\ (now s - 0 < c_timeout c)%Z.
Proof. vm_compute. repeat split; auto; discriminate. Qed.

(* the send/inc gap (former D6): the worker has picked up a connection the accept side has not
   yet counted (counter still 1); a graceful stop now WAITS for it *)
Example C06_example_gap :
  let c := mkCfg 3 5000 [([], [])] in
  let s := exec c (init c) [PushConn 0 0; PollW; PushStop true] in
  counter s = 1%Z /\ gap s = true /\ inprog s = [0]
  /\ snd (poll c s) = [] /\ ws (fst (poll c s)) = WShutdown 1000 0 0.
Proof. vm_compute. repeat split; auto. Qed.

(* the accept thread exits before the worker saw its stop (former D7): the worker does not
   resolve; the stop that follows is handled as a graceful stop should be *)
Example C06_example_accept_exit_first :
  let c := mkCfg 3 5000 [([], [])] in
  trace c [PushConn 0 0; AcceptInc; PollW; CloseConn; PollW; PushStop true; PollW; Finish 0; Advance 1000; PollW]
  = [ []; []; [PollReady 0 ROk; PollReady 0 ROk; Call 0 0; PollReady 0 ROk]; []; [PollReady 0 ROk];
      []; []; [Released 0]; []; [StopAck 0 true; Done] ].
Proof. vm_compute. reflexivity. Qed.

(* a server dropped without stop: both channels closed, the worker ends *)
Example C06_example_server_dropped :
  let c := mkCfg 3 5000 [([], [])] in
  trace c [PollW; CloseStop; PollW; CloseConn; PollW]
  = [ [PollReady 0 ROk; PollReady 0 ROk]; []; [PollReady 0 ROk]; []; [PollReady 0 ROk; Done] ].
Proof. vm_compute. reflexivity. Qed.

(* server level: graceful stop of two workers, a second stop queued behind; the second worker
   answers late; everything resolves in the order of C06_server_order *)
Example C06_example_server :
  srv_trace (mkSCfg 2 false)
    [UStop true; UStop false; SPoll; WAck 0 true; SPoll; AcceptExit; WDrop 1; SPoll; SPoll; UStop true]
  = [ OWakeStop; OWorkerStop 0 true; OWorkerStop 1 true;
      OJoinPolled 0 true; OJoinPolled 1 false;
      OJoinPolled 1 true; OJoinDone [Some true; None];
      OJoinAccept; OCompletion 0; OResolved 0; OServerDone; OResolved 1;
      OResolved 2 ].
Proof. vm_compute. reflexivity. Qed.

(* SIGTERM: graceful, no completion sender, System::stop after the 300 ms sleep *)
Example C06_example_sigterm :
  srv_trace (mkSCfg 1 false) [USignal SigTerm; SPoll; WAck 0 true; SPoll; AcceptExit; SPoll; SPoll; TimerFire; SPoll]
  = [ OWakeStop; OWorkerStop 0 true; OJoinPolled 0 true; OJoinDone [Some true];
      OJoinAccept; OSystemStop; OServerDone ].
Proof. vm_compute. reflexivity. Qed.

Print Assumptions C06_forced.
Print Assumptions C06_idle.
Print Assumptions C06_dropped.
Print Assumptions C06_graceful_enter.
Print Assumptions C06_graceful_before_tick.
Print Assumptions C06_graceful_tick_idle.
Print Assumptions C06_graceful_tick_timeout.
Print Assumptions C06_graceful_tick_wait.
Print Assumptions C06_ack_true_means_idle.
Print Assumptions C06_ack_false_cause.
Print Assumptions C06_done_cause.
Print Assumptions C06_drain.
Print Assumptions C06_total_exact.
Print Assumptions C06_dec_no_underflow.
Print Assumptions C06_signal_map.
Print Assumptions C06_join_all_results.
Print Assumptions C06_join_all_polls.
Print Assumptions C06_join_all_ready.
Print Assumptions C06_server_order.
Print Assumptions C06_server_graceful_waits.
Print Assumptions C06_server_joined_accept.
Print Assumptions C06_stops_resolve.
Print Assumptions C06_stop_after_done.
Print Assumptions C06_server_completes.
