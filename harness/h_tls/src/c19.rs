//! C19 — connector: host parsing, ConnectInfo, resolver precedence, ordered fallback, TLS name.
use std::{
    cell::RefCell,
    io,
    net::{IpAddr, Ipv4Addr, Ipv6Addr, SocketAddr, ToSocketAddrs},
    rc::Rc,
};

use actix_rt::net::TcpStream;
use actix_service::{Service, ServiceFactory};
use actix_tls::connect::{
    tcp::TcpConnector, ConnectError, ConnectInfo, Connection, Connector, Host, Resolve, Resolver,
};
use futures_core::future::LocalBoxFuture;
use tokio::io::{AsyncReadExt, AsyncWriteExt};

use crate::util::*;
use tokio_rustls::rustls;
use std::sync::Arc;

// ------------------------------------------------------------------------------------------
// c19host : Host for String / &'static str, ConnectInfo::new
// ------------------------------------------------------------------------------------------

fn port_s(p: Option<u16>) -> String {
    p.map(|p| p.to_string()).unwrap_or_else(|| "-".into())
}

pub fn c19host(line: &str) -> String {
    let s = match String::from_utf8(unhex(line)) {
        Ok(s) => s,
        Err(_) => return "NOT-UTF8".into(),
    };
    let st: &'static str = Box::leak(s.clone().into_boxed_str());
    let a = (Host::hostname(&s).to_string(), Host::port(&s));
    let b = (Host::hostname(&st).to_string(), Host::port(&st));
    if a != b {
        return format!("IMPLS-DIFFER {}|{} vs {}|{}", hex(a.0.as_bytes()), port_s(a.1), hex(b.0.as_bytes()), port_s(b.1));
    }
    let ci = ConnectInfo::new(s.clone());
    format!("{}|{}|{}|{}", hex(a.0.as_bytes()), port_s(a.1), hex(ci.hostname().as_bytes()), ci.port())
}

// ------------------------------------------------------------------------------------------
// c19uri : Host for http::Uri (http 0.2 and 1), ConnectInfo::new(uri).   case: "<scheme hex|->;<host hex|->;<port|->"
// The URI text is assembled here; the `http` crate's parse (scheme_str, host, port_u16) is the oracle and is checked to give
// the components back.
// ------------------------------------------------------------------------------------------
pub fn c19uri(line: &str) -> String {
    let f: Vec<&str> = line.split(';').collect();
    let opt = |x: &str| if x == "-" { None } else { Some(String::from_utf8(unhex(x)).unwrap()) };
    let (scheme, host) = (opt(f[0]), opt(f[1]));
    let port: Option<u16> = if f[2] == "-" { None } else { Some(f[2].parse().unwrap()) };
    let mut text = String::new();
    if let Some(s) = &scheme {
        text.push_str(s);
        text.push_str("://");
    }
    if let Some(h) = &host {
        text.push_str(h);
    }
    if let Some(p) = port {
        text.push_str(&format!(":{p}"));
    }
    if scheme.is_some() {
        text.push_str("/some/path?q=1");
    } else if host.is_none() {
        text.push_str("/only/a/path");
    }
    macro_rules! one {
        ($m:ident) => {{
            match text.parse::<$m::Uri>() {
                Err(e) => format!("UNPARSABLE({e})"),
                Ok(u) => {
                    if u.scheme_str().map(str::to_string) != scheme || u.host().map(str::to_string) != host || u.port_u16() != port {
                        format!("ORACLE-DIFFERS {:?} {:?} {:?}", u.scheme_str(), u.host(), u.port_u16())
                    } else {
                        let a = (Host::hostname(&u).to_string(), Host::port(&u));
                        let ci = ConnectInfo::new(u);
                        if ci.hostname() != a.0 {
                            "CI-HOSTNAME-DIFFERS".to_string()
                        } else {
                            format!("{}|{}|{}", hex(a.0.as_bytes()), port_s(a.1), ci.port())
                        }
                    }
                }
            }
        }};
    }
    let (a, b) = (one!(http_02), one!(http_1));
    if a == b { a } else { format!("VERSIONS-DIFFER {a} vs {b}") }
}

// ------------------------------------------------------------------------------------------
// c19info : builder scripts on ConnectInfo (no sockets)
// ------------------------------------------------------------------------------------------

fn table_addr(i: usize) -> SocketAddr {
    let ips: [IpAddr; 6] = [
        IpAddr::V4(Ipv4Addr::new(127, 0, 0, 1)),
        IpAddr::V4(Ipv4Addr::new(127, 0, 0, 1)),
        IpAddr::V6(Ipv6Addr::LOCALHOST),
        IpAddr::V4(Ipv4Addr::new(10, 0, 0, 3)),
        IpAddr::V6("2001:db8::4".parse().unwrap()),
        IpAddr::V4(Ipv4Addr::UNSPECIFIED),
    ];
    SocketAddr::new(ips[i], 1000 + i as u16)
}
fn table_idx(a: SocketAddr) -> String {
    (0..6).find(|&i| table_addr(i) == a).map(|i| i.to_string()).unwrap_or_else(|| "x".into())
}
fn digit_idx(c: char) -> usize {
    c.to_digit(10).expect("address index") as usize
}

pub fn c19info(line: &str) -> String {
    let mut parts = line.split(';');
    let host = String::from_utf8(unhex(parts.next().unwrap())).unwrap();
    let ctor = parts.next().unwrap();
    let ops = parts.next().unwrap_or("");
    let mut ci = if ctor == "n" {
        ConnectInfo::new(host)
    } else {
        ConnectInfo::with_addr(host, table_addr(digit_idx(ctor.chars().nth(1).unwrap())))
    };
    for op in ops.split(',').filter(|o| !o.is_empty()) {
        let (k, rest) = op.split_at(1);
        ci = match k {
            "p" => ci.set_port(rest.parse().unwrap()),
            "a" if rest == "n" => ci.set_addr(None),
            "a" => ci.set_addr(table_addr(digit_idx(rest.chars().next().unwrap()))),
            "s" => ci.set_addrs(rest.chars().map(|c| table_addr(digit_idx(c)))),
            "l" if rest == "4" => ci.set_local_addr(Ipv4Addr::LOCALHOST),
            "l" => ci.set_local_addr(Ipv6Addr::LOCALHOST),
            _ => panic!("bad op {op}"),
        };
    }
    let n = ci.addrs().len();
    let a: Vec<String> = ci.addrs().map(table_idx).collect();
    let h = hex(ci.hostname().as_bytes());
    let p = ci.port();
    let disp_ok = format!("{}", ci) == format!("{}:{}", ci.hostname(), p);
    let t: Vec<String> = ci.take_addrs().map(table_idx).collect();
    let e = ci.addrs().len();
    format!("h={}|p={}|a={}|n={}|t={}|e={}|d={}", h, p, a.join(""), n, t.join(""), e, disp_ok as u8)
}

// ------------------------------------------------------------------------------------------
// c19conn : resolver + TCP connector against real loopback sockets
// ------------------------------------------------------------------------------------------

const V4: IpAddr = IpAddr::V4(Ipv4Addr::LOCALHOST);
const V6: IpAddr = IpAddr::V6(Ipv6Addr::LOCALHOST);
const BCAST: IpAddr = IpAddr::V4(Ipv4Addr::BROADCAST);

enum SlotSock {
    Live(std::net::TcpListener),
    Bound(#[allow(dead_code)] tokio::net::TcpSocket), // bound, never listening: refused, and the port stays reserved
    Nothing,
}
struct Slot {
    addr: SocketAddr,
    sock: SlotSock,
}

fn ip_id(ip: IpAddr) -> u32 {
    if ip == V4 {
        1
    } else if ip == V6 {
        2
    } else if ip == BCAST {
        3
    } else {
        9
    }
}

/// no TIME_WAIT leftovers: every socket of the harness is closed with an RST (SO_LINGER 0), so that thousands of
/// cases (and other checks running on the same machine) never exhaust the ephemeral port range
fn no_linger<S: std::os::fd::AsFd>(s: &S) {
    let _ = socket2::SockRef::from(s).set_linger(Some(std::time::Duration::ZERO));
}

/// bind with retries: a transient lack of free ports (other checks running) is an environment problem, not a verdict
fn retry<T>(what: &str, mut f: impl FnMut() -> io::Result<T>) -> Result<T, String> {
    let mut last = String::new();
    for _ in 0..100 {
        match f() {
            Ok(v) => return Ok(v),
            Err(e) => last = e.to_string(),
        }
        std::thread::sleep(std::time::Duration::from_millis(50));
    }
    Err(format!("ENV-FAIL {what}: {last}"))
}

fn make_slots(kinds: &[&str]) -> Result<Vec<Slot>, String> {
    let mut slots: Vec<Slot> = Vec::new();
    for k in kinds {
        loop {
            let s = match *k {
                "L4" | "L6" => {
                    let l = retry("bind listener", || std::net::TcpListener::bind(SocketAddr::new(if *k == "L4" { V4 } else { V6 }, 0)))?;
                    l.set_nonblocking(true).unwrap();
                    Slot { addr: l.local_addr().unwrap(), sock: SlotSock::Live(l) }
                }
                "R4" | "R6" => {
                    let s = retry("bind socket", || {
                        let s = if *k == "R4" { tokio::net::TcpSocket::new_v4() } else { tokio::net::TcpSocket::new_v6() }?;
                        s.bind(SocketAddr::new(if *k == "R4" { V4 } else { V6 }, 0))?;
                        Ok(s)
                    })?;
                    Slot { addr: s.local_addr().unwrap(), sock: SlotSock::Bound(s) }
                }
                // unreachable whatever the port; distinct ports keep `@k` unambiguous
                "U4" => Slot { addr: SocketAddr::new(BCAST, 9 + slots.len() as u16), sock: SlotSock::Nothing },
                // 127.0.0.1:0 — what a request without any port dials (ConnectInfo's default port is 0); always refused
                "Z4" => Slot { addr: SocketAddr::new(V4, 0), sock: SlotSock::Nothing },
                _ => panic!("bad slot kind {k}"),
            };
            // port numbers must be pairwise distinct so that `@k` is unambiguous
            if *k == "U4" || slots.iter().all(|o| o.addr.port() != s.addr.port()) {
                slots.push(s);
                break;
            }
        }
    }
    Ok(slots)
}

fn subst_ports(text: &str, slots: &[Slot]) -> String {
    let mut out = String::new();
    let mut it = text.chars().peekable();
    while let Some(c) = it.next() {
        if c == '@' {
            let k = digit_idx(it.next().expect("@k"));
            out.push_str(&slots[k].addr.port().to_string());
        } else {
            out.push(c);
        }
    }
    out
}

fn show_port(p: u16, slots: &[Slot]) -> String {
    match slots.iter().position(|s| s.addr.port() == p) {
        Some(k) => format!("@{k}"),
        None => p.to_string(),
    }
}
fn show_addr(a: SocketAddr, slots: &[Slot]) -> String {
    match slots.iter().position(|s| s.addr == a) {
        Some(k) => k.to_string(),
        None => "x".into(),
    }
}

/// The oracle `connect(addr, local)`: what the OS answers through the same Tokio calls tcp.rs uses.
async fn probe(addr: SocketAddr, local: Option<IpAddr>) -> io::Result<TcpStream> {
    match local {
        Some(ip) => {
            let socket = if ip.is_ipv4() { tokio::net::TcpSocket::new_v4()? } else { tokio::net::TcpSocket::new_v6()? };
            socket.bind(SocketAddr::new(ip, 0))?;
            socket.connect(addr).await
        }
        None => TcpStream::connect(addr).await,
    }
}

fn errno(e: &io::Error) -> String {
    match e.raw_os_error() {
        Some(n) => format!("e{n}"),
        None => format!("k{:?}", e.kind()),
    }
}

/// accept everything queued on a live listener up to and including a sentinel connection made
/// now; returns the number of connections that were queued before the sentinel (FIFO queue).
fn drain(l: &std::net::TcpListener) -> Result<usize, String> {
    let addr = l.local_addr().unwrap();
    let sentinel = retry("sentinel connect", || std::net::TcpStream::connect(addr))?;
    no_linger(&sentinel);
    let me = sentinel.local_addr().unwrap();
    l.set_nonblocking(false).unwrap();
    let mut n = 0;
    loop {
        let (s, peer) = l.accept().map_err(|e| format!("ENV-FAIL accept: {e}"))?;
        no_linger(&s);
        if peer == me {
            break;
        }
        n += 1;
    }
    l.set_nonblocking(true).unwrap();
    Ok(n)
}

struct ScriptedResolver {
    log: Rc<RefCell<Vec<(String, u16)>>>,
    answer: Result<Vec<SocketAddr>, ()>,
}
#[derive(Debug)]
struct Boom;
impl std::fmt::Display for Boom {
    fn fmt(&self, f: &mut std::fmt::Formatter<'_>) -> std::fmt::Result {
        f.write_str("boom")
    }
}
impl std::error::Error for Boom {}

impl Resolve for ScriptedResolver {
    fn lookup<'a>(&'a self, host: &'a str, port: u16) -> LocalBoxFuture<'a, Result<Vec<SocketAddr>, Box<dyn std::error::Error>>> {
        self.log.borrow_mut().push((host.to_string(), port));
        let ans = self.answer.clone();
        Box::pin(async move {
            // answer on a later poll, like a real resolver
            tokio::task::yield_now().await;
            ans.map_err(|()| Box::new(Boom) as Box<dyn std::error::Error>)
        })
    }
}

fn show_err(e: &ConnectError) -> String {
    match e {
        ConnectError::Resolver(inner) => format!("ERR Resolver({})", inner),
        ConnectError::NoRecords => "ERR NoRecords".into(),
        ConnectError::InvalidInput => "ERR InvalidInput".into(),
        ConnectError::Unresolved => "ERR Unresolved".into(),
        ConnectError::Io(e) => format!("ERR Io({})", errno(e)),
    }
}

fn build_info(host: String, ctor: &str, ops: &str, slots: &[Slot]) -> ConnectInfo<String> {
    let mut ci = if ctor == "n" {
        ConnectInfo::new(host)
    } else {
        ConnectInfo::with_addr(host, slots[digit_idx(ctor.chars().nth(1).unwrap())].addr)
    };
    for op in ops.split('/').filter(|o| !o.is_empty()) {
        let (k, rest) = op.split_at(1);
        ci = match k {
            "p" => ci.set_port(subst_ports(rest, slots).parse().unwrap()),
            "a" if rest == "n" => ci.set_addr(None),
            "a" => ci.set_addr(slots[digit_idx(rest.chars().next().unwrap())].addr),
            "s" => ci.set_addrs(rest.chars().map(|c| slots[digit_idx(c)].addr)),
            "l" if rest == "4" => ci.set_local_addr(Ipv4Addr::LOCALHOST),
            "l" => ci.set_local_addr(Ipv6Addr::LOCALHOST),
            _ => panic!("bad op {op}"),
        };
    }
    ci
}

/// candidates for the IP-literal oracle: the text before each ':' and the whole text
fn prefixes(host: &str) -> Vec<&str> {
    let mut v: Vec<&str> = host.match_indices(':').map(|(i, _)| &host[..i]).collect();
    v.push(host);
    v.dedup();
    v
}

pub async fn c19conn(line: &str) -> String {
    let host_t = field(line, "host").unwrap_or("");
    let ctor = field(line, "ctor").unwrap_or("n");
    let ops = field(line, "ops").unwrap_or("");
    let res = field(line, "res").unwrap_or("err");
    let svc = field(line, "svc").unwrap_or("c");
    let kinds: Vec<&str> = field(line, "slots").unwrap_or("").split(',').filter(|s| !s.is_empty()).collect();
    let slots = match make_slots(&kinds) {
        Ok(s) => s,
        Err(e) => return e,
    };
    let host = subst_ports(host_t, &slots);
    let want_local = ops.split('/').rev().find_map(|o| match o {
        "l4" => Some(V4),
        "l6" => Some(V6),
        _ => None,
    });

    // ---- oracle answers, recorded from the real environment, independent of actix-tls
    let mut oracle = Vec::new();
    for cand in prefixes(&host) {
        if let Ok(ip) = cand.parse::<IpAddr>() {
            oracle.push(format!("lit:{}={}", hex(cand.as_bytes()), ip_id(ip)));
        }
    }
    // the connect oracle is asked with the local bind address this case uses (the last set_local_addr)
    let tag = match want_local {
        None => "-",
        Some(ip) if ip == V4 => "4",
        Some(_) => "6",
    };
    for (k, s) in slots.iter().enumerate() {
        let out = match probe(s.addr, want_local).await {
            Ok(st) => {
                no_linger(&st);
                "ok".to_string()
            }
            Err(e) => errno(&e),
        };
        oracle.push(format!("dial:{k}/{tag}={out}"));
    }
    if res == "d" {
        let ids: Vec<String> = match ("localhost", 0u16).to_socket_addrs() {
            Ok(it) => it.map(|a| ip_id(a.ip()).to_string()).collect(),
            Err(_) => vec!["fail".into()],
        };
        oracle.push(format!("sys:{}", ids.join("+")));
    }
    for s in &slots {
        if let SlotSock::Live(l) = &s.sock {
            if let Err(e) = drain(l) {
                return e;
            }
        }
    }

    // ---- the call under test
    let log = Rc::new(RefCell::new(Vec::new()));
    let resolver = if res == "d" {
        Resolver::default()
    } else {
        let answer = match res.strip_prefix("ok") {
            Some(idx) => Ok(idx.chars().map(|c| slots[digit_idx(c)].addr).collect()),
            None => Err(()),
        };
        Resolver::custom(ScriptedResolver { log: log.clone(), answer })
    };
    let info = build_info(host.clone(), ctor, ops, &slots);
    let show_conn = |r: Result<Connection<String, TcpStream>, ConnectError>| match r {
        Ok(conn) => {
            no_linger(conn.io_ref());
            let peer = conn.io_ref().peer_addr().map(|a| show_addr(a, &slots)).unwrap_or_else(|_| "?".into());
            let bound = match want_local {
                Some(ip) => (conn.io_ref().local_addr().map(|a| a.ip() == ip).unwrap_or(false)) as u8,
                None => 0,
            };
            let same_req = (conn.request() == &host && conn.hostname() == Host::hostname(&host)) as u8;
            format!("OK peer={} req={} bound={}", peer, same_req, bound)
        }
        Err(e) => show_err(&e),
    };

    // Each of the three connect services has two public ways in: the inherent `service()` and the `ServiceFactory` impl
    // (`new_service(())`, what `pipeline_factory` / `and_then` compositions use), on the value or on a clone of it.
    // Which one a case uses is derived from the case text.
    let entry = line.bytes().fold(0usize, |a, b| a.wrapping_mul(31).wrapping_add(b as usize)) % 4;
    let fut = async {
        match svc {
            "c" => {
                let c = Connector::new(resolver);
                let c = if entry & 2 != 0 { c.clone() } else { c };
                if entry & 1 != 0 {
                    let s = <Connector as ServiceFactory<ConnectInfo<String>>>::new_service(&c, ()).await.unwrap();
                    show_conn(s.call(info).await)
                } else {
                    show_conn(c.service().call(info).await)
                }
            }
            "t" => {
                let c = TcpConnector::default();
                if entry & 1 != 0 {
                    let s = <TcpConnector as ServiceFactory<ConnectInfo<String>>>::new_service(&c, ()).await.unwrap();
                    show_conn(s.call(info).await)
                } else {
                    show_conn(c.service().call(info).await)
                }
            }
            "r" => match {
                let r = if entry & 2 != 0 { resolver.clone() } else { resolver };
                if entry & 1 != 0 {
                    let s = <Resolver as ServiceFactory<ConnectInfo<String>>>::new_service(&r, ()).await.unwrap();
                    s.call(info).await
                } else {
                    r.service().call(info).await
                }
            } {
                Ok(ci) => {
                    let a: Vec<String> = ci.addrs().map(|a| show_addr(a, &slots)).collect();
                    format!("INFO addrs={} port={} req={}", a.join(""), show_port(ci.port(), &slots), (ci.request() == &host) as u8)
                }
                Err(e) => show_err(&e),
            },
            _ => panic!("bad svc"),
        }
    };
    let result = match tokio::time::timeout(WATCHDOG, fut).await {
        Ok(r) => r,
        Err(_) => "HANG".to_string(),
    };

    let mut acc = Vec::new();
    for (k, s) in slots.iter().enumerate() {
        if let SlotSock::Live(l) = &s.sock {
            match drain(l) {
                Ok(n) => acc.push(format!("{}:{}", k, n)),
                Err(e) => return e,
            }
        }
    }
    let logs: Vec<String> = log.borrow().iter().map(|(h, p)| format!("{}:{}", hex(h.as_bytes()), show_port(*p, &slots))).collect();
    // the default resolver (to_socket_addrs) has no call log
    let logs = if res == "d" { "~".to_string() } else { logs.join(",") };
    format!("oracle{{{}}}|log={}|acc={}|res={}", oracle.join(","), logs, acc.join(","), result)
}

// ------------------------------------------------------------------------------------------
// c19tls : the TLS connector services against servers with chosen certificates
// ------------------------------------------------------------------------------------------

async fn echo_server<S: tokio::io::AsyncRead + tokio::io::AsyncWrite + Unpin>(mut s: S) {
    let mut buf = vec![0u8; 16384];
    loop {
        match s.read(&mut buf).await {
            Ok(0) | Err(_) => break,
            Ok(n) => {
                if s.write_all(&buf[..n]).await.is_err() {
                    break;
                }
                let _ = s.flush().await;
            }
        }
    }
    let _ = s.shutdown().await;
}

/// TLS server on `io` presenting identity `id` (tokio-rustls or tokio-openssl, not the actix acceptors)
async fn tls_server<IO>(io: IO, pki: &Pki, id: usize, server_be: &str)
where
    IO: tokio::io::AsyncRead + tokio::io::AsyncWrite + Unpin,
{
    if server_be == "o" {
        let acc = openssl_acceptor(&pki.idents[id]);
        let ssl = openssl::ssl::Ssl::new(acc.context()).unwrap();
        let mut s = tokio_openssl::SslStream::new(ssl, io).unwrap();
        if std::pin::Pin::new(&mut s).accept().await.is_ok() {
            echo_server(s).await;
        }
    } else {
        let acc = tokio_rustls::TlsAcceptor::from(std::sync::Arc::new(rustls_server_config(&pki.idents[id])));
        if let Ok(s) = acc.accept(io).await {
            echo_server(s).await;
        }
    }
}

async fn echo_check<S: tokio::io::AsyncRead + tokio::io::AsyncWrite + Unpin>(s: S, payload: Vec<u8>) -> bool {
    let (mut rd, mut wr) = tokio::io::split(s);
    let n = payload.len();
    let p2 = payload.clone();
    let w = async move {
        let ok = wr.write_all(&p2).await.is_ok() && wr.flush().await.is_ok();
        (ok, wr)
    };
    let r = async move {
        let mut got = vec![0u8; n];
        let ok = rd.read_exact(&mut got).await.is_ok();
        ok && got == payload
    };
    let ((wok, _wr), rok) = tokio::join!(w, r);
    wok && rok
}

fn show_io_err(e: &io::Error) -> String {
    if e.kind() == io::ErrorKind::InvalidInput {
        "ERR InvalidInput".into()
    } else {
        "ERR hs".into()
    }
}

fn name_oracle(host: &str, be: &str, pki: &Pki) -> String {
    let mut out = Vec::new();
    for cand in prefixes(host) {
        let ok = if be == "r" || be == "r22" {
            rustls_pki_types::ServerName::try_from(cand).is_ok()
        } else if be == "r21" {
            rustls_021::ServerName::try_from(cand).is_ok()
        } else if be == "r20" {
            rustls_020::ServerName::try_from(cand).is_ok()
        } else if be == "n" {
            true // native-tls has no separate name step: a name it rejects fails the handshake
        } else {
            let c = openssl_connector(pki);
            let cand = cand.to_string();
            std::panic::catch_unwind(move || c.configure().unwrap().into_ssl(&cand).is_ok()).unwrap_or(false)
        };
        out.push(format!("name:{}={}", hex(cand.as_bytes()), ok as u8));
    }
    out.join(",")
}

pub async fn c19tls(line: &str, pki: &Pki) -> String {
    let be = field(line, "be").unwrap_or("r");
    let io_kind = field(line, "io").unwrap_or("mem");
    let host = String::from_utf8(unhex(field(line, "host").unwrap_or(""))).unwrap();
    let id: usize = field(line, "cert").unwrap_or("0").parse().unwrap();
    let sbe = field(line, "sbe").unwrap_or("r");
    let plen: usize = field(line, "pl").unwrap_or("100").parse().unwrap();
    let seed: u64 = field(line, "seed").unwrap_or("1").parse().unwrap();
    let payload = Rng(seed).bytes(plen);
    let oracle = name_oracle(&host, be, pki);

    let local = tokio::task::LocalSet::new();
    let res = local
        .run_until(async {
            let fut = async {
                if io_kind == "mem" {
                    let (a, b) = tokio::io::duplex(16384);
                    let srv = tls_server(b, pki, id, sbe);
                    let cli = async {
                        let conn = Connection::new(host.clone(), Mem::new(a));
                        tls_client(be, conn, pki, payload.clone()).await
                    };
                    drive(cli, srv).await
                } else {
                    // full pipeline: Connector (pre-set address) then the TLS connector
                    let v6 = io_kind == "tcp6";
                    let l = tokio::net::TcpListener::bind(SocketAddr::new(if v6 { V6 } else { V4 }, 0)).await.unwrap();
                    let addr = l.local_addr().unwrap();
                    let srv = async {
                        if let Ok((s, _)) = l.accept().await {
                            no_linger(&s);
                            tls_server(s, pki, id, sbe).await;
                        }
                    };
                    let cli = async {
                        let info = ConnectInfo::with_addr(host.clone(), addr);
                        // a resolver that fails at once: a pre-set address must never reach it (and a code change that
                        // does reach it must not wait for real DNS)
                        let resolver = Resolver::custom(ScriptedResolver { log: Rc::new(RefCell::new(Vec::new())), answer: Err(()) });
                        match Connector::new(resolver).service().call(info).await {
                            Ok(conn) => {
                                no_linger(conn.io_ref());
                                tls_client(be, conn, pki, payload.clone()).await
                            }
                            Err(e) => format!("TCP {}", show_err(&e)),
                        }
                    };
                    drive(cli, srv).await
                }
            };
            match tokio::time::timeout(WATCHDOG, fut).await {
                Ok(r) => r,
                Err(_) => "HANG".to_string(),
            }
        })
        .await;
    format!("oracle{{{}}}|res={}", oracle, res)
}

/// One TLS connector SERVICE (rustls 0.23 with 0-RTT enabled in the client configuration, or OpenSSL) used for several requests for
/// the same name, one after the other, against servers that present the certificates `certs=<id>,<id>,..` (servers that issue
/// session tickets and allow early data): what an earlier request left behind in the connector or in the TLS library's session
/// cache must not decide a later one — each result is that of a fresh connector.
pub async fn c19reuse(line: &str, pki: &Pki) -> String {
    let be = field(line, "be").unwrap_or("r");
    let host = String::from_utf8(unhex(field(line, "host").unwrap_or(""))).unwrap();
    let certs: Vec<usize> = field(line, "certs").unwrap_or("0").split(',').map(|c| c.parse().unwrap()).collect();
    let plen: usize = field(line, "pl").unwrap_or("100").parse().unwrap();
    let seed: u64 = field(line, "seed").unwrap_or("1").parse().unwrap();
    let oracle = name_oracle(&host, be, pki);
    let rsvc = {
        use rustls_pki_types::CertificateDer;
        let mut roots = rustls::RootCertStore::empty();
        roots.add(CertificateDer::from(pki.ca1_der.clone())).unwrap();
        let mut cfg = rustls::ClientConfig::builder().with_root_certificates(roots).with_no_client_auth();
        cfg.enable_early_data = true;
        actix_tls::connect::rustls_0_23::TlsConnector::service(Arc::new(cfg))
    };
    let osvc = actix_tls::connect::openssl::TlsConnector::service(openssl_connector(pki));
    let local = tokio::task::LocalSet::new();
    let res = local
        .run_until(async {
            let mut out = Vec::new();
            for (k, id) in certs.iter().enumerate() {
                let payload = Rng(seed + k as u64).bytes(plen);
                let (a, b) = tokio::io::duplex(16384);
                let srv = async {
                    let mut sc = rustls_server_config(&pki.idents[*id]);
                    sc.max_early_data_size = 16384;
                    let acc = tokio_rustls::TlsAcceptor::from(Arc::new(sc));
                    if let Ok(s) = acc.accept(b).await {
                        echo_server(s).await;
                    }
                };
                let conn = Connection::new(host.clone(), Mem::new(a));
                let h2 = host.clone();
                let cli = async {
                    macro_rules! step {
                        ($svc:expr) => {{
                            let fut = match std::panic::catch_unwind(std::panic::AssertUnwindSafe(|| $svc.call(conn))) {
                                Ok(f) => f,
                                Err(_) => return "PANIC".to_string(),
                            };
                            match fut.await {
                                Ok(c) => {
                                    let same = (c.request() == &h2) as u8;
                                    let (io, _) = c.into_parts();
                                    format!("OK req={} echo={}", same, echo_check(io, payload).await as u8)
                                }
                                Err(e) => show_io_err(&e),
                            }
                        }};
                    }
                    if be == "o" {
                        step!(osvc)
                    } else {
                        step!(rsvc)
                    }
                };
                let fut = drive(cli, srv);
                // (in-memory transport: a request that has not finished after 3 s never will)
                out.push(match tokio::time::timeout(std::time::Duration::from_secs(3), fut).await {
                    Ok(r) => r,
                    Err(_) => "HANG".to_string(),
                });
            }
            out.join("/")
        })
        .await;
    format!("oracle{{{}}}|res={}", oracle, res)
}

/// run client and server concurrently until the CLIENT is done (a client that fails before it ever connects
/// must not leave us waiting for the server's accept)
async fn drive(cli: impl std::future::Future<Output = String>, srv: impl std::future::Future<Output = ()>) -> String {
    tokio::pin!(cli);
    tokio::pin!(srv);
    tokio::select! {
        biased;
        r = &mut cli => r,
        () = &mut srv => cli.await,
    }
}

async fn tls_client<IO>(be: &str, conn: Connection<String, IO>, pki: &Pki, payload: Vec<u8>) -> String
where
    IO: actix_rt::net::ActixStream + 'static,
{
    let host = conn.request().clone();
    // every TLS connector service of actix-tls behind one face
    macro_rules! run {
        ($svc:expr) => {{
            let svc = $svc;
            let fut = match std::panic::catch_unwind(std::panic::AssertUnwindSafe(|| svc.call(conn))) {
                Ok(f) => f,
                Err(_) => return "PANIC".into(),
            };
            match fut.await {
                Ok(c) => {
                    let same = (c.request() == &host) as u8;
                    let (io, _) = c.into_parts();
                    format!("OK req={} echo={}", same, echo_check(io, payload).await as u8)
                }
                Err(e) => show_io_err(&e),
            }
        }};
    }
    // the factory entry point (`TlsConnector::new(cfg)` + `ServiceFactory::new_service`, on a clone) for every other payload
    let via_factory = payload.len() % 2 == 1;
    if be == "r" && via_factory {
        use actix_tls::connect::rustls_0_23::TlsConnector as F;
        let f = F::new(rustls_client_config(pki)).clone();
        run!(<F as ServiceFactory<Connection<String, IO>>>::new_service(&f, ()).await.unwrap())
    } else if be == "r22" && via_factory {
        use actix_tls::connect::rustls_0_22::TlsConnector as F;
        let f = F::new(rustls22_client_config(pki)).clone();
        run!(<F as ServiceFactory<Connection<String, IO>>>::new_service(&f, ()).await.unwrap())
    } else if be == "r21" && via_factory {
        use actix_tls::connect::rustls_0_21::TlsConnector as F;
        let f = F::new(rustls21_client_config(pki)).clone();
        run!(<F as ServiceFactory<Connection<String, IO>>>::new_service(&f, ()).await.unwrap())
    } else if be == "r20" && via_factory {
        use actix_tls::connect::rustls_0_20::TlsConnector as F;
        let f = F::new(rustls20_client_config(pki)).clone();
        run!(<F as ServiceFactory<Connection<String, IO>>>::new_service(&f, ()).await.unwrap())
    } else if be == "n" && via_factory {
        use actix_tls::connect::native_tls::TlsConnector as F;
        let f = F::new(native_connector(pki)).clone();
        run!(<F as ServiceFactory<Connection<String, IO>>>::new_service(&f, ()).await.unwrap())
    } else if be == "r" {
        run!(actix_tls::connect::rustls_0_23::TlsConnector::service(rustls_client_config(pki)))
    } else if be == "r22" {
        run!(actix_tls::connect::rustls_0_22::TlsConnector::service(rustls22_client_config(pki)))
    } else if be == "r21" {
        run!(actix_tls::connect::rustls_0_21::TlsConnector::service(rustls21_client_config(pki)))
    } else if be == "r20" {
        run!(actix_tls::connect::rustls_0_20::TlsConnector::service(rustls20_client_config(pki)))
    } else if be == "n" {
        run!(actix_tls::connect::native_tls::TlsConnector::new(native_connector(pki)))
    } else {
        use actix_tls::connect::openssl::{TlsConnector as F, TlsConnectorService};
        let svc: TlsConnectorService = if via_factory {
            let f = F::new(openssl_connector(pki)).clone();
            <F as ServiceFactory<Connection<String, IO>>>::new_service(&f, ()).await.unwrap()
        } else {
            F::service(openssl_connector(pki))
        };
        let fut = match std::panic::catch_unwind(std::panic::AssertUnwindSafe(|| svc.call(conn))) {
            Ok(f) => f,
            Err(_) => return "PANIC".into(),
        };
        match fut.await {
            Ok(c) => {
                let same = (c.request() == &host) as u8;
                let (io, _) = c.into_parts();
                format!("OK req={} echo={}", same, echo_check(io, payload).await as u8)
            }
            Err(e) => show_io_err(&e),
        }
    }
}
