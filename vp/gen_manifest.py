#!/usr/bin/env python3
"""Regenerates /verif/MANIFEST.json from the plugins' META dicts (vp/props/cXX.py) and vp/not_applicable.json."""
import importlib
import json
import os
import sys

HERE = os.path.dirname(os.path.abspath(__file__))
ROOT = os.path.dirname(HERE)
sys.path.insert(0, HERE)

ids = [json.loads(l)["id"] for l in open(os.path.join(ROOT, "properties.jsonl"))]
na_path = os.path.join(HERE, "not_applicable.json")
na = json.load(open(na_path)) if os.path.exists(na_path) else {}
hooks = json.load(open(os.path.join(HERE, "hooks.json")))
checks = []
not_app = []
engines = {}
for pid in ids:
    modp = os.path.join(HERE, "props", pid.lower() + ".py")
    propsv = os.path.join(ROOT, "coq", "Props", pid + ".v")
    if not os.path.exists(modp) or not os.path.exists(propsv) or not os.path.exists(os.path.join(ROOT, "evidence", pid + ".json")) or pid in na:
        not_app.append({"property_id": pid, "reason": na.get(pid, "not yet covered by the framework (work in progress; see DESIGN.md §11)")})
        continue
    try:
        m = importlib.import_module("props.%s" % pid.lower()).META
        m["level_text"], m["level_note"], m["technique"]
    except Exception as e:  # noqa: BLE001  (a half-written plugin must not break the manifest)
        not_app.append({"property_id": pid, "reason": "plugin not loadable yet: %s" % str(e)[:120]})
        continue
    checks.append({
        "property_id": pid,
        "quick_cmd": "./check %s --tier quick" % pid,
        "thorough_cmd": "./check %s --tier thorough" % pid,
        "evidence_file": "/verif/evidence/%s.json" % pid,
        "replay_cmd_template": "./check %s --replay {path}" % pid,
        "engine": "coq-proof+correspondence",
        "level_claimed": {"category": m.get("level", "proof"), "text": m["level_text"], "design_ref": m.get("design_ref", "")},
        "level_note": m["level_note"],
        "technique": m["technique"],
    })
manifest = {
    "version": 1,
    "setup_cmd": "./setup.sh",
    "hooks": hooks,
    "engines": [{
        "name": "coq-proof+correspondence",
        "path": "/verif/check",
        "serves_properties": [c["property_id"] for c in checks],
        "kind_free_text": "Coq 8.16 theorems over hand-written executable Gallina models (coq/), tied to /repo by a correspondence run: "
                          "the extracted model (ocaml/) and the real code (harness/, path-dependent on /repo) execute the same cases; "
                          "the property predicate is evaluated on the implementation traces",
    }],
    "checks": checks,
    "not_applicable": not_app,
    "notes": "See DESIGN.md. Known findings: known_findings.txt. Seeded changes used to test the checks: seeded/.",
}
json.dump(manifest, open(os.path.join(ROOT, "MANIFEST.json"), "w"), indent=1)
print("MANIFEST.json: %d checks, %d not_applicable" % (len(checks), len(not_app)))
